/-
  C18 - rendered declarations say what the source says, and stay inert text.
  Property theorems only; helper lemmas live in FordModel/Lemmas/{Escape,Show}.lean,
  the table `escapeSites` is regenerated from the templates on every run.
-/
import FordModel.Escape
import FordModel.Show
import FordModel.Lemmas.Escape
import FordModel.Lemmas.Show
import FordModel.AttrStmt
import FordModel.Lemmas.AttrStmt
import FordModel.ProcPrefix
import FordModel.Lemmas.ProcPrefix
import FordModel.DeclLine
import FordModel.Lemmas.DeclLine
import FordModel.SortComp
import FordModel.Lemmas.SortComp
import FordModel.CharSel
import FordModel.ProcLine
import FordModel.Lemmas.TypeSpecChar
import FordModel.Generated.C18
namespace Ford.C18
open Ford Ford.Html Ford.Show Ford.Generated.C18

/-! ## escaping makes source text inert -/

/-- "shown literally": whatever the string (all of `< > & " '`, backslashes, repeated
    blanks, text that looks like a character reference), the reader sees exactly it. -/
theorem escape_text (s : Str) : textContent (escape s) = s := by
  have h := (hscanFrom_escape .text rfl s []).2 rfl
  have h0 : evChars (hscanFrom .text []) = [] := by decide
  simp only [List.append_nil] at h
  have hd := decode_escape_append s []
  simp only [List.append_nil] at hd
  simp [textContent, rawText, hscan, h, h0, hd, decode]

/-- ... also in the middle of other text: the decoded text of `escape s ++ rest` is `s`
    followed by the decoded text of `rest` (no reference is completed or broken by what
    follows). -/
theorem escape_text_context (s rest : Str) : decode (escape s ++ rest) = s ++ decode rest :=
  decode_escape_append s rest

/-- "never changes the structure of the page": in every tokenizer state in which text may be
    inserted (character data, inside a tag after its name, inside a quoted attribute value)
    the element skeleton of `ctx₁ ++ escape s ++ ctx₂` is that of `ctx₁ ++ ctx₂`, for every
    string `s` and all contexts. -/
theorem escape_inert (ctx₁ ctx₂ s : Str) (h : (stateAfter ctx₁).stable = true) :
    elements (ctx₁ ++ escape s ++ ctx₂) = elements (ctx₁ ++ ctx₂) := by
  have h1 := (hscanFrom_escape (stateAfter ctx₁) h s ctx₂).1
  simp only [elements, hscan, hscanFrom, List.append_assoc, hrun_append, evTags_append] at *
  simp only [stateAfter] at h1
  rw [h1]

/-- the output of `escape` contains none of the characters that open or close markup or
    attribute values -/
theorem escape_no_special (s : Str) : ∀ c ∈ escape s, htmlSpecial c = false :=
  escape_safe s

/-- the same for a template site: an escaped `{{ expr|e }}` shows its value literally and is
    inert in every context -/
theorem site_escaped_inert (site : Site) (hs : site.escaped = true) (v ctx₁ ctx₂ : Str)
    (h : (stateAfter ctx₁).stable = true) :
    textContent (renderSite site v) = v ∧
    elements (ctx₁ ++ renderSite site v ++ ctx₂) = elements (ctx₁ ++ ctx₂) := by
  simp only [renderSite, hs, if_true]
  exact ⟨escape_text v, escape_inert ctx₁ ctx₂ v h⟩

/-- an unescaped site is *not* inert: source text `<b>` in a table cell adds an element and
    its text disappears (what happens today to `var.dimension`, `var.attribs`, `bindC`,
    kind / len, enumerator values) -/
theorem site_unescaped_witness :
    let site : Site := ⟨"macros.html", "variable_list", 217, "var.dimension", "dimension", []⟩
    elements ("<td>".toList ++ renderSite site "(n<b)".toList ++ "</td>".toList)
      ≠ elements ("<td>".toList ++ "</td>".toList) ∧
    textContent (renderSite site "(k<l))".toList ++ "</td>".toList) ≠ "(k<l))".toList := by
  decide

/-- a `<` that is not followed by a letter stays text even unescaped (why `a<1` is harmless
    while `a<b` is not) -/
theorem lt_nonletter_is_text : textContent "a<1 < b".toList = "a<1 < b".toList ∧
    elements "a<1 < b".toList = [] := by decide

/-! ## the template table (regenerated from ford/templates on every run) -/

/-- every initial value written by the variable tables (module, type, procedure, program,
    block-data, interface pages) and by the namelist tables goes through `|e` -/
theorem sites_initial_escaped :
    ∀ s ∈ escapeSites, (s.attr = "initial" ∧ (s.scope = "variable_list" ∨ s.scope = "namelist_row")) →
      s.escaped = true := by decide +kernel

/-- ... and there is such a site in each of the two macros (the statement above is not
    vacuous: deleting the cell does not satisfy it) -/
theorem sites_initial_present :
    (escapeSites.any fun s => s.scope == "variable_list" && s.expr == "var.initial") = true ∧
    (escapeSites.any fun s => s.scope == "namelist_row" && s.expr == "variable.initial") = true := by
  decide +kernel

/-- every other output expression that writes a plain piece of source text is either escaped
    or one of the listed known ones: no new unescaped site, in any template (the environment
    has no auto-escape, so this is the only protection) -/
theorem sites_unescaped_known_partial :
    autoescape = true ∨
    ∀ s ∈ escapeSites, rawSourceAttr s = true →
      s.escaped = true ∨ knownUnescaped.contains (s.scope, s.expr) = true := by
  right
  decide +kernel

/-! ## literals: cut out, parsed around, put back -/

/-- cutting the literals out of a statement loses nothing: texts and literals, in order,
    are the statement - for every line, also with unbalanced quotes -/
theorem cut_lossless (line : Str) : segOriginal (cutLits line) = line := by
  simpa [cutLits, CutSt.pending] using segOriginal_cutGo line 0 .scan

/-- what the parser sees (the masked line) depends only on the text outside the literals and
    on how many literals there are - never on their contents -/
theorem mask_independent_of_literals (a b : List Seg) (h : segShape a = segShape b) :
    segMasked a 0 = segMasked b 0 :=
  segMasked_shape a b 0 h

/-! ## the project option `lower` -/

/-- with `lower: true` only the *code* is lower-cased: the literals kept for re-insertion
    (`self.strings`: initial values, bind names, kinds given as literals) are those of the
    statement as written, and the line the parser sees is the masked line of the statement with
    its code lower-cased - every placeholder `"k"` survives with its number, so each literal
    is put back where it was cut out.  For every statement, unbalanced quotes included. -/
theorem lower_option_keeps_literals (line : Str) :
    (prepLine true line).strings = (prepLine false line).strings ∧
    (prepLine true line).strings = segStrings (cutLits line) ∧
    (prepLine true line).masked = segMasked (lowerSegs (cutLits line)) 0 := by
  simp [prepLine, lower_segMasked]

/-- ... and the statement with its code lower-cased (`lowerSegs`) has the same literals, in the
    same order, and differs from the source statement in letter case only ("convert all
    non-string source code to lower case") -/
theorem lower_option_code_only (line : Str) :
    segStrings (lowerSegs (cutLits line)) = segStrings (cutLits line) ∧
    lower (segOriginal (lowerSegs (cutLits line))) = lower line := by
  refine ⟨segStrings_lowerSegs _, ?_⟩
  rw [lower_segOriginal_lowerSegs]
  have h : segOriginal (cutLits line) = line := by
    simpa [cutLits, CutSt.pending] using segOriginal_cutGo line 0 .scan
  rw [h]

/-- the order of the two steps is what protects the literals: lower-casing the statement
    *before* the literals are cut out gives the parser exactly the same line (letter case never
    opens or closes a literal, so no test of the parser can tell the two orders apart) but
    every literal kept for display is lower-cased - for every statement -/
theorem lower_before_cut_loses_case (line : Str) :
    (prepLineLowerFirst line).masked = (prepLine true line).masked ∧
    (prepLineLowerFirst line).strings = ((prepLine true line).strings).map lower := by
  have h : cutLits (lower line) = lowerAllSegs (cutLits line) := by
    simpa [cutLits, lowered_scan] using cutGo_lower line 0 .scan
  simp [prepLineLowerFirst, prepLine, h, segStrings_lowerAllSegs, segMasked_lowerAllSegs, lower_segMasked]

/-- ... which shows as soon as a literal contains a capital letter: `'Ab'` would be displayed
    as `'ab'`, a `bind(c, name="F_c")` as another C name -/
theorem lower_before_cut_witness :
    (prepLineLowerFirst "c = 'Ab'".toList).strings = ["'ab'".toList] ∧
    (prepLine true "C = 'Ab'".toList).strings = ["'Ab'".toList] ∧
    (prepLine true "C = 'Ab'".toList).masked = "c = \"0\"".toList := by decide

/-- the whole path with the option on: names and code lower-cased, literal as written -/
example : (declVarsOpt true "CHARACTER(3) :: Xv(N) = 'Ab'//Q".toList).toOption
    = some [⟨"xv".toList, "(n)".toList, false, some "'Ab'//q".toList⟩] := by decide

/-- the literal is used as a `re.sub` replacement *template*; doubling the backslashes
    exactly cancels the template's escape processing, for every string -/
theorem tmpl_double_cancels (s : Str) : tmplExpand (doubleBs s) = .ok s :=
  tmplExpand_doubleBs s

/-- ... the re-insertion sites that do not double (`_parse_bind_C`, the ATTRIB branch,
    `parse_type`) change or reject literals with backslashes: `\n` becomes a line feed,
    `\\` one backslash, `\d` raises `re.error` (the whole file is dropped) -/
theorem tmpl_undoubled_witness :
    tmplExpand "'a\\nb'".toList = .ok "'a\nb'".toList ∧
    tmplExpand "'a\\\\b'".toList = .ok "'a\\b'".toList ∧
    tmplExpand "'a\\db'".toList = .error .badEscape := ⟨by rfl, by rfl, by rfl⟩

/-- after re-insertion the code advances `search_from` to the end of the next `QUOTES_RE`
    match: for every well-formed literal (any contents, doubled quotes included), with NBSPs
    substituted, followed by text that does not start with the same quote, that match is the
    literal itself - the loop resumes right behind it and never re-reads literal contents -/
theorem literal_found_whole (q : Char) (hq : isQuote q = true) (body rest : Str)
    (hb : litTail q body = true) (hr : rest.head? ≠ some q) :
    searchQuote (q :: nbsp body ++ rest) = some (0, body.length + 1) := by
  have h1 := litTail_nbspGo q hq body false hb
  have h2 := litEnd_of_litTail q (nbspGo false body) rest h1 hr
  simp [searchQuote, hq, nbsp, h2, nbspGo_length]

/-- ... while two adjacent literals with the same quote run together (`"a"` directly followed
    by the placeholder `"1"` is read as one literal `"a""1"`): the second is never put back -/
theorem literal_adjacent_witness :
    searchQuote "\"a\"\"1\"".toList = some (0, 6) ∧
    (reinsert true true ["'a'".toList, "\"b\"".toList] "\"1\"\"0\"".toList).toOption = none := by
  decide

/-- the whole loop on concrete statements (non-vacuity of the pieces above) -/
example : (reinsert true true ["'a  \\d<b>'".toList, "\"it's\"".toList] "\"0\"//n//\"1\"".toList).toOption
    = some ("'a".toList ++ [nbspChar, nbspChar] ++ "\\d<b>'//n//\"it's\"".toList) := by decide

/-- the NBSP substitution only turns blanks into non-breaking blanks: read with NBSP as a
    blank the literal is unchanged, and no character is added or removed -/
theorem nbsp_display (s : Str) (h : ∀ c ∈ s, c ≠ nbspChar) :
    unNbsp (nbsp s) = s ∧ (nbsp s).length = s.length :=
  ⟨unNbsp_nbspGo s false h, nbspGo_length s false⟩

/-- `COMMA_RE` only adds blanks after commas -/
theorem comma_blank_only (s : Str) : removeSpaces (commaSpace s) = removeSpaces s :=
  removeSpaces_commaSpace s

/-- name and dimension of an entity are a split of what was written: `x(2,3)`, `s*8`,
    `c[*]` - nothing dropped -/
theorem name_dim_lossless (n : Str) : (splitNameDim n).1 ++ (splitNameDim n).2 = n :=
  splitNameDim_append n

/-- `kind=<expr>` is shown as written when the expression contains no comma ... -/
theorem kind_shown_partial (e : Str) (hne : e ≠ []) (h : ∀ c ∈ e, c ≠ ',' ∧ isSpace c = false) :
    kindOfArgs ("kind=".toList ++ e) = e :=
  kindOfArgs_kw e hne h

/-- ... and is cut at the first comma otherwise (finding C18-kind-cut-at-comma) -/
theorem kind_cut_witness : kindOfArgs "kind=merge(4,8,c)".toList = "merge(4".toList := by decide

/-- the type cell is the type keyword with kind and length exactly as stored -/
theorem full_type_text (vt k l : Str) (hk : k ≠ []) (hl : l ≠ []) :
    fullType vt k [] [] [] = vt ++ "(kind=".toList ++ k ++ ")".toList ∧
    fullType vt [] l [] [] = vt ++ "(len=".toList ++ l ++ ")".toList ∧
    fullType vt k l [] [] = vt ++ "(kind=".toList ++ k ++ ", len=".toList ++ l ++ ")".toList ∧
    fullType vt [] [] [] [] = vt := by
  simp [fullType, hk, hl, joinStr]

example : (declVars "integer :: x(2,3) = [1,2], s*8 = 'a  b\\d'//\"q\"".toList).toOption.map (·.length) = some 2 := by
  decide

/-! ## attributes given by separate attribute statements

  `intent(in) :: n`, `dimension a(n, *)`, `optional :: flag`, `value w`, `target :: r` ... reach the
  displayed variable through `attr_dict` and `process_attribs`; the dummy arguments and the
  function result are *moved out of* `self.variables` by `_cleanup`.  `procCleanupSteps` /
  `funcCleanupSteps` are the steps of `_cleanup` in the order the source has them, regenerated
  from ford/sourceform.py on every run (translate/c18.py). -/

open Ford.AttrStmt in
/-- what one variable receives from its attribute statements, for every list of attributes: each
    attribute that is not translated into a field of its own (visibility, intent, the dimension of
    `allocatable x(:)` / `pointer p(:)`, parameter) is among the displayed attributes, the
    attributes of the type declaration are all kept, name and type are untouched -/
theorem statement_attrs_displayed (p : List (Str × Str)) (v : DVar) (attrs : List Str) :
    (∀ a ∈ attrs, isPlainAttr a = true → a ∈ (applyAttrs p v attrs).attribs) ∧
    (∀ a ∈ v.attribs, a ∈ (applyAttrs p v attrs).attribs) ∧
    (applyAttrs p v attrs).name = v.name ∧ (applyAttrs p v attrs).ftype = v.ftype :=
  ⟨fun a ha h => applyAttrs_plain p attrs v a ha h, fun a ha => applyAttrs_attribs_mono p attrs v a ha,
   (applyAttrs_name p attrs v).1, (applyAttrs_name p attrs v).2.1⟩

open Ford.AttrStmt in
/-- the intent shown is the one of the (last) INTENT statement that names the variable -/
theorem statement_intent_displayed (p : List (Str × Str)) (v : DVar) (pre post : List Str) (a : Str)
    (h : a.take 6 = (chars! "intent")) (hp : ∀ b ∈ post, b.take 6 ≠ (chars! "intent")) :
    (applyAttrs p v (pre ++ a :: post)).intent = (a.drop 7).dropLast := by
  have e : pre ++ a :: post = (pre ++ [a]) ++ post := by simp
  rw [e, applyAttrs_append, applyAttrs_intent_other p post _ hp, applyAttrs_append]
  simpa [applyAttrs] using applyAttr_intent p (applyAttrs p v pre) a h

open Ford.AttrStmt in
/-- `process_attribs`, any number of variables and statements: the declaration of a name (the first
    variable with that name) leaves the loop with *all* the attributes recorded for that name, as
    long as no procedure / type / interface of the unit has the name (and the loop over those did
    not raise) -/
theorem attach_first_declaration (p : List (Str × Str)) (items : List Item) (d : Dict)
    (vars vars' : List DVar) (key : Str) (hi : key ∉ items.map (·.name))
    (ha : attach p items d vars = some vars') :
    firstVar key vars' = (firstVar key vars).map (fun v => applyAttrs p v (lookupAttrs d key)) := by
  unfold attach at ha
  cases hc : consumeItems d items with
  | none => simp [hc] at ha
  | some d' =>
    simp only [hc, Option.some.injEq] at ha
    rw [← ha, firstVar_attachGo, lookup_consumeItems items d d' key hi hc]

open Ford.AttrStmt in
/-- ... and an attribute other than a visibility or `bind` for an entry of an interface block makes
    that loop raise (`item.attribs.append` on an object without `attribs`): `optional :: cb` for a
    dummy procedure `cb` that is described by an interface block - the whole source file is then
    dropped (finding C18-attribute-statement-on-interface-procedure) -/
theorem interface_dummy_attribute_raises_witness :
    let st : PState := ⟨[], [.name (chars! "cb")], none, [chars! "cb"], [⟨chars! "cb", false⟩],
      some [(chars! "cb", [chars! "optional"])], []⟩
    runCleanup procStepsSound st = none ∧
    (runCleanup procStepsSound { st with dict := some [(chars! "cb", [chars! "private"])] }).map (·.args)
      = some [.proc (chars! "cb")] := by
  decide

open Ford.AttrStmt in
/-- **dummy arguments keep the attributes of the attribute statements.**  With the steps of
    `FortranProcedure._cleanup` *in the order they have in the source*, for every subroutine - any
    declarations, any attribute statements, any argument list with pairwise distinct names -
    position `i` of the argument table is the declaration of that argument with everything the
    attribute statements say about it (excluded: a dummy procedure given the `external`
    attribute, which FORD removes from the variables).  Matching the arguments before the
    attributes are attached breaks this obligation. -/
theorem proc_args_keep_statement_attribs_partial (st : PState) (d d' : Dict) (argNames : List Str)
    (hd : st.dict = some d) (ha : st.args = argNames.map Slot.name)
    (hc : consumeItems d st.items = some d') (hn : (argNames.map lower).Nodup) :
    ∃ st', runCleanup procCleanupSteps st = some st' ∧
      ∀ (i : Nat) (a : Str) (v : DVar), argNames[i]? = some a → firstVar (lower a) st.vars = some v → lower a ∉ st.items.map (·.name) →
        isExternal (applyAttrs st.params v (lookupAttrs d (lower a))) = false →
        st'.args[i]? = some (Slot.var (applyAttrs st.params v (lookupAttrs d (lower a)))) := by
  have hat : attach st.params st.items d st.vars = some (attachGo st.params d' st.vars) := by
    simp [attach, hc]
  simp only [procCleanupSteps, runCleanup, cleanStep, hd, hat]
  refine ⟨_, rfl, ?_⟩
  intro i a v h1 h2 h3 h4
  simp only [ha]
  exact matchArgs_get argNames hn _ _ i a _ h1 (firstVar_attached _ _ _ _ _ _ _ hat h2 h3 h4)

open Ford.AttrStmt in
/-- the order of the steps of `FortranFunction._cleanup` is one of the two known ones: the result
    matched first (as the code is: finding C18-result-attribute-statements-lost) or last
    (repaired) - in both the attribute statements are processed before the arguments are matched -/
theorem func_cleanup_order_known :
    funcCleanupSteps = funcStepsResultFirst ∨ funcCleanupSteps = funcStepsSound := by decide

open Ford.AttrStmt in
/-- ... and the same for the dummy arguments of every function, with the steps of
    `FortranFunction._cleanup` in their source order -/
theorem func_args_keep_statement_attribs_partial (st : PState) (d d' : Dict) (argNames : List Str) (r : Str)
    (hd : st.dict = some d) (ha : st.args = argNames.map Slot.name) (hr : st.ret = some (.name r))
    (hc : consumeItems d st.items = some d')
    (hn : (argNames.map lower).Nodup) (hra : lower r ∉ argNames.map lower) :
    ∃ st', runCleanup funcCleanupSteps st = some st' ∧
      ∀ (i : Nat) (a : Str) (v : DVar), argNames[i]? = some a → firstVar (lower a) st.vars = some v → lower a ∉ st.items.map (·.name) →
        isExternal (applyAttrs st.params v (lookupAttrs d (lower a))) = false →
        st'.args[i]? = some (Slot.var (applyAttrs st.params v (lookupAttrs d (lower a)))) := by
  have hat : ∀ vs, attach st.params st.items d vs = some (attachGo st.params d' vs) := by
    intro vs; simp [attach, hc]
  rcases func_cleanup_order_known with e | e <;> rw [e]
  · simp only [funcStepsResultFirst, runCleanup, cleanStep, hd, hr, hat]
    refine ⟨_, rfl, ?_⟩
    intro i a v h1 h2 h3 h4
    simp only [ha]
    have hne : lower r ≠ lower a := fun e =>
      hra (e ▸ List.mem_map.mpr ⟨a, List.mem_of_getElem? h1, rfl⟩)
    have h2' := h2
    rw [← matchResult_vars_other r (lower a) hne st.vars] at h2'
    exact matchArgs_get argNames hn _ _ i a _ h1 (firstVar_attached _ _ _ _ _ _ _ (hat _) h2' h3 h4)
  · simp only [funcStepsSound, runCleanup, cleanStep, hd, hat]
    refine ⟨_, rfl, ?_⟩
    intro i a v h1 h2 h3 h4
    simp only [ha]
    exact matchArgs_get argNames hn _ _ i a _ h1 (firstVar_attached _ _ _ _ _ _ _ (hat _) h2 h3 h4)

open Ford.AttrStmt in
/-- the function result keeps the attributes of its attribute statements (`dimension r(3)`,
    `allocatable :: r`, `target r`) when it is matched *after* the attributes are attached (the
    repaired order `funcStepsSound`), for every function ... -/
theorem result_keeps_statement_attribs_partial (st : PState) (d d' : Dict) (argNames : List Str) (r : Str) (v : DVar)
    (hd : st.dict = some d) (ha : st.args = argNames.map Slot.name) (hr : st.ret = some (.name r))
    (hc : consumeItems d st.items = some d')
    (hra : lower r ∉ argNames.map lower) (hv : firstVar (lower r) st.vars = some v)
    (hi : lower r ∉ st.items.map (·.name))
    (hx : isExternal (applyAttrs st.params v (lookupAttrs d (lower r))) = false) :
    ∃ st', runCleanup funcStepsSound st = some st' ∧
      st'.ret = some (.var (applyAttrs st.params v (lookupAttrs d (lower r)))) := by
  have hat : attach st.params st.items d st.vars = some (attachGo st.params d' st.vars) := by
    simp [attach, hc]
  simp only [funcStepsSound, runCleanup, cleanStep, hd, hr, hat]
  refine ⟨_, rfl, ?_⟩
  simp only [ha]
  apply matchResult_get
  rw [matchArgs_vars_other argNames (lower r) hra]
  exact firstVar_attached _ _ _ _ _ _ _ hat hv hi hx

open Ford.AttrStmt in
/-- ... and loses them when it is matched first, as `FortranFunction._cleanup` does today:
    `function f() result(r); real r; dimension r(3); target r` is shown as `real`
    (finding C18-result-attribute-statements-lost); the same state under the repaired order shows
    `real, dimension(3), target` -/
theorem result_matched_first_loses_attribs_witness :
    let r : DVar := ⟨chars! "r", chars! "real", chars! "public", [], false, false, [], [], none⟩
    let st : PState := ⟨[r], [], some (.name (chars! "r")), [], [],
      some [(chars! "r", [chars! "dimension(3)", chars! "target"])], []⟩
    (runCleanup funcStepsResultFirst st).map (·.ret) = some (some (.var r)) ∧
    (runCleanup funcStepsSound st).map (·.ret) =
      some (some (.var { r with attribs := [chars! "dimension(3)", chars! "target"] })) := by
  decide

open Ford.AttrStmt in
/-- the same for dummy arguments if the argument loop ran before `process_attribs`:
    `subroutine s(n); integer n; intent(in) :: n; value n` would be shown as `integer :: n` -
    the attributes are recorded for a name that is no longer among the variables and are dropped
    with `del self.attr_dict`; in the order of the source they are shown -/
theorem args_matched_first_lose_attribs_witness :
    let n : DVar := ⟨chars! "n", chars! "integer", chars! "public", [], false, false, [], [], none⟩
    let st : PState := ⟨[n], [.name (chars! "N")], none, [], [],
      some [(chars! "n", [chars! "intent(in)", chars! "value"])], []⟩
    (runCleanup [.matchArgs, .attribs, .dropExternal] st).map (·.args) = some [.var n] ∧
    (runCleanup procStepsSound st).map (·.args) =
      some [.var { n with intent := chars! "in", attribs := [chars! "value"] }] := by
  decide

/-! ## round 4: the prefix of a procedure statement, the name of a declared entity -/

open Ford.ProcPrefix in
/-- Obligation on the *generated* table of prefix keywords (`_list_of_procedure_attributes`, in the order in
    which the loop tries them): while a keyword is recognised by a substring test no keyword may occur inside a
    keyword that is tried later - `impure` must be found and deleted before `pure` is looked for,
    `non_recursive` before `recursive`.  A reordering of the table breaks this obligation (the heading then
    says `pure` for an `impure` procedure).  With word-wise recognition (repaired code) the order is free. -/
theorem prefix_table_sound : prefixByWord = true ∨ orderSound procPrefixes = true := by decide

/-- the table knows every prefix of Fortran 2018 (R1527) that is not a type specification, once -/
theorem prefix_table_complete :
    (∀ k ∈ [chars! "elemental", chars! "impure", chars! "module", chars! "non_recursive",
            chars! "pure", chars! "recursive"], k ∈ procPrefixes) ∧ procPrefixes.Nodup := by decide

open Ford.ProcPrefix in
/-- "procedure heading ... is textually the declaration": for *every* table in a sound order and every prefix
    written as blank-separated chunks, each chunk (lower-cased) a keyword of the table or a text in which no
    keyword occurs (the type of the result: `integer`, `real(kind=dp)`, `double` `precision`), the substring loop
    reports exactly the keywords that were written - none invented, none lost - and hands the other chunks on
    unchanged (blanks removed) as the type specification of the result. -/
theorem prefixes_recognised_substring (table : List Str) (hs : orderSound table = true) (ws : List Str)
    (hne : joinSep ' ' ws ≠ [])
    (hw : ∀ w ∈ ws.map lower, w ∈ table ∨ noKeyword table w = true) :
    listProcAttrs table (joinSep ' ' ws) =
      (table.filter (fun k => decide (k ∈ ws.map lower)),
       (((ws.map lower).filter (fun w => !decide (w ∈ table))).map dropBlanks).flatten) := by
  have hne' : (joinSep ' ' ws).isEmpty = false := by
    cases h : joinSep ' ' ws with
    | nil => exact absurd h hne
    | cons _ _ => rfl
  have hw' : ∀ w ∈ ws.map lower, w = [] ∨ w ∈ table ∨ noKeyword table w = true :=
    fun w hm => Or.inr (hw w hm)
  simp only [listProcAttrs, hne', Bool.false_eq_true, if_false, lower_joinSep]
  rw [attrsGo_words table hs _ hw']
  simp only [dropBlanks_joinSep, List.map_map]
  congr 1
  have := flatten_map_ite (fun w => decide (w ∈ table)) dropBlanks (ws.map lower)
  simp only [decide_eq_true_eq, List.map_map] at this
  rw [← this]
  congr 1
  apply List.map_congr_left
  intro w _
  by_cases h : lower w ∈ table <;> simp [h, dropBlanks]

open Ford.ProcPrefix in
/-- the same for word-wise recognition (repaired code): for every table without repetitions and every prefix
    written as well-formed chunks (parentheses balanced, no blank outside them) - *whatever* the chunks contain:
    `type(module_data)` is a type, not the prefix `module` -/
theorem prefixes_recognised_words (table : List Str) (hn : table.Nodup) (ws : List Str)
    (hne : joinSep ' ' ws ≠ []) (hw : ∀ w ∈ ws.map lower, chunkOk w 0 0 = true ∧ '\t' ∉ w) :
    listProcAttrsW table (joinSep ' ' ws) =
      (table.filter (fun k => decide (k ∈ ws.map lower)),
       (((ws.map lower).filter (fun w => !decide (w ∈ table))).map dropBlanks).flatten) := by
  have hne' : (joinSep ' ' ws).isEmpty = false := by
    cases h : joinSep ' ' ws with
    | nil => exact absurd h hne
    | cons _ _ => rfl
  have hws : ws.map lower ≠ [] := by
    intro h
    have : ws = [] := by simpa using h
    subst this
    exact hne rfl
  simp only [listProcAttrsW, hne', Bool.false_eq_true, if_false, lower_joinSep]
  rw [tabsToBlanks_joinSep _ (fun w hm => (hw w hm).2),
    parenSplit_joinSep _ hws (fun w hm => (hw w hm).1), attrsWordsGo_eq _ _ hn, dropBlanks_flatten]
  simp

open Ford.ProcPrefix in
/-- ... and for the code as it is today (generated table, generated variant): every prefix keyword written in
    the statement, in any order and letter case, is in the heading, nothing else is, and the type written in the
    prefix reaches `parse_type` whole.  (The excluded class - a keyword *inside* a chunk that is not a keyword,
    `type(module_data) function f()` - is finding C18-prefix-keyword-inside-type-spec while the substring test
    is in the code; see `prefix_inside_type_spec_witness`.) -/
theorem prefixes_recognised_partial (ws : List Str) (hne : joinSep ' ' ws ≠ [])
    (hw : ∀ w ∈ ws.map lower,
      (w ∈ procPrefixes ∨ noKeyword procPrefixes w = true) ∧ chunkOk w 0 0 = true ∧ '\t' ∉ w) :
    procAttrs prefixByWord procPrefixes (joinSep ' ' ws) =
      (procPrefixes.filter (fun k => decide (k ∈ ws.map lower)),
       (((ws.map lower).filter (fun w => !decide (w ∈ procPrefixes))).map dropBlanks).flatten) := by
  by_cases hv : prefixByWord = true
  · simp only [procAttrs, hv, if_true]
    exact prefixes_recognised_words _ prefix_table_complete.2 ws hne (fun w hm => (hw w hm).2)
  · have hs : orderSound procPrefixes = true := by
      rcases prefix_table_sound with h | h
      · exact absurd h hv
      · exact h
    simp only [procAttrs, hv, Bool.false_eq_true, if_false]
    exact prefixes_recognised_substring _ hs ws hne (fun w hm => (hw w hm).1)

open Ford.ProcPrefix in
/-- what a "tidied" table (each keyword next to its opposite) does under the substring test: the order is
    rejected by `orderSound`, and `impure elemental integer function` is headed `pure elemental` with the
    left-over `im` glued to the type (`parse_type` then fails and the result falls back to the implicit type) -/
theorem prefix_order_matters_witness :
    let tidy := [chars! "pure", chars! "impure", chars! "elemental", chars! "recursive",
                 chars! "non_recursive", chars! "module"]
    orderSound tidy = false ∧
    listProcAttrs tidy (chars! "impure elemental integer") = ([chars! "pure", chars! "elemental"], chars! "iminteger") ∧
    listProcAttrs tidy (chars! "non_recursive") = ([chars! "recursive"], chars! "non_") ∧
    listProcAttrsW tidy (chars! "impure elemental integer") =
      ([chars! "impure", chars! "elemental"], chars! "integer") := by
  decide

open Ford.ProcPrefix in
/-- the substring test also finds a keyword inside the type specification: `type(module_data) function f()` is
    headed `module function` and its result is of type `_data` (finding C18-prefix-keyword-inside-type-spec);
    word-wise recognition leaves the type alone -/
theorem prefix_inside_type_spec_witness :
    let table := [chars! "impure", chars! "pure", chars! "elemental", chars! "non_recursive",
                  chars! "recursive", chars! "module"]
    orderSound table = true ∧
    listProcAttrs table (chars! "type(module_data)") = ([chars! "module"], chars! "type(_data)") ∧
    listProcAttrsW table (chars! "type(module_data)") = ([], chars! "type(module_data)") ∧
    listProcAttrsW table (chars! "Pure\ttype( module_data )") = ([chars! "pure"], chars! "type(module_data)") := by
  decide

/-- "dimensions ... is textually the declaration": the name of a declared entity is the text in front of its
    first `(`, `[` or `*` - whichever of the three comes first *in the text* -, the rest is its dimension /
    length: `label*(*)` is `label` + `*(*)`, `codes(n)*(4)` is `codes` + `(n)*(4)`, `s[*]` is `s` + `[*]`.
    (It is under this name that `_cleanup` finds the declaration of a dummy argument or result.) -/
theorem entity_name_is_leading_text (nm rest : Str) (c : Char) (hne : nm ≠ [])
    (h : ∀ x ∈ nm, isNameDelim x = false) (hc : isNameDelim c = true) :
    splitNameDim (nm ++ c :: rest) = (nm, c :: rest) :=
  splitNameDim_leading nm rest c hne h hc

/-- ... and an entity without any of the three is all name -/
theorem entity_name_plain (nm : Str) (h : ∀ x ∈ nm, isNameDelim x = false) :
    splitNameDim nm = (nm, []) :=
  splitNameDim_plain nm h

/-- position, not kind of delimiter, decides: cutting at "the first kind that occurs" (`(` before `[` before
    `*`) is as lossless as the code (`name_dim_lossless` cannot tell them apart) but names `character label*(*)`
    `label*`, so that the dummy argument `label` loses its declaration -/
theorem split_by_kind_witness :
    splitNameDim (chars! "label*(*)") = (chars! "label", chars! "*(*)") ∧
    splitNameDimByKind (chars! "label*(*)") = (chars! "label*", chars! "(*)") ∧
    (splitNameDimByKind (chars! "label*(*)")).1 ++ (splitNameDimByKind (chars! "label*(*)")).2 = chars! "label*(*)" ∧
    splitNameDim (chars! "codes(n)*(4)") = splitNameDimByKind (chars! "codes(n)*(4)") := by
  decide

/-! ## round 4: the attribute list of a type declaration -/

open Ford.DeclLine in
/-- Obligation on the *generated* if-chain of `line_to_variables`: the attributes that are turned into a field of
    their own are exactly the visibility keywords, `optional`, `parameter` and the three `intent`s, each to its own
    field with its own value - a branch that stores `intent(out)` as `in`, or that swallows another attribute,
    breaks this -/
theorem decl_attr_rules_sound :
    (∀ r ∈ rulesSpec, r ∈ declAttrRules) ∧ (∀ r ∈ declAttrRules, r ∈ rulesSpec) ∧
    (declAttrRules.map Prod.fst).Nodup := by decide

open Ford.DeclLine in
/-- "attributes ... is textually the declaration": for every rule table and every attribute list, the attributes
    that have no field of their own are kept as written, all of them, in the order of the source -/
theorem decl_attrs_kept (rules : Rules) (perm : Str) (as : List Str) :
    (classify rules perm as).attribs = as.filter (isPlain rules) :=
  classify_attribs rules perm as

open Ford.DeclLine in
/-- ... `optional` / `parameter` are set exactly when the declaration says so (in any spelling: the attribute is
    compared lower-cased and without blanks) -/
theorem decl_optional_parameter (rules : Rules) (perm : Str) (as : List Str) :
    (classify rules perm as).optional = as.any (isOptRule rules) ∧
    (classify rules perm as).parameter = as.any (isParamRule rules) := by
  simp [classify, foldl_optional, foldl_parameter, DeclAttrs.init]

open Ford.DeclLine in
/-- ... the intent shown is the one written (the last one, should there be two), the visibility the one written, or
    the default of the scope when none is -/
theorem decl_intent_permission (rules : Rules) (perm : Str) (pre post : List Str) (a : Str) :
    (∀ v, lookupRule rules (normAttr a) = some (.intent v) → (∀ b ∈ post, isIntentRule rules b = false) →
      (classify rules perm (pre ++ a :: post)).intent = v) ∧
    (lookupRule rules (normAttr a) = some .permission → (∀ b ∈ post, isPermRule rules b = false) →
      (classify rules perm (pre ++ a :: post)).permission = normAttr a) ∧
    ((∀ b ∈ pre ++ a :: post, isPermRule rules b = false) →
      (classify rules perm (pre ++ a :: post)).permission = perm) :=
  ⟨fun v ha hp => classify_intent_last rules perm pre post a v ha hp,
   fun ha hp => classify_permission_last rules perm pre post a ha hp,
   fun hp => classify_permission_default rules perm _ hp⟩

open Ford.DeclLine in
/-- a declaration without attributes needs no `::`: `integer n` and `integer :: n` give the same entity list -/
theorem old_style_declaration_same_entities (d : Str) (h : TypeSpec.skipWs d = d)
    (hc : ∀ t, d ≠ ':' :: ':' :: t) :
    attribSplit2 (':' :: ':' :: ' ' :: d) = d ∧ attribSplit2 (' ' :: d) = d :=
  attribSplit2_colons d h hc

open Ford.DeclLine in
/-- non-vacuity / the whole function on one line: `Character(len=8), Intent( In ), OPTIONAL, target :: label*(*), s(3)` -/
theorem line_vars_example :
    let r := (lineVars declAttrRules false true (chars! "public")
        ((chars! "Character(len=8), Intent( In ),") ++ (chars! " OPTIONAL, target :: ") ++
         (chars! "label*(*), s(3)"))).toOption
    r.map (fun vs => vs.map (fun v => (v.name, v.dimension, v.attrs.attribs))) =
      some [(chars! "label", chars! "*(*)", [chars! "target"]), (chars! "s", chars! "(3)", [chars! "target"])] ∧
    r.map (fun vs => vs.map (fun v => (v.attrs.intent, v.attrs.optional, v.strlen))) =
      some [(chars! "in", true, some (chars! "8")), (chars! "in", true, some (chars! "8"))] := by
  decide

open Ford.AttrStmt in
/-- an ALLOCATABLE / POINTER / TARGET statement with an array spec (`allocatable :: c(:)`): the variable shows the
    attribute and the array spec of the statement - for every variable and every such attribute -/
theorem shape_statement_shown (p : List (Str × Str)) (v : DVar) (a : Str) (h : isShapeAttr a = true)
    (hp : isPermission a = false) (hi : a.take 6 ≠ (chars! "intent")) :
    a.takeWhile (· != '(') ∈ (applyAttr p v a).attribs ∧
    ∃ t, (applyAttr p v a).dimension = a.dropWhile (· != '(') ++ t ∧
      (Generated.C18Cfg.shapeKeepsLength = true → v.dimension.head? ≠ some '(' → t = v.dimension) := by
  unfold applyAttr
  rw [if_neg (by simp [hp]), if_neg (by simpa using hi), if_pos h]
  refine ⟨by simp, _, rfl, ?_⟩
  intro hk hd
  simp [hk, hd]

open Ford.AttrStmt in
/-- what the two forms of that branch do to `character(len=:) :: title*(80)` + `allocatable title(:)`: the code as
    it was shows `title(:)` (finding C18-shape-statement-drops-length), the repaired form `title(:)*(80)`; an array
    spec of the declaration itself is replaced in both -/
theorem shape_statement_length_witness :
    shapeDimensionV false (chars! "*(80)") (chars! "allocatable(:)") = chars! "(:)" ∧
    shapeDimensionV true (chars! "*(80)") (chars! "allocatable(:)") = chars! "(:)*(80)" ∧
    shapeDimensionV true (chars! "(3)") (chars! "pointer(:)") = chars! "(:)" := by
  decide

open Ford.ProcPrefix in
/-- "argument list ... is textually the declaration": for every list of argument names (each not empty, without
    comma or white space) written `(a, b, c)`, the names of the heading are these names, in this order -/
theorem heading_argument_list (names : List Str) (h : ∀ n ∈ names, argOk n = true) :
    procArgs ('(' :: joinStr [',', ' '] names ++ [')']) = names :=
  procArgs_names names h

open Ford.ProcPrefix in
/-- blanks around the names and commas do not matter, an empty list gives no arguments -/
theorem heading_argument_list_blanks :
    procArgs (chars! "( a ,b,  c )") = [chars! "a", chars! "b", chars! "c"] ∧
    procArgs (chars! "()") = [] ∧ procArgs (chars! "( )") = [] := by decide

/-! ## round 6: the option `sort` and the argument list of a heading; the parameters of a character selector -/

open Ford.SortComp in
/-- obligation on the two regenerated constants ("argument list ... is textually the declaration"): the collection
    from which `proc_line` assembles the argument list of a heading is not one of the collections that
    `sort_components` sorts in place -/
theorem heading_args_not_sorted : sortedCollections.contains headingArgsCollection = false := by decide

open Ford.SortComp in
/-- "argument list": for every value of the option `sort`, every entity and whatever its other collections hold, the
    argument list of the heading after `sort_components` is the argument list before it - the calling sequence of the
    procedure statement (`heading_argument_list`), never a sorted one -/
theorem heading_args_any_sort_option (o : Opt) (e : Entity) :
    headingArgs headingArgsCollection (sortComponents sortedCollections o e) = headingArgs headingArgsCollection e := by
  unfold headingArgs
  rw [coll_sortComponents]
  cases keyFn o with
  | none => rfl
  | some k =>
    have hn : ¬ (sortedCollections.contains headingArgsCollection = true) := by
      intro hc; rw [heading_args_not_sorted] at hc; cases hc
    simp only [if_neg hn]

open Ford.SortComp in
/-- the general form: whatever the table of sorted collections, a collection that is not in it keeps its order -/
theorem sort_keeps_unlisted (tbl : List Str) (n : Str) (h : tbl.contains n = false) (o : Opt) (e : Entity) :
    coll n (sortComponents tbl o e) = coll n e := by
  rw [coll_sortComponents]
  cases keyFn o with
  | none => rfl
  | some k =>
    have hn : ¬ (tbl.contains n = true) := by
      intro hc; rw [h] at hc; cases hc
    simp only [if_neg hn]

open Ford.SortComp in
/-- "each displayed variable, argument, component ...": sorting only reorders - for every option, table and
    collection the rows after `sort_components` are the rows before it, each exactly once and unchanged -/
theorem sort_same_rows (tbl : List Str) (n : Str) (o : Opt) (e : Entity) :
    (coll n (sortComponents tbl o e)).Perm (coll n e) := by
  rw [coll_sortComponents]
  cases keyFn o with
  | none => exact List.Perm.refl _
  | some k =>
    by_cases h : tbl.contains n = true
    · simp only [h, if_true]; exact sortK_perm k _
    · simp only [h]; exact List.Perm.refl _

open Ford.SortComp in
/-- `sort: src` (the default) touches nothing -/
theorem sort_src_identity (tbl : List Str) (e : Entity) : sortComponents tbl .src e = e := rfl

open Ford.SortComp in
/-- the keys of the code's SORT_KEY_FUNCTIONS (regenerated) are the options the model knows, and the one whose entry is
    `None` is `src` -/
theorem sort_options_known :
    sortOptions.map (fun p => (optOf p.1, p.2)) =
      [(some .alpha, false), (some .permission, false), (some .permissionAlpha, false), (some .type, false),
       (some .typeAlpha, false), (some .src, true)] := by decide

open Ford.SortComp in
/-- what happens when the argument collection *is* sorted: `subroutine solve(n, matrix, info)` is headed
    `solve(info, matrix, n)` with `sort: alpha` (the table of the code with `args` added) -/
theorem sorted_heading_args_witness :
    let v (nm : String) : Item := ⟨nm.toList, some "public".toList, "variable".toList, some ⟨"real".toList, [], [], []⟩, none, none⟩
    let e : Entity := [("args".toList, [v "n", v "matrix", v "info"])]
    headingArgs "args".toList (sortComponents ("args".toList :: sortedCollections) .alpha e)
      = ["info".toList, "matrix".toList, "n".toList] ∧
    headingArgs "args".toList (sortComponents sortedCollections .alpha e)
      = ["n".toList, "matrix".toList, "info".toList] := by decide

example : (Ford.SortComp.sortK (fun (p : Nat × Nat) => .int p.1) [(2, 0), (1, 1), (2, 2), (1, 3)]) = [(1, 1), (1, 3), (2, 0), (2, 2)] := by
  decide

open Ford.TypeSpec Ford.CharSel in
/-- obligation on the regenerated branches of the loop over the parameters of a `character(...)` selector: run in
    source order, first branch that fires, they are the loop of the hand-written model of `parse_type` - for every
    list of parameters and every state.  (Dropping an "already set" guard changes the regenerated branches and this
    proof no longer goes through.) -/
theorem char_selector_chain_as_modelled (args : List Str) (len kind : Option Str) :
    charSel charSelRules args len kind = charArgs args len kind := by
  unfold charSelRules
  induction args generalizing len kind with
  | nil => simp [charSel, charArgs]
  | cons a as ih =>
    cases hk : kindMatch a with
    | none =>
      cases len <;> cases kind <;> cases hl : lenMatch a <;>
        simp [charSel, charArgs, stepArg, fire, hl, hk, ih]
    | some v =>
      cases hq : hasQuote v <;> cases len <;> cases kind <;> cases hl : lenMatch a <;>
        simp [charSel, charArgs, stepArg, fire, hl, hk, hq, ih]

open Ford.TypeSpec Ford.CharSel Ford.Show in
/-- "type, kind/length": both parameters given positionally - `character(n, k)` with `n` a digit string, a name, `*`
    or `:` and `k` any text without blank, parenthesis, comma, `=` or quote (an integer literal `4` in particular) -
    are stored as length `n` and kind `k`, and the type cell reads `character(kind=k, len=n)` -/
theorem char_selector_positional (n k : Str) (h : LenVal n) (hk : ∀ c ∈ k, kindCh c = true) (hne : k ≠ []) :
    charSel charSelRules [n, k] none none = .ok (some n, some k) ∧
    fullType (chars! "character") k n [] [] = (chars! "character(kind=") ++ k ++ (chars! ", len=") ++ n ++ [')'] := by
  refine ⟨?_, ?_⟩
  · rw [char_selector_chain_as_modelled]; exact charArgs_bare_bare n k h hk
  · have := (full_type_text (chars! "character") k n hne (lenVal_ne h)).2.2.1
    simpa using this

open Ford.TypeSpec Ford.CharSel in
/-- ... and the spellings with keywords, in either order, give the same two fields -/
theorem char_selector_keywords (L K n k : Str) (hL : lower L = (chars! "len")) (hK : lower K = (chars! "kind"))
    (h : LenVal n) (hk : ∀ c ∈ k, kindCh c = true) (hne : k ≠ []) :
    charSel charSelRules [L ++ '=' :: n, K ++ '=' :: k] none none = .ok (some n, some k) ∧
    charSel charSelRules [K ++ '=' :: k, L ++ '=' :: n] none none = .ok (some n, some k) ∧
    charSel charSelRules [n, K ++ '=' :: k] none none = .ok (some n, some k) := by
  simp only [char_selector_chain_as_modelled]
  exact ⟨charArgs_len_kind L K n k hL hK h hk hne, charArgs_kind_len L K n k hL hK h hk hne,
         charArgs_bare_kind K n k hK h hk hne⟩

open Ford.TypeSpec Ford.CharSel in
/-- what the chain without the guards of its two regular-expression branches does to `character(10, 4)` and
    `character(*, 4)`: the kind overwrites the length / is taken for the length, the kind is gone; the chain of the
    code gives length and kind -/
theorem char_selector_unguarded_witness :
    charSel unguardedRules [chars! "10", chars! "4"] none none = .ok (some (chars! "4"), none) ∧
    charSel unguardedRules [chars! "*", chars! "4"] none none = .ok (some (chars! "4"), none) ∧
    charSel soundRules [chars! "10", chars! "4"] none none = .ok (some (chars! "10"), some (chars! "4")) ∧
    charSel soundRules [chars! "*", chars! "4"] none none = .ok (some (chars! "*"), some (chars! "4")) :=
  ⟨rfl, rfl, rfl, rfl⟩

example : Ford.CharSel.charSel charSelRules [chars! "len=3", chars! "kind=ck"] none none
    = .ok (some (chars! "3"), some (chars! "ck")) := rfl

/-! ## round 6: the heading macro `proc_line` -/

open Ford.ProcLine in
/-- obligation on the regenerated macro: its output expressions (with their filters - the BIND name goes through
    `|e`), the separators of its two `join` filters, the literal text between the expressions and the tests of its `if`
    statements are the ones the model `ProcLine.procLine` lays out; the test of the RESULT clause has one of the two
    known forms and the variant flag says which -/
theorem proc_line_as_modelled :
    (escapeSites.filter (fun s => s.scope == "proc_line")).map (fun s => (s.expr, s.filters)) = modelledSites ∧
    procLineJoins = modelledJoins ∧ procLineData = modelledData ∧
    procLineTests = modelledTests procLineResultCI := by decide

open Ford.ProcLine in
/-- "bind name ... shown literally and never changes the structure of the page": for every procedure and every BIND
    name the reader sees the name as written, and the element skeleton of the heading (in any context that leaves the
    tokenizer in a stable state) is that of the heading with an empty name -/
theorem heading_bind_name_inert (ci proto : Bool) (p : Proc) (hb : p.bindC ≠ []) (ctx₂ : Str)
    (h : (stateAfter (headText ci proto p ++ " bind(".toList)).stable = true) :
    textContent (escape p.bindC) = p.bindC ∧
    elements (procLine ci proto p ++ ctx₂) = elements (headText ci proto p ++ " bind(".toList ++ (')' :: ctx₂)) := by
  refine ⟨escape_text _, ?_⟩
  have hne : p.bindC.isEmpty = false := by cases hp : p.bindC <;> simp_all
  have := escape_inert (headText ci proto p ++ " bind(".toList) (')' :: ctx₂) p.bindC h
  simpa [procLine, hne, List.append_assoc] using this

open Ford.ProcLine in
/-- "result name": the heading has a RESULT clause exactly when the procedure is a function whose result is not
    named like the function (names compared case-insensitively, as Fortran does), and then it shows the result's name -/
theorem heading_result_clause (p : Proc) (r : Str) :
    showsResult true p = some r ↔
      (lower p.proctype = kwFunction ∧ p.retName = some r ∧ lower p.name ≠ lower r) := by
  unfold showsResult
  by_cases hf : lower p.proctype = kwFunction
  · rw [if_pos hf]
    cases hr : p.retName with
    | none => simp
    | some r' =>
      by_cases hn : lower p.name = lower r'
      · have hd : namesDiffer true p.name r' = false := by simp [namesDiffer, hn]
        simp only [hd]
        constructor
        · intro h; cases h
        · rintro ⟨_, h2, h3⟩
          cases h2
          exact absurd hn h3
      · have hd : namesDiffer true p.name r' = true := by simp [namesDiffer, hn]
        simp only [hd, if_true]
        constructor
        · intro h; cases h; exact ⟨hf, rfl, hn⟩
        · rintro ⟨_, h2, _⟩; exact h2
  · rw [if_neg hf]
    constructor
    · intro h; cases h
    · rintro ⟨h1, _⟩; exact absurd h1 hf

open Ford.ProcLine in
/-- the other form of that test (names compared as written) invents a RESULT clause for `function f1(x)` whose
    result is declared as `F1` (finding C18-result-clause-invented); the form of the code as it is does not -/
theorem heading_result_case_witness :
    let p : Proc := ⟨true, "public".toList, [], "Function".toList, "f1".toList, ["x".toList], some "F1".toList, []⟩
    showsResult false p = some "F1".toList ∧ showsResult true p = none ∧
    procLine true false p = "public  function f1(x)".toList := by decide +kernel

open Ford.ProcLine Ford.ProcPrefix Ford.SortComp in
/-- "argument list ... is textually the declaration", end to end over the three mechanisms: the names written between
    the parentheses of the procedure statement (`procArgs`), carried by the collection the heading is assembled from,
    through `sort_components` with any value of the option `sort`, into the markup of `proc_line`: the heading
    contains `(` the names in the order of the statement, joined with `, ` `)` -/
theorem heading_shows_statement_arguments (names : List Str) (h : ∀ n ∈ names, argOk n = true)
    (o : Opt) (e : Entity) (p : Proc) (proto : Bool)
    (he : headingArgs headingArgsCollection e = procArgs ('(' :: joinStr [',', ' '] names ++ [')']))
    (hp : p.args = headingArgs headingArgsCollection (sortComponents sortedCollections o e)) :
    ∃ pre post, procLine procLineResultCI proto p = pre ++ '(' :: joinStr [',', ' '] names ++ ')' :: post := by
  rw [heading_args_any_sort_option, he, procArgs_names names h] at hp
  refine ⟨(if p.moduleLevel && !proto then p.permission ++ [' '] else []) ++
            joinStr [' '] p.attribs ++ ' ' :: lower p.proctype ++ ' ' :: p.name,
          (match showsResult procLineResultCI p with
           | some r => " result(".toList ++ r ++ [')']
           | none => []) ++
          (if p.bindC.isEmpty then [] else " bind(".toList ++ escape p.bindC ++ [')']), ?_⟩
  simp [procLine, headText, hp, List.append_assoc]
  all_goals rfl

example : Ford.ProcLine.procLine true false
    ⟨true, "public".toList, ["pure".toList], "Function".toList, "f".toList, ["b".toList, "a".toList], some "r".toList,
     "c, name=\"x<b>&y\"".toList⟩
    = "public pure function f(b, a) result(r) bind(c, name=&#34;x&lt;b&gt;&amp;y&#34;)".toList := by decide

end Ford.C18
