/-
  C18 - rendered declarations say what the source says, and stay inert text.
  Property theorems only; helper lemmas live in FordModel/Lemmas/{Escape,Show}.lean,
  the table `escapeSites` is regenerated from the templates on every run.
-/
import FordModel.Escape
import FordModel.Show
import FordModel.Lemmas.Escape
import FordModel.Lemmas.Show
import FordModel.Generated.C18
namespace Ford.C18
open Ford Ford.Html Ford.Show Ford.Generated.C18

/-! ## escaping makes source text inert -/

/-- "shown literally": whatever the string (all of `< > & " '`, backslashes, repeated
    blanks, text that looks like a character reference), the reader sees exactly it. -/
theorem escape_text (s : Str) : textContent (escape s) = s := by
  have h := (hscanFrom_escape .text rfl s []).2 rfl
  have h0 : evChars (hscanFrom .text []) = [] := by decide
  simp only [List.append_nil] at h
  have hd := decode_escape_append s []
  simp only [List.append_nil] at hd
  simp [textContent, rawText, hscan, h, h0, hd, decode]

/-- ... also in the middle of other text: the decoded text of `escape s ++ rest` is `s`
    followed by the decoded text of `rest` (no reference is completed or broken by what
    follows). -/
theorem escape_text_context (s rest : Str) : decode (escape s ++ rest) = s ++ decode rest :=
  decode_escape_append s rest

/-- "never changes the structure of the page": in every tokenizer state in which text may be
    inserted (character data, inside a tag after its name, inside a quoted attribute value)
    the element skeleton of `ctx₁ ++ escape s ++ ctx₂` is that of `ctx₁ ++ ctx₂`, for every
    string `s` and all contexts. -/
theorem escape_inert (ctx₁ ctx₂ s : Str) (h : (stateAfter ctx₁).stable = true) :
    elements (ctx₁ ++ escape s ++ ctx₂) = elements (ctx₁ ++ ctx₂) := by
  have h1 := (hscanFrom_escape (stateAfter ctx₁) h s ctx₂).1
  simp only [elements, hscan, hscanFrom, List.append_assoc, hrun_append, evTags_append] at *
  simp only [stateAfter] at h1
  rw [h1]

/-- the output of `escape` contains none of the characters that open or close markup or
    attribute values -/
theorem escape_no_special (s : Str) : ∀ c ∈ escape s, htmlSpecial c = false :=
  escape_safe s

/-- the same for a template site: an escaped `{{ expr|e }}` shows its value literally and is
    inert in every context -/
theorem site_escaped_inert (site : Site) (hs : site.escaped = true) (v ctx₁ ctx₂ : Str)
    (h : (stateAfter ctx₁).stable = true) :
    textContent (renderSite site v) = v ∧
    elements (ctx₁ ++ renderSite site v ++ ctx₂) = elements (ctx₁ ++ ctx₂) := by
  simp only [renderSite, hs, if_true]
  exact ⟨escape_text v, escape_inert ctx₁ ctx₂ v h⟩

/-- an unescaped site is *not* inert: source text `<b>` in a table cell adds an element and
    its text disappears (what happens today to `var.dimension`, `var.attribs`, `bindC`,
    kind / len, enumerator values) -/
theorem site_unescaped_witness :
    let site : Site := ⟨"macros.html", "variable_list", 217, "var.dimension", "dimension", []⟩
    elements ("<td>".toList ++ renderSite site "(n<b)".toList ++ "</td>".toList)
      ≠ elements ("<td>".toList ++ "</td>".toList) ∧
    textContent (renderSite site "(k<l))".toList ++ "</td>".toList) ≠ "(k<l))".toList := by
  decide

/-- a `<` that is not followed by a letter stays text even unescaped (why `a<1` is harmless
    while `a<b` is not) -/
theorem lt_nonletter_is_text : textContent "a<1 < b".toList = "a<1 < b".toList ∧
    elements "a<1 < b".toList = [] := by decide

/-! ## the template table (regenerated from ford/templates on every run) -/

/-- every initial value written by the variable tables (module, type, procedure, program,
    block-data, interface pages) and by the namelist tables goes through `|e` -/
theorem sites_initial_escaped :
    ∀ s ∈ escapeSites, (s.attr = "initial" ∧ (s.scope = "variable_list" ∨ s.scope = "namelist_row")) →
      s.escaped = true := by decide +kernel

/-- ... and there is such a site in each of the two macros (the statement above is not
    vacuous: deleting the cell does not satisfy it) -/
theorem sites_initial_present :
    (escapeSites.any fun s => s.scope == "variable_list" && s.expr == "var.initial") = true ∧
    (escapeSites.any fun s => s.scope == "namelist_row" && s.expr == "variable.initial") = true := by
  decide +kernel

/-- every other output expression that writes a plain piece of source text is either escaped
    or one of the listed known ones: no new unescaped site, in any template (the environment
    has no auto-escape, so this is the only protection) -/
theorem sites_unescaped_known_partial :
    autoescape = true ∨
    ∀ s ∈ escapeSites, rawSourceAttr s = true →
      s.escaped = true ∨ knownUnescaped.contains (s.scope, s.expr) = true := by
  right
  decide +kernel

/-! ## literals: cut out, parsed around, put back -/

/-- cutting the literals out of a statement loses nothing: texts and literals, in order,
    are the statement - for every line, also with unbalanced quotes -/
theorem cut_lossless (line : Str) : segOriginal (cutLits line) = line := by
  simpa [cutLits, CutSt.pending] using segOriginal_cutGo line 0 .scan

/-- what the parser sees (the masked line) depends only on the text outside the literals and
    on how many literals there are - never on their contents -/
theorem mask_independent_of_literals (a b : List Seg) (h : segShape a = segShape b) :
    segMasked a 0 = segMasked b 0 :=
  segMasked_shape a b 0 h

/-! ## the project option `lower` -/

/-- with `lower: true` only the *code* is lower-cased: the literals kept for re-insertion
    (`self.strings`: initial values, bind names, kinds given as literals) are those of the
    statement as written, and the line the parser sees is the masked line of the statement with
    its code lower-cased - every placeholder `"k"` survives with its number, so each literal
    is put back where it was cut out.  For every statement, unbalanced quotes included. -/
theorem lower_option_keeps_literals (line : Str) :
    (prepLine true line).strings = (prepLine false line).strings ∧
    (prepLine true line).strings = segStrings (cutLits line) ∧
    (prepLine true line).masked = segMasked (lowerSegs (cutLits line)) 0 := by
  simp [prepLine, lower_segMasked]

/-- ... and the statement with its code lower-cased (`lowerSegs`) has the same literals, in the
    same order, and differs from the source statement in letter case only ("convert all
    non-string source code to lower case") -/
theorem lower_option_code_only (line : Str) :
    segStrings (lowerSegs (cutLits line)) = segStrings (cutLits line) ∧
    lower (segOriginal (lowerSegs (cutLits line))) = lower line := by
  refine ⟨segStrings_lowerSegs _, ?_⟩
  rw [lower_segOriginal_lowerSegs]
  have h : segOriginal (cutLits line) = line := by
    simpa [cutLits, CutSt.pending] using segOriginal_cutGo line 0 .scan
  rw [h]

/-- the order of the two steps is what protects the literals: lower-casing the statement
    *before* the literals are cut out gives the parser exactly the same line (letter case never
    opens or closes a literal, so no test of the parser can tell the two orders apart) but
    every literal kept for display is lower-cased - for every statement -/
theorem lower_before_cut_loses_case (line : Str) :
    (prepLineLowerFirst line).masked = (prepLine true line).masked ∧
    (prepLineLowerFirst line).strings = ((prepLine true line).strings).map lower := by
  have h : cutLits (lower line) = lowerAllSegs (cutLits line) := by
    simpa [cutLits, lowered_scan] using cutGo_lower line 0 .scan
  simp [prepLineLowerFirst, prepLine, h, segStrings_lowerAllSegs, segMasked_lowerAllSegs, lower_segMasked]

/-- ... which shows as soon as a literal contains a capital letter: `'Ab'` would be displayed
    as `'ab'`, a `bind(c, name="F_c")` as another C name -/
theorem lower_before_cut_witness :
    (prepLineLowerFirst "c = 'Ab'".toList).strings = ["'ab'".toList] ∧
    (prepLine true "C = 'Ab'".toList).strings = ["'Ab'".toList] ∧
    (prepLine true "C = 'Ab'".toList).masked = "c = \"0\"".toList := by decide

/-- the whole path with the option on: names and code lower-cased, literal as written -/
example : (declVarsOpt true "CHARACTER(3) :: Xv(N) = 'Ab'//Q".toList).toOption
    = some [⟨"xv".toList, "(n)".toList, false, some "'Ab'//q".toList⟩] := by decide

/-- the literal is used as a `re.sub` replacement *template*; doubling the backslashes
    exactly cancels the template's escape processing, for every string -/
theorem tmpl_double_cancels (s : Str) : tmplExpand (doubleBs s) = .ok s :=
  tmplExpand_doubleBs s

/-- ... the re-insertion sites that do not double (`_parse_bind_C`, the ATTRIB branch,
    `parse_type`) change or reject literals with backslashes: `\n` becomes a line feed,
    `\\` one backslash, `\d` raises `re.error` (the whole file is dropped) -/
theorem tmpl_undoubled_witness :
    tmplExpand "'a\\nb'".toList = .ok "'a\nb'".toList ∧
    tmplExpand "'a\\\\b'".toList = .ok "'a\\b'".toList ∧
    tmplExpand "'a\\db'".toList = .error .badEscape := ⟨by rfl, by rfl, by rfl⟩

/-- after re-insertion the code advances `search_from` to the end of the next `QUOTES_RE`
    match: for every well-formed literal (any contents, doubled quotes included), with NBSPs
    substituted, followed by text that does not start with the same quote, that match is the
    literal itself - the loop resumes right behind it and never re-reads literal contents -/
theorem literal_found_whole (q : Char) (hq : isQuote q = true) (body rest : Str)
    (hb : litTail q body = true) (hr : rest.head? ≠ some q) :
    searchQuote (q :: nbsp body ++ rest) = some (0, body.length + 1) := by
  have h1 := litTail_nbspGo q hq body false hb
  have h2 := litEnd_of_litTail q (nbspGo false body) rest h1 hr
  simp [searchQuote, hq, nbsp, h2, nbspGo_length]

/-- ... while two adjacent literals with the same quote run together (`"a"` directly followed
    by the placeholder `"1"` is read as one literal `"a""1"`): the second is never put back -/
theorem literal_adjacent_witness :
    searchQuote "\"a\"\"1\"".toList = some (0, 6) ∧
    (reinsert true true ["'a'".toList, "\"b\"".toList] "\"1\"\"0\"".toList).toOption = none := by
  decide

/-- the whole loop on concrete statements (non-vacuity of the pieces above) -/
example : (reinsert true true ["'a  \\d<b>'".toList, "\"it's\"".toList] "\"0\"//n//\"1\"".toList).toOption
    = some ("'a".toList ++ [nbspChar, nbspChar] ++ "\\d<b>'//n//\"it's\"".toList) := by decide

/-- the NBSP substitution only turns blanks into non-breaking blanks: read with NBSP as a
    blank the literal is unchanged, and no character is added or removed -/
theorem nbsp_display (s : Str) (h : ∀ c ∈ s, c ≠ nbspChar) :
    unNbsp (nbsp s) = s ∧ (nbsp s).length = s.length :=
  ⟨unNbsp_nbspGo s false h, nbspGo_length s false⟩

/-- `COMMA_RE` only adds blanks after commas -/
theorem comma_blank_only (s : Str) : removeSpaces (commaSpace s) = removeSpaces s :=
  removeSpaces_commaSpace s

/-- name and dimension of an entity are a split of what was written: `x(2,3)`, `s*8`,
    `c[*]` - nothing dropped -/
theorem name_dim_lossless (n : Str) : (splitNameDim n).1 ++ (splitNameDim n).2 = n :=
  splitNameDim_append n

/-- `kind=<expr>` is shown as written when the expression contains no comma ... -/
theorem kind_shown_partial (e : Str) (hne : e ≠ []) (h : ∀ c ∈ e, c ≠ ',' ∧ isSpace c = false) :
    kindOfArgs ("kind=".toList ++ e) = e :=
  kindOfArgs_kw e hne h

/-- ... and is cut at the first comma otherwise (finding C18-kind-cut-at-comma) -/
theorem kind_cut_witness : kindOfArgs "kind=merge(4,8,c)".toList = "merge(4".toList := by decide

/-- the type cell is the type keyword with kind and length exactly as stored -/
theorem full_type_text (vt k l : Str) (hk : k ≠ []) (hl : l ≠ []) :
    fullType vt k [] [] [] = vt ++ "(kind=".toList ++ k ++ ")".toList ∧
    fullType vt [] l [] [] = vt ++ "(len=".toList ++ l ++ ")".toList ∧
    fullType vt k l [] [] = vt ++ "(kind=".toList ++ k ++ ", len=".toList ++ l ++ ")".toList ∧
    fullType vt [] [] [] [] = vt := by
  simp [fullType, hk, hl, joinStr]

example : (declVars "integer :: x(2,3) = [1,2], s*8 = 'a  b\\d'//\"q\"".toList).toOption.map (·.length) = some 2 := by
  decide

end Ford.C18
