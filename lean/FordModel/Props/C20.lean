/-
  C20 — an unparseable file is skipped without disturbing the rest.
  Property theorems only; the models are FordModel/ProjectLoop.lean (per-file loop of
  Project.__init__, _fortran_file) and FordModel/Nesting.lean (statement loop of
  FortranContainer.__init__ as a stack machine over statement kinds, driven by the
  cascade / hasattr / isinstance tables generated from the source); helper lemmas
  live in FordModel/Lemmas.
-/
import FordModel.ProjectLoop
import FordModel.Lemmas.ProjectLoop
import FordModel.Lemmas.Nesting
import FordModel.Lemmas.Backtrack
import FordModel.Lemmas.Markup
import FordModel.Lemmas.EnumValues
import FordModel.Lemmas.IncludeNest
import FordModel.TypeSpec
namespace Ford.C20
open Ford

/-! ## containment in the per-file loop (default `dbg = true`) -/

/-- **Contained.**  A file whose constructor raised, put at *any* position `k`
    (before, between, after the others) leaves every project-wide list - files,
    modules, submodules, procedures, programs, block data, each with its order -
    exactly as if the file were absent. -/
theorem contained (k : Nat) (f : Str) (e : Err) (good : List (Str × Except Err FileTree)) :
    (loadAll true (insertFileAt k (f, .error e) good)).reg = (loadAll true good).reg := by
  unfold loadAll
  rw [loadFrom_reg_filter, filter_insertAt_error, ← loadFrom_reg_filter]

/-- ... and for any number of rejected files at any positions: the registered
    state is that of the project consisting of the accepted files only. -/
theorem contained_many (fs : List (Str × Except Err FileTree)) :
    (loadAll true fs).reg = (loadAll true (fs.filter isOkFile)).reg :=
  loadFrom_reg_filter {} fs

/-- **Named in the diagnostic.**  The warnings name exactly the rejected files, each
    once, in the order they were read, with the exception that rejected them. -/
theorem rejected_named (fs : List (Str × Except Err FileTree)) :
    (loadAll true fs).warned
      = fs.filterMap rejection := by
  simp [loadAll, loadFrom_warned]

/-- **Skipped.**  The registered files are exactly the accepted ones, in reading
    order; a rejected file is never registered (nothing of it: `contained_many`). -/
theorem registered_files (fs : List (Str × Except Err FileTree)) :
    (loadAll true fs).reg.files.map (·.1) = (fs.filter isOkFile).map (·.1) := by
  simp [loadAll, loadFrom_files]

/-- **The run goes on.**  With `dbg` no exception of a file's constructor ends the loop. -/
theorem never_aborts (fs : List (Str × Except Err FileTree)) : (loadAll true fs).aborted = none := by
  simp [loadAll, loadFrom_aborted]

/-- Without `dbg` the first rejected file ends the run (the property is stated for the
    default settings only; this is the witness that the setting matters). -/
theorem abort_without_dbg_witness :
    (loadAll false [("a".toList, .ok {}), ("b".toList, .error .nested), ("c".toList, .ok {})]).aborted
        = some ("b".toList, .nested)
    ∧ (loadAll false [("a".toList, .ok {}), ("b".toList, .error .nested), ("c".toList, .ok {})]).reg.files.map (·.1)
        = ["a".toList] := by decide

/-- **Contained, from the sources.**  Whatever makes the bad file's constructor raise -
    undecodable bytes, a reader error, or a statement sequence on which the parser model
    raises - and wherever the file is read, the registered state of the project is the
    one of the project without it. -/
theorem project_contained (cfg : Cfg) (hd : cfg.dbg = true) (k : Nat) (f : Str) (bad : Src)
    (hbad : (srcOutcome cfg bad).isSkipped = true) (good : List (Str × Src)) :
    (loadProject cfg (insertFileAt k (f, bad) good)).reg = (loadProject cfg good).reg := by
  unfold loadProject
  rw [hd]
  cases hso : srcOutcome cfg bad with
  | registered p r => simp [hso, Outcome.isSkipped] at hbad
  | skipped e r =>
    have : (insertFileAt k (f, bad) good).map (fun f => (f.1, toLoad (srcOutcome cfg f.2)))
        = insertFileAt k (f, .error e) (good.map (fun f => (f.1, toLoad (srcOutcome cfg f.2)))) := by
      simp [insertFileAt, List.map_take, List.map_drop, hso, toLoad]
    rw [this]
    exact contained k f e _

/-! ## which malformed files the parser rejects -/

/-- **Truncated.**  If the statements run out while any container is still open
    (stack depth ≥ 2) the file is rejected with "File ended while still nested". -/
theorem truncated_rejected (cfg : Cfg) (ss : List Stmt) (st : MS)
    (hrun : run cfg initMS ss = .ok st) (hdepth : st.stack.length ≥ 2) :
    parseFile cfg ss = .skipped .nested st.reps := by
  simp only [parseFile, parseFrom, hrun, finish]
  match hs : st.stack with
  | [] => simp [hs] at hdepth
  | [f] => simp [hs] at hdepth
  | f :: g :: r => rfl

/-- **Unclosed unit.**  Any prefix `pre`, then any statement `o` that the parser accepts
    as the opening of a nested container (the stack grows), then any non-empty run of
    statements that neither open nor close anything: the file is rejected as nested.
    (This is every truncation of a file inside a unit body, for all bodies.) -/
theorem unclosed_unit_rejected (cfg : Cfg) (hd : cfg.dbg = true) (pre : List Stmt) (o : Stmt)
    (body : List Stmt) (st st1 : MS)
    (hpre : runMid cfg initMS pre = .ok st)
    (hopen : step cfg st o false = .ok st1) (hgrow : st1.stack.length = st.stack.length + 1)
    (hbody : ∀ s ∈ body, neutral s.kind = true) (hne : body ≠ []) :
    ∃ reps, parseFile cfg (pre ++ o :: body) = .skipped .nested reps := by
  have hst : st.stack ≠ [] := (runMid_inv _ _ _ _ hpre).2.1 (by simp [initMS])
  obtain ⟨s1, r1⟩ := st1
  match s1, hgrow with
  | [], hg => simp at hg
  | [f], hg =>
    simp at hg
    exact absurd hg hst
  | f :: g :: rest, _ =>
    obtain ⟨f', reps', h2⟩ := run_neutral cfg hd body hbody f (g :: rest) r1
    refine ⟨reps', ?_⟩
    have hb : body.isEmpty = false := by cases body <;> simp_all
    simp only [parseFile, parseFrom, run_append_cons, hpre, run, hb, hopen, h2, finish]

/-- **Unbalanced END.**  An END (bare or of any unit kind) met at file level outside any
    BLOCK is reported and then rejects the file (the file object has no `_cleanup`),
    whatever follows it. -/
theorem stray_end_rejected (cfg : Cfg) (hd : cfg.dbg = true) (pre suf : List Stmt) (s : Stmt)
    (f : Frame) (reps : List Rep)
    (hpre : runMid cfg initMS pre = .ok { stack := [f], reps := reps })
    (hb : f.blocklevel = 0) (hend : isEndUnit s.kind = true) :
    parseFile cfg (pre ++ s :: suf) = .skipped .notImplemented (reps ++ [.endOutside]) := by
  have hk : (s.kind == .endBlock) = false ∧ (s.kind == .endAssociate) = false := by
    obtain ⟨k, n⟩ := s
    cases k <;> simp [isEndUnit] at hend <;> simp
  simp [parseFile, parseFrom, run_append_cons, hpre, run, step, select_endUnit f s hend,
        report_dbg _ hd, hk, hb, Gen.fileHasCleanup]

/-- **Undecodable bytes / reader errors** reject the file before any statement is parsed. -/
theorem undecodable_and_reader_errors_rejected (cfg : Cfg) :
    (srcOutcome cfg .undecodable).isSkipped = true ∧ (srcOutcome cfg .readerError).isSkipped = true := by
  simp [srcOutcome, Outcome.isSkipped]

/-- **Reader errors are contained.**  Whenever the reader model of C02 (`readAll`: illegal
    leading `&`, inline pre-doc, ...) raises on the lines of a file, the project is the
    one without that file - whatever the statements before the error were. -/
theorem reader_error_contained (cfg : Cfg) (hd : cfg.dbg = true) (k : Nat) (f : Str) (m : Marks)
    (classify : List Str → List Stmt) (lines : List Str) (e : RErr)
    (h : readAll m lines = .error e) (good : List (Str × Src)) :
    (loadProject cfg (insertFileAt k (f, srcOfLines m classify lines) good)).reg = (loadProject cfg good).reg :=
  project_contained cfg hd k f _ (by simp [srcOfLines, h, srcOutcome, Outcome.isSkipped]) good

/-! ## the reader at the end of the file (truncated sources) -/

/-- **The reader stops at the end of the file, in whatever state it is.**  When the physical
    lines run out - after a complete statement, in the middle of a continued statement,
    inside a `!>` / `!|` block whose statement never came, inside a `!*` block - nothing
    more is yielded and no further line is asked for: the iteration ends (what is
    buffered is dropped). -/
theorem reader_stops_at_eof (m : Marks) (s : RS) : readFrom m s [] = .ok [] := rfl

/-- **The real reader does so too** (table `Gen.eofProbes`, regenerated on every run by
    running `FortranReader` under a watchdog on files that end in each of its states):
    on every probe the reader model yields exactly what the code yielded - in particular the
    code came back (`hung` is not a value of the model) and did not raise. -/
theorem reader_eof_probes : ∀ p ∈ Gen.eofProbes, readerObs Marks.default p.1 = p.2 := by
  decide +kernel

/-- **Truncation at any line.**  Cutting a file after any physical line gives the reader a
    prefix of the logical lines of the whole file: a truncated source is, for the parser,
    a truncated statement sequence (never something new). -/
theorem reader_truncation_prefix (m : Marks) (pre suf : List Str) (all : List Str)
    (h : readAll m (pre ++ suf) = .ok all) :
    ∃ xs ys, readAll m pre = .ok xs ∧ all = xs ++ ys :=
  readFrom_prefix m {} pre suf all h

/-- **A source cut inside a unit is contained.**  Take the first `n` physical lines of any
    file, at any `n`: if the reader model delivers them and the statements run out while a
    container is open, the file is rejected and the project is the one without it -
    wherever the file is read. -/
theorem truncated_source_contained (cfg : Cfg) (hd : cfg.dbg = true) (k : Nat) (f : Str) (m : Marks)
    (classify : List Str → List Stmt) (lines : List Str) (n : Nat) (items : List Str) (st : MS)
    (hread : readAll m (lines.take n) = .ok items)
    (hrun : run cfg initMS (classify items) = .ok st) (hdepth : st.stack.length ≥ 2)
    (good : List (Str × Src)) :
    (loadProject cfg (insertFileAt k (f, srcOfLines m classify (lines.take n)) good)).reg
      = (loadProject cfg good).reg := by
  apply project_contained cfg hd
  simp [srcOfLines, hread, srcOutcome, truncated_rejected cfg _ st hrun hdepth, Outcome.isSkipped]

/-! ## nothing outside the project object is touched while a file is parsed -/

/-- **Parsing requests no identifier.**  No constructor asks the process-wide NameSelector
    for an identifier while a file is parsed (generated table `Gen.reservesAtParse`,
    probed on the code for every container kind in every parent; `otherReservations`
    counts requests for anything else): for every statement sequence, accepted or
    rejected, the parse leaves the name table alone. -/
theorem parse_reserves_nothing (cfg : Cfg) (ss : List Stmt) :
    reservedBy cfg ss = [] ∧ Gen.otherReservations = 0 :=
  ⟨reservedWith_nil _, rfl⟩

/-- **The name table is contained.**  Whatever the additional file is (undecodable, a
    reader error, any statement sequence - rejected or not) and wherever it is read, the
    state of the NameSelector when `Project(settings)` returns is the one without it. -/
theorem names_contained (cfg : Cfg) (hd : cfg.dbg = true) (k : Nat) (f : Str) (bad : Src)
    (good : List (Str × Src)) :
    projectNames cfg (insertFileAt k (f, bad) good) = projectNames cfg good := by
  unfold projectNames
  rw [hd]
  have hb : srcReserved cfg bad = [] := by
    cases bad <;> simp [srcReserved, (parse_reserves_nothing cfg _).1]
  have : (insertFileAt k (f, bad) good).map (fun f => (srcReserved cfg f.2, toLoad (srcOutcome cfg f.2)))
      = insertFileAt k (srcReserved cfg bad, toLoad (srcOutcome cfg bad))
          (good.map (fun f => (srcReserved cfg f.2, toLoad (srcOutcome cfg f.2)))) := by
    simp [insertFileAt, List.map_take, List.map_drop]
  rw [this]
  exact namesFrom_insert_nil k _ hb _

/-- **Identifiers are contained.**  Every entity of the other files gets the same
    identifier number (`name`, `name~2`, ...) with and without the additional file: the
    pages and links of the valid files do not move. -/
theorem idents_contained (cfg : Cfg) (hd : cfg.dbg = true) (k : Nat) (f : Str) (bad : Src)
    (good : List (Str × Src)) (key : NameKey) :
    nextNumber (projectNames cfg (insertFileAt k (f, bad) good)) key
      = nextNumber (projectNames cfg good) key := by
  rw [names_contained cfg hd]

/-- **Witness: what the empty table excludes.**  Were the identifier of a top-level module
    requested when its constructor starts (table `[(file, module, "module")]`), a file cut
    inside that module would be rejected *and* leave its request behind, and an equally
    named module of a valid file read later would become `m~2`. -/
theorem reservation_would_leak_witness :
    parseFile {} [⟨.module, ['M']⟩, ⟨.variable, ['x']⟩, ⟨.contains, []⟩]
        = .skipped .nested []
    ∧ reservedWith [(.file, .module, ['m', 'o', 'd', 'u', 'l', 'e'])]
        (opened {} [⟨.module, ['M']⟩, ⟨.variable, ['x']⟩, ⟨.contains, []⟩])
        = [(['m', 'o', 'd', 'u', 'l', 'e'], ['m'])]
    ∧ nextNumber [(['m', 'o', 'd', 'u', 'l', 'e'], ['m'])] (['m', 'o', 'd', 'u', 'l', 'e'], ['m']) = 2 := by
  decide

/-! ## never hangs -/

/-- The parser's recursion depth (number of open containers) never exceeds the number
    of statements read plus one, and the file frame is never popped: the recursive
    descent cannot run away, and the loop is a fold that reads each statement once. -/
theorem recursion_depth_bounded (cfg : Cfg) (ss : List Stmt) (st : MS) (h : run cfg initMS ss = .ok st) :
    1 ≤ st.stack.length ∧ st.stack.length ≤ ss.length + 1 := by
  have i := run_inv _ _ _ _ h
  refine ⟨?_, by have := i.1; simp [initMS] at this; omega⟩
  have := i.2.1 (by simp [initMS])
  cases hs : st.stack with
  | nil => exact absurd hs this
  | cons a b => simp


/-! ## never hangs, II: the regular expressions applied to every statement -/

/-- **The matcher and its ways.**  The backtracking matcher of the model (`Rx.matchK`: try the
    ways of the expression one after the other, hand the rest to the continuation, stop at
    the first success - this is what the driver runs against `re` in the correspondence)
    succeeds exactly when the continuation accepts one of `Rx.paths`; when the continuation
    rejects them all, it has been called on every one of them: `(paths r s).length` is what a
    failure costs. -/
theorem matcher_walks_paths (n0 : Nat) (r : Rx) (s : Str) (k : Str → Bool) :
    Rx.matchK n0 r s k = (Rx.paths n0 r s).any k :=
  Rx.matchK_eq_any n0 r s k

/-- **One way only.**  An expression of the `functional` class (fixed sequences of character
    sets, alternatives that start with different characters, a run of one character set
    closed by something that starts outside the set) has at most one way to match, at any
    position of any subject. -/
theorem functional_body_single_way (n0 : Nat) (a : Rx) (h : Rx.functional a = true) (s : Str) :
    (Rx.paths n0 a s).length ≤ 1 :=
  Rx.functional_le_one n0 a h s

/-- **A loop over such a body is linear.**  Whatever the bounds of the repetition, the
    number of ways the loop can match at a position - what a backtracking matcher walks
    through when the rest of the pattern fails - is at most the number of characters left
    plus one: no subject, however long or corrupt, makes it blow up. -/
theorem functional_loop_linear (n0 : Nat) (a : Rx) (h : Rx.functional a = true) (lo : Nat) (hi : Option Nat)
    (s : Str) : (Rx.paths n0 (.rep lo hi a) s).length ≤ s.length + 1 := by
  simp only [Rx.paths]
  exact Rx.iter_linear _ (Rx.functional_le_one n0 a h) lo hi _ _ _

/-- **The patterns FORD applies while it reads and parses a file** (generated table
    `Gen.patterns`: every compiled pattern of ford/reader.py, ford/sourceform.py, ford/utils.py,
    ford/fortran_project.py, the ones built at run time and the inline ones, as `re` parses
    them): in every pattern outside the listed finding, every loop that can be entered again
    after a failure has a `functional` body.  Partial: `knownBacktracking` (the component
    chain of `CALL_RE`, finding C20-call-chain-backtracking) is excluded. -/
theorem statement_patterns_loops_functional_partial :
    ∀ p ∈ Gen.patterns, p.1 ∉ knownBacktracking → Rx.badLoops p.2 = [] := by
  decide +kernel

/-- ... hence, for every such pattern, every loop that can be re-entered after a failure
    has at most `|s| + 1` ways to match, at every position of every statement `s`:
    none of them can make FORD hang on any input. -/
theorem statement_patterns_loops_linear_partial (p : Str × Rx) (hp : p ∈ Gen.patterns)
    (hk : p.1 ∉ knownBacktracking) (a : Rx) (ha : a ∈ Rx.loopsCF p.2 true) (lo : Nat) (hi : Option Nat)
    (n0 : Nat) (s : Str) : (Rx.paths n0 (.rep lo hi a) s).length ≤ s.length + 1 := by
  apply functional_loop_linear
  have hb := statement_patterns_loops_functional_partial p hp hk
  simp only [Rx.badLoops, List.filter_eq_nil_iff] at hb
  simpa using hb a ha

/-- **Witness (finding C20-call-chain-backtracking).**  The loop
    `(?:\s*\w+\s*(?:\(\))?\s*%\s*)+` of `CALL_RE` as it is: the blanks around a `%` can be
    given to either of two `\s*`, so `a % ` has 4 ways, `a % a % ` 20, `a % a % a % ` 84 ...:
    a chain of component accesses that is not followed by `name(` costs a number of steps
    that is exponential in the length of the chain. -/
theorem call_chain_backtracking_witness :
    let sp := Rx.cls 0x100003e00
    let w := Rx.cls 0x7fffffe87fffffe03ff000000000000
    let body := seqs [.rep 0 none sp, .rep 1 none w, .rep 0 none sp,
                      .rep 0 (some 1) (seqs [.cls 0x10000000000, .cls 0x20000000000]),
                      .rep 0 none sp, .cls 0x2000000000, .rep 0 none sp]
    Rx.functional body = false
    ∧ Rx.ways (.rep 1 none body) ['a', ' ', '%', ' '] = 4
    ∧ Rx.ways (.rep 1 none body) ['a', ' ', '%', ' ', 'a', ' ', '%', ' '] = 20
    ∧ Rx.ways (.rep 1 none body) ['a', ' ', '%', ' ', 'a', ' ', '%', ' ', 'a', ' ', '%', ' '] = 84 := by
  decide +kernel

/-- **Witness: what the table theorem excludes.**  A list loop `(?:\w+,?\s*)+` (names, the
    comma optional) is harmless at the very end of a pattern - nothing after it can fail, so
    it is never re-entered (`badLoops` is empty) - but once anything that can fail follows it
    (here `$`), the loop is re-entered and the number of ways doubles with every character of a
    name: 1, 3, 7, ... 2^n - 1. -/
theorem ambiguous_list_loop_witness :
    let w := Rx.cls 0x7fffffe87fffffe03ff000000000000
    let loop := Rx.rep 1 none (seqs [.rep 1 none w, .rep 0 (some 1) (.cls 0x100000000000), .rep 0 none (.cls 0x100003e00)])
    Rx.badLoops loop = [] ∧ Rx.badLoops (.seq loop .eos) ≠ []
    ∧ Rx.ways loop ['a', '='] = 1 ∧ Rx.ways loop ['a', 'a', '='] = 3
    ∧ Rx.ways loop ['a', 'a', 'a', '='] = 7 ∧ Rx.ways loop ['a', 'a', 'a', 'a', 'a', 'a', 'a', 'a', '='] = 255 := by
  decide +kernel

/-! ## reported ≠ skipped: the defect and what holds around it -/

/-- **Witness (finding C20-reported-not-skipped).**  With the default settings a
    misplaced CONTAINS is reported and the file is nevertheless registered - alone
    and in a project, where its (partial) content reaches the project lists. -/
theorem reported_not_skipped_witness :
    parseFile {} [⟨.contains, []⟩] = .registered [] [.unexpectedContains]
    ∧ parseFile {} [⟨.module, "m".toList⟩, ⟨.contains, []⟩, ⟨.contains, []⟩, ⟨.endUnit, []⟩]
        = .registered ["modules:m".toList] [.multipleContains]
    ∧ (loadProject {} [("bad.f90".toList, .stmts [⟨.module, "m".toList⟩, ⟨.contains, []⟩, ⟨.contains, []⟩, ⟨.endUnit, []⟩])]).reg.modules
        = ["m".toList] := by decide

/-- **Witness (finding C20-malformed-not-detected).**  Statements matching no pattern
    are ignored and an END is never compared with its opener: arbitrary text, and a
    MODULE closed by END SUBROUTINE, are registered without any report. -/
theorem junk_not_detected_witness :
    parseFile {} [⟨.other, []⟩, ⟨.other, []⟩] = .registered [] []
    ∧ parseFile {} [⟨.module, "m".toList⟩, ⟨.endUnitSub, "s".toList⟩] = .registered ["modules:m".toList] [] := by
  decide

/-- **Partial (strict settings).**  With `dbg = false` nothing is ever reported-and-kept:
    a file that is registered had no report at all (print_error raised or, with `force`,
    was silent). -/
theorem registered_clean_partial (cfg : Cfg) (hd : cfg.dbg = false) (ss : List Stmt)
    (paths : List Str) (reps : List Rep) (h : parseFile cfg ss = .registered paths reps) : reps = [] := by
  simp only [parseFile, parseFrom] at h
  split at h
  · cases h
  · rename_i st' hrun
    have hr : st'.reps = [] := by simpa [initMS] using (run_inv _ _ _ _ hrun).2.2.2 hd
    unfold finish at h
    split at h
    · split at h
      · cases h
      · cases h; exact hr
    · cases h

/-- **Repaired variant.**  If the file's constructor rejects the file whenever something
    was reported (`skipReported`, the candidate repair), "reported" implies "skipped" for
    every statement sequence: a registered file has an empty report list. -/
theorem repaired_reported_implies_skipped (cfg : Cfg) (hr : cfg.skipReported = true) (ss : List Stmt)
    (paths : List Str) (reps : List Rep) (h : parseFile cfg ss = .registered paths reps) : reps = [] := by
  simp only [parseFile, parseFrom] at h
  split at h
  · cases h
  · unfold finish at h
    split at h
    · split at h
      · cases h
      · rename_i hc
        cases h
        simpa [hr] using hc
    · cases h

/-- Reports are only ever appended: what was diagnosed stays diagnosed, whichever way
    the file ends. -/
theorem reports_only_grow (cfg : Cfg) (st : MS) (more : List Stmt) (st2 : MS)
    (h : run cfg st more = .ok st2) : ∃ extra, st2.reps = st.reps ++ extra :=
  (run_inv _ _ _ _ h).2.2.1

/-! ## the diagnostic: what reaches the terminal when a file is rejected -/

/-- **Escaped text is inert** (`rich.markup.escape` followed by `rich.markup.render`, as they are):
    whatever the text contains - brackets, closing-tag look-alikes such as `[/ 1.0 /]`, backslashes -
    nothing of it is interpreted as a tag, rendering does not raise, and what is shown is the text
    itself (a single trailing backslash comes out doubled).  Partial: a backslash directly in front
    of a `[` that opens no tag (`lostBackslash`; `render` drops it), and - when emoji codes are
    replaced - a `:...:` without blanks (`emojiCandidate`), are excluded. -/
theorem escaped_text_shown_verbatim_partial (cfg : Markup.Cfg) (msg : Str)
    (hl : Markup.lostBackslash msg = false) (he : cfg.emoji = false ∨ Markup.emojiCandidate msg = false) :
    ∃ t, (t = [] ∨ t = ['\\']) ∧ Markup.render cfg (Markup.escape msg) = .shown (msg ++ t) :=
  Markup.render_escape cfg msg hl he

/-- **`warn` hands its message over inertly** (generated table `Gen.warnSpec`, ford/console.py):
    either as `escape(msg)` at the end of one markup string whose literal part consists of complete
    tags, or as a `Text` after a markup literal. -/
theorem warn_message_is_inert : (Markup.inertShape Gen.emojiSample Gen.warnSpec).isSome = true := by
  decide +kernel

/-- **What a warning shows.**  For every message (outside the two excluded classes when the
    message is escaped rather than passed as `Text`), `warn(msg)` puts the literal prefix and then
    the message itself on the terminal: nothing in the message can make it raise or vanish. -/
theorem warn_shows_message_partial (i : Markup.Inert) (msg : Str)
    (hi : Markup.inertShape Gen.emojiSample Gen.warnSpec = some i)
    (hs : Markup.safeMsg Gen.warnSpec i msg = true) :
    ∃ t, (t = [] ∨ t = ['\\']) ∧
      Markup.warnShown Gen.emojiSample Gen.warnSpec msg = .shown (i.pre ++ msg ++ t) :=
  Markup.warn_inert _ _ i msg hi hs

/-- **The per-file handler** of `Project.__init__` (generated table `Gen.handlerSteps`, since round 5
    *observed*: the loop is run with a constructor that raises - every built-in exception class,
    every shape of `args`, with and without `dbg` - and all probes agree): without `dbg` the
    exception leaves the loop and nothing is printed; with `dbg` there is exactly one call of `warn`
    before the next file, and the next file is read and registered - nothing else (this is what
    `loadFrom` models).  (`continue_` is now the observed fact that the loop goes on, so it may no
    longer be absent.) -/
theorem handler_warns_and_continues :
    Gen.handlerSteps = [.reraiseUnlessDbg, .warn, .continue_] := by
  decide

/-- **A rejected file is named in the diagnostic.**  The message of the handler (generated table
    `Gen.rejectionRules`: a decision list over the text of the exception, observed by running the
    per-file loop with a constructor that raises) contains the path of the file of *this*
    iteration whichever rule applies, and `warn` shows it: for every path and every exception text
    - also one that already names a file, as the reader's `In file ...` errors do, possibly an
    INCLUDEd file - the path of the rejected file appears on the terminal, character by character. -/
theorem rejected_file_named_on_terminal_partial (i : Markup.Inert) (path err : Str)
    (hi : Markup.inertShape Gen.emojiSample Gen.warnSpec = some i)
    (hs : Markup.safeMsg Gen.warnSpec i (Markup.rejectionText Gen.rejectionRules path err) = true) :
    ∃ a b, Markup.warnShown Gen.emojiSample Gen.warnSpec (Markup.rejectionText Gen.rejectionRules path err)
      = .shown (a ++ path ++ b) := by
  obtain ⟨t, _, e⟩ := warn_shows_message_partial i _ hi hs
  obtain ⟨a, b, e2⟩ := Markup.rejectionText_names Gen.rejectionRules path err (by decide)
  exact ⟨i.pre ++ a, b ++ t, by rw [e, e2]; simp⟩

/-- **The handler's message does not depend on what the exception says** about files: every rule of
    `Gen.rejectionRules` contains the path piece and the last resort is unconditional (this is the
    table fact the theorem above rests on; it is false as soon as one class of exception texts is
    passed on without the path). -/
theorem every_rejection_rule_names_the_file : Markup.rulesNameFile Gen.rejectionRules = true := by
  decide

open Ford.TypeSpec in
/-- **Witness: why every rule has to name the file.**  A handler that passes on a text starting with
    `In file ` as it is ("the reader has said it already"): for an error in an INCLUDEd file the
    reader names *that* file - the rejected source file `src/solver.f90` is then nowhere in the
    message, although the default rule would have named it. -/
theorem verbatim_reader_message_witness :
    let rules : List (Markup.ErrGuard × List Markup.MsgPiece) :=
      [(.errPrefix (chars! "In file "), [.err]),
       (.any, [.lit (chars! "Error parsing "), .path, .lit (chars! ". "), .err])]
    let err := chars! "In file /p/src/limits.inc 1| integer :: n !| doc"
    Markup.rulesNameFile rules = false
    ∧ Markup.rejectionText rules (chars! "src/solver.f90") err = err
    ∧ Markup.occursIn (chars! "solver") (Markup.rejectionText rules (chars! "src/solver.f90") err) = false
    ∧ Markup.occursIn (chars! "src/solver.f90")
        (Markup.rejectionText rules (chars! "src/solver.f90") (chars! "File ended while still nested.")) = true := by
  decide +kernel

/-- **The real `warn` does so too** (table `Gen.warnProbes`, regenerated on every run by calling
    `ford.console.warn` on messages with brackets, closing-tag look-alikes, backslashes and emoji
    codes): on every probe the model shows what the terminal showed. -/
theorem warn_probes : ∀ p ∈ Gen.warnProbes, Markup.warnObs Gen.emojiSample Gen.warnSpec p.1 = p.2 := by
  decide +kernel

/-- **The progress bar survives the file names** it is given (`Gen.progressSpec`, ford/utils.py):
    showing the current file cannot raise when the column is not rendered as markup, or when the
    path contains nothing that looks like a tag.  Partial: with the column as it is (markup, not
    escaped) a path with a tag look-alike is excluded - finding C20-progress-markup-abort. -/
theorem progress_display_survives_partial (path : Str)
    (h : Gen.progressSpec.markup = false ∨ (Gen.progressSpec.escaped = false ∧ Markup.hasTag path = false)) :
    Markup.progressObs Gen.emojiSample Gen.progressSpec path ≠ .raised :=
  Markup.progress_survives _ _ path h

/-- ... and the real progress bar agrees with the model on the probes (`Gen.progressProbes`). -/
theorem progress_probes :
    ∀ p ∈ Gen.progressProbes,
      (Markup.progressObs Gen.emojiSample Gen.progressSpec p.1 == .raised) = p.2 := by
  decide +kernel

open Ford.TypeSpec in
/-- **Witness: what `escape` is there for.**  Were the message handed to `console.print` as it is
    (every `str` argument is markup), the offending line `& = [/ 1.0 /]` of a reader error would
    raise `MarkupError` inside the handler - the whole run aborts - and the `[old]` of
    `solver[old].f90` would vanish from the diagnostic. -/
theorem unescaped_message_witness :
    let raw : Markup.WarnSpec := { args := [.markup [.lit (chars! "[bold red]Warning:[/]")], .markup [.msg]] }
    Markup.warnShown [] raw (chars! "Error parsing m.f90. '&': & = [/ 1.0 /]") = .raised
    ∧ Markup.warnShown [] raw (chars! "Error parsing solver[old].f90.")
        = .shown (chars! "Warning: Error parsing solver.f90.") := by
  decide +kernel

open Ford.TypeSpec in
/-- **Witness (finding C20-progress-markup-abort).**  The column of the progress bar as it is -
    markup, the path not escaped: a file called `z[/b].f90` makes rendering raise. -/
theorem progress_markup_abort_witness :
    Markup.progressObs [] { markup := true, escaped := false } (chars! "src/z[/b].f90") = .raised
    ∧ Markup.progressObs [] { markup := false } (chars! "src/z[/b].f90") = .shown (chars! "src/z[/b].f90") := by
  decide +kernel

open Ford.TypeSpec in
/-- **Witness (finding C20-diagnostic-rewrites-name): what the two exclusions are.**  Escaped and
    rendered, `a\[1].f90` comes out as `a[1].f90` and `z:x:.f90` with the emoji for `x`. -/
theorem escape_quirks_witness :
    Markup.render {} (Markup.escape (chars! "a\\[1].f90")) = .shown (chars! "a[1].f90")
    ∧ Markup.render { tbl := [(['x'], some ['X'])] } (Markup.escape (chars! "z:x:.f90")) = .shown (chars! "zX.f90")
    ∧ Markup.lostBackslash (chars! "a\\[1].f90") = true ∧ Markup.emojiCandidate (chars! "z:x:.f90") = true := by
  decide +kernel

/-! ## round 6 - defects that are found when a block is closed (enumerator values), and what a rejected
   file leaves behind in the process (models FordModel/EnumValues.lean; tables `Gen.enumProbes`,
   `Gen.enumLateRaise`, `Gen.leftBehind`, observed on the code by translate/c20late.py) -/

/-- **Reported and skipped - enumerators.**  An ENUM block with an enumerator whose given value is not an
    integer literal for `int` (after `remove_kind_suffix`) makes `_cleanup` raise - wherever in the block it
    stands, whatever the other enumerators are. -/
theorem non_integer_enumerator_raises (es : List EnumValues.Enumerator)
    (h : es.any EnumValues.badEnumerator = true) : EnumValues.enumOk es = false :=
  EnumValues.enumOk_false_of_bad es h

/-- **Nothing is left for a later stage.**  When `_cleanup` comes through, every enumerator has its integer
    value (one per enumerator) and none of them is a bad one: there is no enumerator whose value still has to
    be worked out - and could fail - after the file was registered, outside the per-file handler. -/
theorem enumerator_values_complete (es : List EnumValues.Enumerator) (vs : List Int)
    (h : EnumValues.enumCleanup es = .ok vs) :
    vs.length = es.length ∧ ∀ e ∈ es, EnumValues.badEnumerator e = false :=
  EnumValues.cleanupFrom_ok es (-1) vs h

/-- **Contained.**  A file with such an ENUM block - whatever its statements are otherwise, whatever other
    ENUM blocks it has - read at *any* position leaves all project lists as if it were absent. -/
theorem non_integer_enumerator_contained (k : Nat) (f : Str) (o : Outcome)
    (enums : List (List EnumValues.Enumerator)) (good : List (Str × Except Err FileTree))
    (h : enums.any (fun es => es.any EnumValues.badEnumerator) = true) :
    (loadAll true (insertFileAt k (f, toLoad (EnumValues.fileWithEnums o enums)) good)).reg = (loadAll true good).reg := by
  obtain ⟨e, r, he⟩ := EnumValues.fileWithEnums_skipped o enums h
  rw [he]
  exact contained k f e good

/-- A registered file has come through the `_cleanup` of every one of its ENUM blocks. -/
theorem registered_file_has_all_enumerator_values (o : Outcome) (enums : List (List EnumValues.Enumerator))
    (p : List Str) (r : List Rep) (h : EnumValues.fileWithEnums o enums = .registered p r) :
    ∀ es ∈ enums, ∃ vs, EnumValues.enumCleanup es = .ok vs ∧ vs.length = es.length := by
  intro es hes
  cases o with
  | skipped e r' => simp [EnumValues.fileWithEnums] at h
  | registered p' r' =>
    have hall : enums.all EnumValues.enumOk = true := by
      cases hq : enums.all EnumValues.enumOk with
      | true => rfl
      | false => simp [EnumValues.fileWithEnums, hq] at h
    have hok := (List.all_eq_true.mp hall) es hes
    unfold EnumValues.enumOk at hok
    cases hc : EnumValues.enumCleanup es with
    | error n => simp [hc] at hok
    | ok vs => exact ⟨vs, rfl, (EnumValues.cleanupFrom_ok es (-1) vs hc).1⟩

/-- Over the generated `enumProbes`: on every probe the model = what the real `FortranEnum._cleanup` did
    inside the file's constructor (raised, or the values it gave the enumerators without `= value`). -/
theorem enum_probes : Gen.enumProbes.all (fun p => decide (EnumValues.probeObs p.1 = p.2)) = true := by
  decide +kernel

/-- Over the generated `enumLateRaise`: no probe got through the constructor and made `Project.correlate()`
    raise afterwards - a defect of an enumerator comes to light inside the per-file handler or never. -/
theorem enum_errors_surface_inside_the_handler : Gen.enumLateRaise = [] := by decide

/-- Over the generated `leftBehind`: no class- or module-level object of the reading / parsing modules has
    another value after `Project()` over valid + rejected files (rejected in the constructor, in the reader,
    inside an INCLUDE: reader error, recursion, missing, undecodable) than after the valid files alone. -/
theorem rejected_files_leave_no_process_state : Gen.leftBehind = [] := by decide

open Ford.TypeSpec in
/-- `remove_kind_suffix` + `int` as they are: `2_int8` is 2, `10_8` is read as 108, `3_c_int` (a legal kind)
    and a named constant are rejected; a bad enumerator in the middle rejects the block. -/
theorem enumerator_value_quirks_witness :
    EnumValues.valuesOf [⟨['a'], some (chars! "2_int8")⟩, ⟨['b'], none⟩] = some [2, 3]
    ∧ EnumValues.valuesOf [⟨['a'], some (chars! "10_8")⟩, ⟨['b'], none⟩] = some [108, 109]
    ∧ EnumValues.raisedFor [⟨['a'], some (chars! "3_c_int")⟩] = some ['a']
    ∧ EnumValues.raisedFor [⟨['a'], some (chars! "1")⟩, ⟨['b'], some (chars! "offset")⟩, ⟨['c'], none⟩] = some ['b'] := by
  decide +kernel

/-! ## round 6 - INCLUDE: nested readers over a directory tree (model FordModel/IncludeNest.lean) -/

/-- **A failure inside an INCLUDE is a failure of the file that is being parsed.**  The first INCLUDE line of
    a file (nothing but ordinary statements before it) names a file on which the nested reader raises - a
    missing file further down, undecodable bytes, a line the reader refuses, the recursion limit -: the reader
    of the including file ends with that very exception, whatever follows the line, at any nesting depth. -/
theorem include_failure_rejects_the_including_file (fs : IncludeNest.Fs) (dirs : List IncludeNest.Path) (d : Nat)
    (top p : IncludeNest.Path) (pre : List Str) (s : Str) (post : List Str) (e : IncludeNest.IncErr)
    (hbody : fs.get top = some (.items (pre ++ s :: post)))
    (hpre : IncludeNest.noInclude pre = true) (hs : IncludeNest.isIncludeLine s = true)
    (hres : IncludeNest.resolve fs (IncludeNest.includeName s) (IncludeNest.dirOf top :: dirs) = some p)
    (herr : IncludeNest.readFile fs dirs d p = .error e) :
    IncludeNest.readFile fs dirs (d + 1) top = .error e :=
  IncludeNest.readFile_nested_error fs dirs d top p pre s post e hbody hpre hs hres herr

/-- **Never hangs - a file that includes itself.**  Whatever the recursion limit `d` is, reading a file whose first
    INCLUDE line resolves to the file itself ends, with `RecursionError` (an `Exception`: the per-file handler
    sees it); `readFile` is total by structural recursion on `d`. -/
theorem self_include_ends_in_recursion_error (fs : IncludeNest.Fs) (dirs : List IncludeNest.Path)
    (top : IncludeNest.Path) (pre : List Str) (s : Str) (post : List Str)
    (hbody : fs.get top = some (.items (pre ++ s :: post)))
    (hpre : IncludeNest.noInclude pre = true) (hs : IncludeNest.isIncludeLine s = true)
    (hres : IncludeNest.resolve fs (IncludeNest.includeName s) (IncludeNest.dirOf top :: dirs) = some top) (d : Nat) :
    IncludeNest.readFile fs dirs d top = .error .recursion :=
  IncludeNest.readFile_self_include fs dirs top pre s post hbody hpre hs hres d

/-- **Contained.**  A source file whose reader - nested readers included - raises is rejected, and read at any
    position it leaves the project as if it were absent. -/
theorem include_failure_contained (cfg : Cfg) (hd : cfg.dbg = true) (k : Nat) (f : Str)
    (classify : List Str → List Stmt) (fs : IncludeNest.Fs) (dirs : List IncludeNest.Path) (d : Nat)
    (top : IncludeNest.Path) (e : IncludeNest.IncErr) (herr : IncludeNest.readFile fs dirs d top = .error e)
    (good : List (Str × Src)) :
    (loadProject cfg (insertFileAt k (f, IncludeNest.srcOfRead classify (IncludeNest.readFile fs dirs d top)) good)).reg
      = (loadProject cfg good).reg := by
  apply project_contained cfg hd
  rw [herr]
  cases e <;> simp [IncludeNest.srcOfRead, srcOutcome, Outcome.isSkipped]

/-- **The other files are read as before.**  A file without INCLUDE lines is delivered item by item as its own
    reader made it, whatever else is on disk and whatever `inc_dirs` says. -/
theorem file_without_include_unchanged (fs : IncludeNest.Fs) (dirs : List IncludeNest.Path) (d : Nat)
    (top : IncludeNest.Path) (its : List Str) (hbody : fs.get top = some (.items its))
    (h : IncludeNest.noInclude its = true) : IncludeNest.readFile fs dirs (d + 1) top = .ok its := by
  simp [IncludeNest.readFile, hbody, IncludeNest.expandWith_noInclude fs dirs _ top its h]

/-- The directory of the file that holds the INCLUDE line is searched first, before every entry of `inc_dirs`. -/
theorem include_searched_beside_the_includer_first (fs : IncludeNest.Fs) (name : Str) (here : IncludeNest.Path)
    (dirs : List IncludeNest.Path) (h : (fs.get (IncludeNest.joinPath (IncludeNest.dirOf here) name)).isSome = true) :
    IncludeNest.resolve fs name (IncludeNest.dirOf here :: dirs) = some (IncludeNest.joinPath (IncludeNest.dirOf here) name) :=
  IncludeNest.resolve_first fs name _ dirs h

open Ford.TypeSpec in
/-- The exception of a nested reader names the *include* file (`/r/inc/limits.inc`), not the source file that is
    rejected (`/r/solver.f90`) - why the handler's message has to carry the path itself (round 5); a `.h` file
    that is not found is no error; the same name beside the includer wins over `inc_dirs`. -/
theorem include_error_names_the_include_file_witness :
    IncludeNest.errOf (IncludeNest.readFile
        [([chars! "r", chars! "solver.f90"], .items [chars! "module m", chars! "include 'inc/limits.inc'", chars! "end module m"]),
         ([chars! "r", chars! "inc", chars! "limits.inc"], .refusedAfter [chars! "integer :: n"])]
        [] 8 [chars! "r", chars! "solver.f90"]) = some (.refused [chars! "r", chars! "inc", chars! "limits.inc"])
    ∧ IncludeNest.itemsOf (IncludeNest.readFile
        [([chars! "r", chars! "a.f90"], .items [chars! "INCLUDE \"conf.h\"", chars! "x = 1"])] [] 8 [chars! "r", chars! "a.f90"])
        = some [chars! "INCLUDE \"conf.h\"", chars! "x = 1"]
    ∧ IncludeNest.itemsOf (IncludeNest.readFile
        [([chars! "r", chars! "sub", chars! "a.f90"], .items [chars! "include'c.inc'"]),
         ([chars! "r", chars! "inc", chars! "c.inc"], .items [chars! "y = 2"]),
         ([chars! "r", chars! "sub", chars! "c.inc"], .items [chars! "y = 1"])]
        [[chars! "r", chars! "inc"]] 8 [chars! "r", chars! "sub", chars! "a.f90"]) = some [chars! "y = 1"] := by
  decide +kernel

/-! non-vacuity -/
example : (match step {} initMS ⟨.module, "m".toList⟩ false with
           | .ok st1 => st1.stack.length | .error _ => 0) = initMS.stack.length + 1 := by decide
example : parseFile {} [⟨.module, "m".toList⟩, ⟨.contains, []⟩, ⟨.subroutine, "s".toList⟩, ⟨.use, "x".toList⟩]
    = .skipped .nested [] := by decide
example : parseFile {} [⟨.module, "m".toList⟩, ⟨.endUnit, []⟩, ⟨.endUnit, []⟩]
    = .skipped .notImplemented [.endOutside] := by decide
example : (match readAll Marks.default ["module m".toList, "& x = 1".toList] with
           | .error e => decide (e = .ampStart) | .ok _ => false) = true := by decide
example : Gen.eofProbes.length ≥ 12 ∧ (Gen.eofProbes.any (fun p => p.2 != .items [] && p.1.length ≥ 2)) = true := by decide
example : readerObs Marks.default [['m'], ['!', '>', ' ', 'd']] = .items [['m']] := by decide
example : (opened {} [⟨.module, ['m']⟩, ⟨.contains, []⟩, ⟨.subroutine, ['s']⟩, ⟨.use, ['x']⟩])
    = [(.file, .module, ['m']), (.module, .subroutine, ['s'])] := by decide
example : Gen.patterns.length ≥ 50 ∧ (Gen.patterns.map (fun p => (Rx.loopsCF p.2 true).length)).sum ≥ 150 := by decide +kernel
example : Gen.patterns.any (fun p => (Rx.loopsCF p.2 true).any (fun a => match a with | .cls _ => false | _ => true)) = true := by
  decide +kernel
open Ford.TypeSpec in
example : ∃ i, Markup.inertShape Gen.emojiSample Gen.warnSpec = some i
    ∧ Markup.safeMsg Gen.warnSpec i (Markup.rejectionText Gen.rejectionRules (chars! "src/solver[old].f90") (chars! "& = [/ 1.0 /]")) = true := by
  decide +kernel
example : Gen.warnProbes.length ≥ 10 ∧ Gen.progressProbes.length ≥ 6
    ∧ (Gen.warnProbes.any (fun p => p.1.any (· == '[') && p.1.any (· == '/'))) = true := by decide +kernel
example : parseFile { dbg := false } [⟨.contains, []⟩] = .skipped .printError [] := by decide
example : parseFile { skipReported := true } [⟨.contains, []⟩] = .skipped .reported [.unexpectedContains] := by decide
example : Gen.enumProbes.length ≥ 20 ∧ (Gen.enumProbes.any (fun p => p.2.isNone)) = true
    ∧ (Gen.enumProbes.any (fun p => p.2.isSome)) = true := by decide +kernel
open Ford.TypeSpec in
example : EnumValues.fileWithEnums (parseFile {} [⟨.module, ['m']⟩, ⟨.enum, []⟩, ⟨.variable, ['a']⟩, ⟨.endUnit, []⟩, ⟨.endUnit, []⟩])
    [[⟨['a'], some (chars! "1.5")⟩]] = .skipped .enumValue [] := by decide +kernel
open Ford.TypeSpec in
example : IncludeNest.errOf (IncludeNest.readFile
    [([chars! "r", chars! "a.f90"], .items [chars! "x = 0", chars! "include 'a.f90'"])] [] 40 [chars! "r", chars! "a.f90"])
    = some .recursion := by decide +kernel
open Ford.TypeSpec in
example : IncludeNest.isIncludeLine (chars! "Include  'x.inc'") = true ∧ IncludeNest.isIncludeLine (chars! "include_me = 1") = false
    ∧ IncludeNest.includeName (chars! "include 'inc/x.inc'") = chars! "inc/x.inc"
    ∧ IncludeNest.joinPath [chars! "r", chars! "inc"] (chars! "../up/./x.inc") = [chars! "r", chars! "up", chars! "x.inc"] := by decide +kernel

end Ford.C20
