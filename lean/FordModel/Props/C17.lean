/-
  C17 - static pages mirror the page directory, in the documented order.
  Property theorems only; the model is FordModel/PageTree.lean (tied to the source by the
  generated constants of Generated/C17.lean and by differential execution in harness/c17.py),
  the specification vocabulary is FordModel/PageTreeSpec.lean, helper lemmas are in
  FordModel/Lemmas/PageTree.lean and FordModel/Lemmas/PageTreeNodup.lean.
  Round 5: the text level of the aliases (FordModel/PageAlias.lean, Lemmas/PageAlias.lean), the containment
  guard of the walk (Lemmas/PageGuard.lean) and the two probe tables (Generated/C17.lean, Generated/C17Probe.lean).
-/
import FordModel.PageTree
import FordModel.PageTreeSpec
import FordModel.Lemmas.PageTree
import FordModel.Lemmas.PageTreeNodup
import FordModel.PageAlias
import FordModel.Lemmas.PageAlias
import FordModel.Lemmas.PageGuard
import FordModel.Lemmas.PageCopy
import FordModel.Generated.C17Probe
namespace Ford.C17
open Ford Ford.PT Ford.Gen.C17

/-! ### order -/

/-- "alphabetically": the listing that `get_page_tree` walks is a permutation of the directory's
    names that is ascending in code-point order (Python's `sorted()` on `str`), for every directory. -/
theorem listing_sorted (nms : List Str) : Sorted (sortNames nms) ∧ (sortNames nms).Perm nms :=
  ⟨sortNames_sorted nms, sortNames_perm nms⟩

/-- ... and that order is a genuine total order on names (so "the" alphabetical order is unique):
    reflexive, total, transitive, antisymmetric. -/
theorem listing_order_total (a b c : Str) :
    strLe a a = true ∧ (strLe a b = true ∨ strLe b a = true) ∧
    (strLe a b = true → strLe b c = true → strLe a c = true) ∧
    (strLe a b = true → strLe b a = true → a = b) :=
  ⟨strLe_refl a, strLe_total a b, strLe_trans a b c, strLe_antisymm a b⟩

/-- "pages are ordered by `ordered_subpage` first and alphabetically after": for every directory
    (distinct entry names) and every `ordered_subpage` list - valid, partial, with repetitions, naming
    index.md or missing entries - the sequence of names the loop visits is the requested names
    (first occurrences, index.md dropped) followed by the sorted listing without index.md and
    without the requested names. -/
theorem order_documented (ordered nms : List Str) (hn : nms.Nodup) :
    mergedList ordered nms =
      dedup (ordered.filter (fun x => x != indexName)) ++
        ((sortNames nms).erase indexName).filter
          (fun y => !(ordered.filter (fun x => x != indexName)).contains y) :=
  mergedList_eq ordered nms hn

/-- merging loses no sibling and visits none twice: a name is visited iff it is requested or present
    (and is not index.md), exactly once. -/
theorem order_complete (ordered nms : List Str) (hn : nms.Nodup) :
    (∀ x, x ∈ mergedList ordered nms ↔ x ≠ indexName ∧ (x ∈ ordered ∨ x ∈ nms)) ∧
    (mergedList ordered nms).Nodup :=
  ⟨fun x => mem_mergedList x ordered nms hn, mergedList_nodup ordered nms hn⟩

/-- the navigation order of a node is the documented order: the sub-pages (and recorded files) of the
    top page are, in that order, what the visited names contribute one by one; the contribution of a
    name depends on that entry alone (`pageAt`), never on its neighbours in the list.  When some
    name raises, the result is the first such error. -/
theorem nav_order (v : Variant) (pc : Option (List Str)) (loc : PathS) (rs : List (Str × Bool × Res))
    (l : List Str) :
    walk v pc loc rs l =
      match l.findSome? (abortAt v pc loc rs) with
      | some p => .abort p
      | none => .ok (l.filterMap (pageAt v pc rs)) (l.filter (fileAt v pc rs)) :=
  walk_eq v pc loc rs l

/-! ### a bad `ordered_subpage` entry -/

/-- With the candidate repair (`MissingOrdered.skips`: report and continue) no page directory
    whatsoever makes `get_page_tree` raise. -/
theorem missing_ordered_isolated (v : Variant) (hv : v.mo = .skips) (e : Entry)
    (own : List Str) (hier : List (PathS × Str)) (loc : PathS) (sibs : List Entry) (p : PathS) :
    entryRes v own hier loc sibs e ≠ .abort p :=
  entryRes_skips_no_abort v hv e own hier loc sibs p

/-- The code as it is raises only for inputs of the class of finding
    C17-missing-ordered-subpage-aborts: when every `ordered_subpage` item names an entry of its
    directory (or index.md, or a hidden/backup name), nothing raises, at any depth. -/
theorem missing_ordered_isolated_partial (v : Variant) (e : Entry)
    (own : List Str) (hier : List (PathS × Str)) (loc : PathS) (sibs : List Entry) (p : PathS)
    (hwf : wfEntry e = true) (hok : orderedOk e = true) :
    entryRes v own hier loc sibs e ≠ .abort p :=
  entryRes_orderedOk_no_abort v e own hier loc sibs p hwf hok

/-- ... and it does raise on the witness of the finding: `ordered_subpage: gone.md` next to a good
    page `a.md` aborts the whole tree (the sibling is lost, not just the bad entry). -/
theorem missing_ordered_witness :
    (match getPageTree Variant.asIs
        [.file "index.md".toList ⟨some ['T'], ["gone.md".toList], [], []⟩,
         .file "a.md".toList ⟨some ['A'], [], [], []⟩] with
     | .abort p => p == ["gone.md".toList]
     | _ => false) = true := by decide


/-! ### mirror -/

/-- **Mirror.**  For every page directory of any size and nesting depth (distinct names per
    directory), a path is a page of the tree that `get_page_tree` builds iff the property statement
    expects it: `index.html` for every directory reached through titled index.md files, and
    `<stem>.html` at the same relative location for every visible titled `*.md` in such a directory -
    nothing else, nothing missing, whatever `ordered_subpage` / `copy_subdir` say and however many
    untitled pages, index-less directories, hidden, backup and other files sit in between.
    Partial: the three decidable hypotheses cut out exactly the classes of the known findings
    (dotted stems; a directory named in its grandparent's `copy_subdir`; a run that aborts on a
    dangling `ordered_subpage`, see `missing_ordered_isolated_partial`). -/
theorem mirror_partial (v : Variant) (cs : List Entry)
    (hn : (names cs).Nodup) (hwf : wfEntries cs = true)
    (hstems : plainStemsL cs = true)
    (hgp : gpFreeL v none (match indexMeta cs with | some (m, _) => some m.copySub | none => none) cs = true)
    (hnoab : ∀ q, getPageTree v cs ≠ .abort q) (p : PathS) :
    p ∈ resPaths (getPageTree v cs) ↔ p ∈ expPages cs :=
  getPageTree_mirror v cs hn hwf hstems hgp hnoab p

/-- ... and for a sub-directory at any location (the statement by which the induction goes). -/
theorem mirror_subtree_partial (v : Variant) (e : Entry) (own : List Str) (hier : List (PathS × Str))
    (loc : PathS) (sibs : List Entry) (pc : Option (List Str))
    (hwf : wfEntry e = true) (hstems : plainStems e = true) (hgp : gpFree v pc (some own) e = true)
    (hnoab : ∀ q, entryRes v own hier loc sibs e ≠ .abort q) (p : PathS) :
    p ∈ resPaths (entryRes v own hier loc sibs e) ↔ p ∈ expEntry loc e :=
  entryRes_mirror v e own hier loc sibs pc hwf hstems hgp hnoab p

/-- With both candidate repairs (no `copy_subdir` recursion test, dangling `ordered_subpage` skipped)
    the mirror holds with no hypothesis besides well-formedness and plain stems. -/
theorem mirror_repaired_partial (v : Variant) (hcc : v.cc = .ignored) (hmo : v.mo = .skips)
    (cs : List Entry) (hn : (names cs).Nodup) (hwf : wfEntries cs = true)
    (hstems : plainStemsL cs = true) (p : PathS) :
    p ∈ resPaths (getPageTree v cs) ↔ p ∈ expPages cs := by
  apply getPageTree_mirror v cs hn hwf hstems
  · exact gpFreeL_of_mem v _ _ cs (fun c _ => gpFree_ignored v hcc c _ _)
  · intro q
    unfold getPageTree
    split
    · simp
    · rename_i m t _
      rw [walk_eq]
      have : List.findSome? (abortAt v none [] (entriesRes v m.copySub [([], t)] [] cs cs))
          (mergedList m.ordered (names cs)) = none := by
        rw [List.findSome?_eq_none_iff]
        intro x _
        unfold abortAt
        split
        · rfl
        · rw [lookupRes_entriesRes]
          cases hfe : findEntry x cs with
          | none => simp [hmo]
          | some c =>
            simp only [Option.map_some]
            split
            · rename_i heq; cases heq
            · rename_i d q' heq
              simp only [Option.some.injEq, Prod.mk.injEq] at heq
              exact absurd heq.2 (entryRes_skips_no_abort v hmo c _ _ _ _ q')
            · rfl
      simp [this]

/-- **A bad page is isolated.**  An entry from which no page is expected - in particular an `*.md`
    without a title, or a sub-directory whose index.md is missing or untitled - removes exactly itself
    (its sub-tree): the pages of the directory that contains it are exactly the pages expected of the
    directory *without* it; no sibling, before or after it in any order, is lost. -/
theorem bad_page_isolated_partial (v : Variant) (l₁ l₂ : List Entry) (b : Entry)
    (hb : b.name ≠ indexName) (hbad : expEntry [] b = [])
    (hn : (names (l₁ ++ b :: l₂)).Nodup) (hwf : wfEntries (l₁ ++ b :: l₂) = true)
    (hstems : plainStemsL (l₁ ++ b :: l₂) = true)
    (hgp : gpFreeL v none (match indexMeta (l₁ ++ b :: l₂) with | some (m, _) => some m.copySub | none => none)
            (l₁ ++ b :: l₂) = true)
    (hnoab : ∀ q, getPageTree v (l₁ ++ b :: l₂) ≠ .abort q) (p : PathS) :
    p ∈ resPaths (getPageTree v (l₁ ++ b :: l₂)) ↔ p ∈ expPages (l₁ ++ l₂) := by
  rw [← expPages_remove l₁ l₂ b hb hbad]
  exact getPageTree_mirror v _ hn hwf hstems hgp hnoab p

/-- the two kinds of bad page the statement names do expect no page -/
theorem untitled_expects_nothing (loc : PathS) (n : Str) (m : Meta) (ds : List Entry)
    (hm : m.title = none) (hd : indexMeta ds = none) :
    expEntry loc (.file n m) = [] ∧ expEntry loc (.dir n ds) = [] := by
  simp [expEntry, titled, indexed, hm, hd]

/-- non-vacuity: a three-level directory with an untitled page, an index-less directory, hidden and
    other files, a partial `ordered_subpage` and a `copy_subdir` satisfies every hypothesis of
    `mirror_partial`, and produces five pages. -/
example :
    let w : List Entry :=
      [.file "z.md".toList ⟨some ['Z'], [], [], []⟩,
       .file "index.md".toList ⟨some ['T'], ["z.md".toList, "sub".toList], ["img".toList], []⟩,
       .file "bad.md".toList ⟨none, [], [], []⟩,
       .file ".hidden.md".toList ⟨some ['H'], [], [], []⟩,
       .file "data.txt".toList ⟨none, [], [], []⟩,
       .dir "img".toList [.file "p.png".toList ⟨none, [], [], []⟩],
       .dir "sub".toList [.file "index.md".toList ⟨some ['S'], [], [], []⟩,
                          .file "a.md".toList ⟨some ['A'], [], [], []⟩,
                          .dir "deep".toList [.file "index.md".toList ⟨some ['D'], [], [], []⟩]]]
    (names w).Nodup ∧ wfEntries w = true ∧ plainStemsL w = true ∧
    gpFreeL Variant.asIs none (some ["img".toList]) w = true ∧ orderedOkL w = true ∧
    (resPaths (getPageTree Variant.asIs w)).length = 5 := by decide

/-! ### exactly one page per titled Markdown file (multiplicity) -/

/-- "at the same relative path" never sends two Markdown files of one directory to the same page:
    `<stem>.md -> <stem>.html` is injective on names with suffix `.md`. -/
theorem same_page_same_file (a b : Str) (ha : isMd a = true) (hb : isMd b = true)
    (h : specHtml a = specHtml b) : a = b :=
  specHtml_inj a b ha hb h

/-- "EXACTLY ONE page", specification side: the pages that the statement expects of a page directory
    (distinct entry names per directory, at every depth) are pairwise distinct - two different titled
    Markdown files never claim the same page, a file page `loc/x.html` is never a page below a
    sub-directory `loc/n/...`, and only index.md claims `index.html`.  Full strength: no exclusion. -/
theorem expected_pages_distinct (cs : List Entry) (hn : (names cs).Nodup) (hwf : wfEntries cs = true) :
    (expPages cs).Nodup :=
  expPages_nodup cs hn hwf

/-- ... and for the sub-tree of one entry at any location. -/
theorem expected_subtree_distinct (e : Entry) (loc : PathS) (hwf : wfEntry e = true) :
    (expEntry loc e).Nodup :=
  expEntry_nodup e loc hwf

/-- The expected pages are the titled Markdown files, one page each, "at the same relative path":
    `expPages` is the list of titled files mapped through `<dir>/<stem>.md -> <dir>/<stem>.html`; that
    map is injective on the titled files of a page directory, and no file is listed twice. -/
theorem expected_pages_are_titled_files (cs : List Entry) (hn : (names cs).Nodup) (hwf : wfEntries cs = true) :
    expPages cs = (titledFiles cs).map pageOf ∧ (titledFiles cs).Nodup ∧
    (∀ a ∈ titledFiles cs, ∀ b ∈ titledFiles cs, pageOf a = pageOf b → a = b) := by
  have h := expPages_nodup cs hn hwf
  rw [expPages_eq_map] at h
  exact ⟨expPages_eq_map cs, nodup_of_nodup_map pageOf _ h, inj_of_nodup_map pageOf _ h⟩

/-- "EXACTLY ONE page", implementation side: the pages of the tree that `get_page_tree` builds are
    pairwise distinct - no page path is produced twice, whatever `ordered_subpage` lists (a name twice,
    a name that the directory listing finds as well, index.md, hidden and backup names, names that do
    not exist), whatever `copy_subdir` says, in every variant, and also when the run aborts (then
    there is no page).  Partial: only the class of finding C17-dotted-stem-truncated is excluded
    (`plainStemsL`; see `dotted_stem_collision_witness`); the `copy_subdir` and dangling
    `ordered_subpage` exclusions of `mirror_partial` are not needed here. -/
theorem pages_distinct_partial (v : Variant) (cs : List Entry)
    (hn : (names cs).Nodup) (hwf : wfEntries cs = true) (hstems : plainStemsL cs = true) :
    (resPaths (getPageTree v cs)).Nodup :=
  getPageTree_nodup v cs hn hwf hstems

/-- ... and for the sub-tree built from one entry at any location, with any `copy_subdir` of the
    directory above. -/
theorem pages_distinct_subtree_partial (v : Variant) (e : Entry) (own : List Str)
    (hier : List (PathS × Str)) (loc : PathS) (sibs : List Entry)
    (hwf : wfEntry e = true) (hstems : plainStems e = true) :
    (resPaths (entryRes v own hier loc sibs e)).Nodup :=
  entryRes_nodup v e own hier loc sibs hwf hstems

/-- ... and for every project encoding, on the directory as it is on disk. -/
theorem pages_distinct_any_encoding_partial (v : Variant) (enc : Str) (cs : List RawEntry)
    (hn : (names (viewL enc cs)).Nodup) (hwf : wfEntries (viewL enc cs) = true)
    (hstems : plainStemsL (viewL enc cs) = true) :
    (resPaths (getPageTreeRaw CallSites.gen v enc cs)).Nodup := by
  unfold getPageTreeRaw
  rw [decodeL_gen]
  exact getPageTree_nodup v _ hn hwf hstems

/-- **Bijection "titled Markdown file <-> page".**  Under the hypotheses of `mirror_partial`, the
    sequence of page paths of the tree that `get_page_tree` builds is a rearrangement of the list
    `titledFiles cs` mapped through `<stem>.md -> <stem>.html` - every titled Markdown file occurs
    exactly once in that list and the map is injective on it (`expected_pages_are_titled_files`) - so
    every titled file has exactly one page (`count = 1`), at the same relative path, and there is no
    other page. -/
theorem pages_bijection_partial (v : Variant) (cs : List Entry)
    (hn : (names cs).Nodup) (hwf : wfEntries cs = true)
    (hstems : plainStemsL cs = true)
    (hgp : gpFreeL v none (match indexMeta cs with | some (m, _) => some m.copySub | none => none) cs = true)
    (hnoab : ∀ q, getPageTree v cs ≠ .abort q) :
    (resPaths (getPageTree v cs)).Perm ((titledFiles cs).map pageOf) ∧
    (∀ f ∈ titledFiles cs, (resPaths (getPageTree v cs)).count (pageOf f) = 1) := by
  have hd := getPageTree_nodup v cs hn hwf hstems
  have hp : (resPaths (getPageTree v cs)).Perm ((titledFiles cs).map pageOf) := by
    rw [← expPages_eq_map]
    exact perm_of_nodup_mem hd (expPages_nodup cs hn hwf)
      (getPageTree_mirror v cs hn hwf hstems hgp hnoab)
  refine ⟨hp, fun f hf => ?_⟩
  rw [hd.count, if_pos (hp.mem_iff.mpr (List.mem_map_of_mem hf))]

/-- non-vacuity: `z.md` is listed twice in `ordered_subpage` and is found by the directory listing as
    well, `sub` is listed and found, index.md is listed explicitly, next to hidden / backup names and a
    three-level tree; the hypotheses of `pages_bijection_partial` hold, the six pages are built once
    each, and they are the pages of the six titled files. -/
example :
    let w : List Entry :=
      [.file "z.md".toList ⟨some ['Z'], [], [], []⟩,
       .file "index.md".toList
         ⟨some ['T'], ["z.md".toList, "index.md".toList, "sub".toList, "z.md".toList, ".h.md".toList, "sub".toList],
          [], []⟩,
       .file "a.md".toList ⟨some ['A'], [], [], []⟩,
       .file ".h.md".toList ⟨some ['H'], [], [], []⟩,
       .file "old.md~".toList ⟨some ['O'], [], [], []⟩,
       .dir "sub".toList [.file "index.md".toList ⟨some ['S'], ["a.md".toList, "a.md".toList], [], []⟩,
                          .file "a.md".toList ⟨some ['A'], [], [], []⟩,
                          .dir "deep".toList [.file "index.md".toList ⟨some ['D'], [], [], []⟩]]]
    (names w).Nodup ∧ wfEntries w = true ∧ plainStemsL w = true ∧
    gpFreeL Variant.asIs none (some []) w = true ∧ orderedOkL w = true ∧
    (resPaths (getPageTree Variant.asIs w)).length = 6 ∧ (resPaths (getPageTree Variant.asIs w)).Nodup ∧
    titledFiles w = [["index.md".toList], ["z.md".toList], ["a.md".toList], ["sub".toList, "index.md".toList],
                     ["sub".toList, "a.md".toList], ["sub".toList, "deep".toList, "index.md".toList]] ∧
    resPaths (getPageTree Variant.asIs w) =
      [["index.html".toList], ["z.html".toList], ["sub".toList, "index.html".toList],
       ["sub".toList, "a.html".toList], ["sub".toList, "deep".toList, "index.html".toList], ["a.html".toList]] := by
  decide

/-! ### witnesses of the known findings (the code as it is) -/

/-- C17-dotted-stem-truncated: `v1.2.md` is written to `v1.html`, the statement expects `v1.2.html`. -/
theorem dotted_stem_witness :
    resPaths (getPageTree Variant.asIs
      [.file "index.md".toList ⟨some ['T'], [], [], []⟩, .file "v1.2.md".toList ⟨some ['V'], [], [], []⟩])
      = [["index.html".toList], ["v1.html".toList]] ∧
    expPages [.file "index.md".toList ⟨some ['T'], [], [], []⟩, .file "v1.2.md".toList ⟨some ['V'], [], [], []⟩]
      = [["index.html".toList], ["v1.2.html".toList]] := by decide

/-- C17-dotted-stem-truncated, multiplicity: the exclusion `plainStemsL` of `pages_distinct_partial` is
    needed for the code as it is.  The titled files `v1.2.md` and `v1.3.md` (and likewise `v1.md` next to
    `v1.2.md`) are both given the page path `v1.html`: the tree has two pages at one path (one file
    overwrites the other), while the statement expects two distinct pages. -/
theorem dotted_stem_collision_witness :
    let w : List Entry :=
      [.file "index.md".toList ⟨some ['T'], [], [], []⟩,
       .file "v1.2.md".toList ⟨some ['A'], [], [], []⟩, .file "v1.3.md".toList ⟨some ['B'], [], [], []⟩]
    let w' : List Entry :=
      [.file "index.md".toList ⟨some ['T'], [], [], []⟩,
       .file "v1.md".toList ⟨some ['A'], [], [], []⟩, .file "v1.2.md".toList ⟨some ['B'], [], [], []⟩]
    (names w).Nodup ∧ wfEntries w = true ∧ plainStemsL w = false ∧
    resPaths (getPageTree Variant.asIs w) = [["index.html".toList], ["v1.html".toList], ["v1.html".toList]] ∧
    ¬ (resPaths (getPageTree Variant.asIs w)).Nodup ∧
    expPages w = [["index.html".toList], ["v1.2.html".toList], ["v1.3.html".toList]] ∧
    resPaths (getPageTree Variant.asIs w') = [["index.html".toList], ["v1.html".toList], ["v1.html".toList]] ∧
    expPages w' = [["index.html".toList], ["v1.html".toList], ["v1.2.html".toList]] := by decide

/-- C17-copy-subdir-checked-on-grandparent: `copy_subdir: img` in the top index.md makes the titled
    sub-tree `sub/img` disappear (while the statement expects it, and the variant without the test
    produces it). -/
theorem copy_subdir_grandparent_witness :
    let w : List Entry :=
      [.file "index.md".toList ⟨some ['T'], [], ["img".toList], []⟩,
       .dir "sub".toList [.file "index.md".toList ⟨some ['S'], [], [], []⟩,
                          .dir "img".toList [.file "index.md".toList ⟨some ['I'], [], [], []⟩]]]
    resPaths (getPageTree Variant.asIs w) = [["index.html".toList], ["sub".toList, "index.html".toList]] ∧
    expPages w = [["index.html".toList], ["sub".toList, "index.html".toList],
                  ["sub".toList, "img".toList, "index.html".toList]] ∧
    resPaths (getPageTree ⟨.ignored, .raises⟩ w) = expPages w := by decide

/-! ### links from every nesting depth -/

/-- `os.path.relpath` followed from the start directory arrives at the target, for all normalised
    paths: the lemma behind every relative URL FORD writes. -/
theorem relpath_roundtrip (start t : PathS) (hs : Plain start) (ht : Plain t) :
    resolveFrom start (relpath t start) = t :=
  PT.relpath_roundtrip start t hs ht

/-- Sidebar and breadcrumb links are correct from every nesting depth: for any two pages `p`, `q`
    (any locations), the href that `relurl` writes on `q` for `p.url`, followed from the directory
    of `q`'s output file, is `p`'s output file.  Uses the generated constants: it needs
    `PageNode.url` and `PagetreePage.outfile` to put pages under the same directory. -/
theorem nav_link_correct (base : PathS) (p q : Node) (hb : Plain base) (hp : Plain p.path) (hq : Plain q.loc) :
    resolveFrom (outDir base q) (relpath (nodeUrl base p) (outDir base q)) = outFile base p := by
  have hseg : nodeUrlSeg = pageDirSeg := by decide
  have hpl : Plain pageDirSeg := by decide
  unfold nodeUrl outDir outFile
  rw [hseg]
  exact PT.relpath_roundtrip _ _ ((hb.append hpl).append hq) ((hb.append hpl).append hp)

/-- The `|page|`, `|media|` and `|url|` aliases are correct from every nesting depth: for every
    alias of the table in `ford.main` and every path `rest` below it, the absolute target is
    recognised as lying inside the output directory, rewritten relative to the page being converted,
    and that relative link followed from the page's output directory is the aliased file
    `<output>/<alias segments>/<rest>`. -/
theorem alias_link_correct (base : PathS) (q : Node) (a : Str) (segs rest : PathS)
    (ha : (a, segs) ∈ aliasTable) (hne : segs ++ rest ≠ [])
    (hb : Plain base) (hr : Plain rest) (hq : Plain q.loc) :
    ∃ r, fixSegs base (pageDir base q) (norm (base ++ segs ++ rest)) = some r ∧
      resolveFrom (outDir base q) r = base ++ segs ++ rest := by
  have hconv : convPathSeg = pageDirSeg := by decide
  have hpl : Plain pageDirSeg := by decide
  have hsegs : Plain segs := by
    have : ∀ x ∈ aliasTable, Plain x.2 := by decide
    exact this _ ha
  have hfull : Plain (base ++ segs ++ rest) := (hb.append hsegs).append hr
  have hnorm : norm (base ++ segs ++ rest) = base ++ segs ++ rest := by
    simpa [norm] using normAux_plain [] _ hfull
  refine ⟨relpath (base ++ segs ++ rest) (pageDir base q), ?_, ?_⟩
  · rw [hnorm]
    unfold fixSegs
    rw [List.append_assoc, properPrefix_append base (segs ++ rest) hne]
    simp
  · unfold pageDir outDir
    rw [hconv]
    exact PT.relpath_roundtrip _ _ ((hb.append hpl).append hq) hfull

/-- `|page|` points at the directory the pages are written to (so `|page|/<path of p>` is `p`'s file). -/
theorem alias_page_is_page_dir : (['p', 'a', 'g', 'e'], pageDirSeg) ∈ aliasTable ∧ locSeg = pageDirSeg := by
  decide

/-- "relative links can be used as though the links were being made between the Markdown files":
    because the output mirrors the source (`<output>/page/<loc>` for `<page_dir>/<loc>`), the relative
    path from the directory of one source file to another file, followed from the output directory of
    the first, arrives at the mirrored position of the second - for all locations, at every depth. -/
theorem relative_link_mirrored (base la t : PathS) (hb : Plain base) (hla : Plain la) (ht : Plain t) :
    resolveFrom (base ++ pageDirSeg ++ la) (relpath t la) = base ++ pageDirSeg ++ t := by
  have hpl : Plain pageDirSeg := by decide
  exact resolve_relpath (base ++ pageDirSeg) la t (hb.append hpl) hla ht

/-- a link that is not inside the output directory is left exactly as written -/
theorem outside_link_untouched (base cur full : PathS) (h : properPrefix base full = false) :
    fixSegs base cur full = none := by
  simp [fixSegs, h]

/-! ### the places outside `<output>/page` that the aliases and the navigation bar point at -/

/-- `|media|` names the place the media directory is put: the alias table of `ford.main` maps `media`
    to exactly the segments below the output directory that `Documentation.writeout` copies the
    project's `media_dir` setting to (whatever the source directory is called), and the setting that
    is copied is `media_dir`.  Two code sites; stated over both generated tables. -/
theorem alias_media_is_media_copy :
    (['m', 'e', 'd', 'i', 'a'], mediaDestSeg) ∈ aliasTable ∧
    (∀ x ∈ aliasTable, x.1 = ['m', 'e', 'd', 'i', 'a'] → x.2 = mediaDestSeg) ∧
    mediaSrcKey = ['m', 'e', 'd', 'i', 'a', '_', 'd', 'i', 'r'] ∧
    outDirKey = ['o', 'u', 't', 'p', 'u', 't', '_', 'd', 'i', 'r'] := by
  decide

/-- `|url|` is the root of the generated documentation (no segment appended), and the predefined
    aliases are exactly the three documented ones. -/
theorem alias_url_is_output_root :
    (['u', 'r', 'l'], []) ∈ aliasTable ∧
    aliasTable.map (·.1) = [['u', 'r', 'l'], ['m', 'e', 'd', 'i', 'a'], ['p', 'a', 'g', 'e']] := by
  decide

/-- The predefined aliases are rooted at the same directory that `RelativeLinksTreeProcessor` makes
    links relative in (`url_path = Path(e)`, `MetaMarkdown(base_url=e)` with the same `e`) - the `base`
    shared by `aliasText` and `fixAttrib` in `alias_link_correct` - and they are the last layer
    `aliases` is built from, so no user-defined alias or external project replaces them. -/
theorem aliases_rooted_at_base_url :
    aliasRootExpr = mdBaseUrlExpr ∧ aliasLayers.getLast? = some predefinedLayer ∧
    aliasLayers.count predefinedLayer = 1 := by
  decide

/-- `|media|` is correct from every nesting depth, for every media directory: whatever the project's
    media directory contains (any tree `es`, any name of the source directory - the name does not occur),
    for every file or directory `p` below it and every page `q` at any depth, the link `|media|/<p>` is
    recognised as internal, rewritten relative to `q`, and followed from `q`'s output directory it arrives
    at an entry that `Documentation.writeout` has created, of the same kind. -/
theorem media_link_reaches_copied_file (base : PathS) (q : Node) (es : List Entry) (p : PathS) (d : Bool)
    (segs : PathS) (ha : (['m', 'e', 'd', 'i', 'a'], segs) ∈ aliasTable)
    (hp : (p, d) ∈ listAll.listAllL es) (hpl : Plain p) (hb : Plain base) (hq : Plain q.loc) :
    ∃ r, fixSegs base (pageDir base q) (norm (base ++ segs ++ p)) = some r ∧
      ∃ o ∈ mediaOutputs (some es), resolveFrom (outDir base q) r = base ++ o.1 ∧ o.2 = d := by
  have hseg : segs = mediaDestSeg := alias_media_is_media_copy.2.1 _ ha rfl
  have hne0 : mediaDestSeg ≠ [] := by decide
  have hne : segs ++ p ≠ [] := by
    rw [hseg]
    intro h
    exact hne0 (List.append_eq_nil_iff.mp h).1
  obtain ⟨r, hr1, hr2⟩ := alias_link_correct base q _ segs p ha hne hb hpl hq
  refine ⟨r, hr1, (mediaDestSeg ++ p, d), ?_, ?_, rfl⟩
  · simp only [mediaOutputs, List.mem_cons, List.mem_map]
    exact Or.inr ⟨(p, d), hp, rfl⟩
  · rw [hr2, hseg, List.append_assoc]

/-- The first entry of the navigation bar (the link to the top static page) is correct from every page at
    every nesting depth: followed from the page's output directory it is the file the top page is written to. -/
theorem top_nav_link_correct (base : PathS) (top q : Node) (hb : Plain base) (ht : Plain top.path)
    (hq : Plain q.loc) :
    resolveFrom (outDir base q) (relpath (nodeUrl base top) (outDir base q)) = outFile base top :=
  nav_link_correct base top q hb ht hq

/-! ### the project's encoding (and every other per-run argument) reaches every nesting depth -/

/-- Every level of the walk hands all of its per-run arguments to the next one unchanged: in the
    recursive `get_page_tree(...)` call every parameter of `get_page_tree` is passed, `topdir` is the
    sub-directory, `parent` is the node just built, and every other parameter (`proj_copy_subdir`,
    `output_dir`, `md`, `progress`, `encoding`, and whatever is added later) is the caller's own value
    - none omitted (which would silently fall back to its default below the top directory).
    Stated over the generated call table, which since round 5 is OBSERVED (the walk is run with a recognisable
    value for every argument and the arguments that arrive one and two levels down are named by what they are:
    `<entry>` = the directory entry being processed, `<node>` = the PageNode of the calling level's index.md). -/
theorem recursive_call_forwards :
    ∀ p ∈ gptParams.map Prod.fst,
      recCall.lookup p =
        some (if p == (pt! "topdir") then (pt! "<entry>") else if p == (pt! "parent") then (pt! "<node>") else p) := by
  decide

/-- Both `PageNode(...)` calls (index.md of the directory, sibling page in the loop) pass every parameter
    of `PageNode.__init__`; `md`, `output_dir`, `proj_copy_subdir` and `encoding` are the values of the
    enclosing `get_page_tree` call, and `PageNode` decodes the file with exactly that `encoding`. -/
theorem page_reads_forward :
    (∀ p ∈ pageNodeParams.map Prod.fst,
      indexNodeCall.lookup p =
        some (if p == (pt! "path") then (pt! "<index>") else p) ∧
      subNodeCall.lookup p =
        some (if p == (pt! "path") then (pt! "<entry>") else if p == (pt! "parent") then (pt! "<node>") else p)) ∧
    readTextArg = encParam := by
  decide

/-- `ford.main` starts the walk with the project's `encoding` setting. -/
theorem main_passes_project_encoding :
    mainCall.lookup encParam = some (pt! "proj_data.encoding") := by decide

/-- **Every file at every nesting depth is decoded with the project's encoding.**  For every directory
    tree on disk (any depth, any mixture of ASCII files, files written in the project's encoding and
    files written in some other encoding) and every project encoding, what the walk of the source
    under test reads is what a reader who uses the project's encoding for *every* file reads.
    Depends on the generated call tables (`recCall`, `indexNodeCall`, `subNodeCall`, `readTextArg`,
    the defaults in `gptParams` / `pageNodeParams`). -/
theorem encoding_reaches_every_depth (enc : Str) (cs : List RawEntry) :
    decodeL CallSites.gen enc cs = viewL enc cs :=
  decodeL_gen enc cs

/-- **Mirror, for every project encoding.**  The pages built from the directory on disk by a run with
    `encoding = enc` are exactly the pages the property statement expects of that directory read in
    `enc` - at every depth.  Same decidable exclusions as `mirror_partial` (known findings). -/
theorem mirror_any_encoding_partial (v : Variant) (enc : Str) (cs : List RawEntry)
    (hn : (names (viewL enc cs)).Nodup) (hwf : wfEntries (viewL enc cs) = true)
    (hstems : plainStemsL (viewL enc cs) = true)
    (hgp : gpFreeL v none (match indexMeta (viewL enc cs) with | some (m, _) => some m.copySub | none => none)
            (viewL enc cs) = true)
    (hnoab : ∀ q, getPageTreeRaw CallSites.gen v enc cs ≠ .abort q) (p : PathS) :
    p ∈ resPaths (getPageTreeRaw CallSites.gen v enc cs) ↔ p ∈ expPages (viewL enc cs) := by
  unfold getPageTreeRaw at hnoab ⊢
  rw [decodeL_gen] at hnoab ⊢
  exact getPageTree_mirror v _ hn hwf hstems hgp hnoab p

/-- When the page directory is written in the project's encoding (every file ASCII or in `enc`), the
    run produces exactly the tree of the correctly decoded directory, for every `enc`: no titled page
    is lost or changed because of the encoding, at any depth. -/
theorem project_encoding_loses_nothing (v : Variant) (enc : Str) (cs : List RawEntry)
    (hw : writtenInL enc cs = true) :
    getPageTreeRaw CallSites.gen v enc cs = getPageTree v (plainL cs) := by
  unfold getPageTreeRaw
  rw [decodeL_gen, viewL_writtenIn enc cs hw]

/-- ... and this does depend on the call table: if the recursive call omits `encoding` (so that the
    default `utf-8` is used below the top directory), a titled ISO-8859-1 page in a sub-directory of an
    ISO-8859-1 project is lost while its top-level twin is kept. -/
theorem encoding_not_forwarded_witness :
    let c : CallSites := { CallSites.gen with recCall := CallSites.gen.recCall.filter (fun kv => kv.1 != encParam) }
    let l1 : Str := pt! "iso-8859-1"
    let w : List RawEntry :=
      [.file (pt! "index.md") [] ⟨some ['T'], [], [], []⟩,
       .file (pt! "c.md") l1 ⟨some ['C'], [], [], []⟩,
       .dir (pt! "sub") [.file (pt! "index.md") [] ⟨some ['S'], [], [], []⟩,
                         .file (pt! "c.md") l1 ⟨some ['D'], [], [], []⟩]]
    writtenInL l1 w = true ∧
    resPaths (getPageTreeRaw c Variant.asIs l1 w) =
      [[pt! "index.html"], [pt! "c.html"], [pt! "sub", pt! "index.html"]] ∧
    resPaths (getPageTreeRaw CallSites.gen Variant.asIs l1 w) =
      [[pt! "index.html"], [pt! "c.html"], [pt! "sub", pt! "index.html"], [pt! "sub", pt! "c.html"]] ∧
    expPages (viewL l1 w) =
      [[pt! "index.html"], [pt! "c.html"], [pt! "sub", pt! "index.html"], [pt! "sub", pt! "c.html"]] := by
  decide

/-! ### the aliases in the text of a page: every line, whatever it starts with -/

/-- `AliasPreprocessor.run` treats every line of the page, in place and in order: the result is the list
    of the images of the lines under the per-line substitution - no line is exempt (whatever it starts with),
    none is dropped, added or moved. -/
theorem alias_run_every_line (al : List (Str × Str)) (lines : List Str) :
    PA.aliasRun al lines = lines.map (PA.aliasLine al) ∧ (PA.aliasRun al lines).length = lines.length := by
  rw [PA.aliasRun_eq_map]
  simp

/-- Indentation plays no role: a line that starts with any number of blanks and tabs (the continuation
    paragraph of a list item, a nested list item, ...) is substituted exactly like the same line without them. -/
theorem alias_indentation_irrelevant (al : List (Str × Str)) (ws s : Str)
    (hws : ∀ c ∈ ws, c = ' ' ∨ c = '\t') :
    PA.aliasLine al (ws ++ s) = ws ++ PA.aliasLine al s := by
  have hp : '|' ∉ ws := fun h => by rcases hws _ h with h' | h' <;> exact absurd h' (by decide)
  have hb : '\\' ∉ ws := fun h => by rcases hws _ h with h' | h' <;> exact absurd h' (by decide)
  unfold PA.aliasLine
  rw [PA.subGo_prefix al ws s false hp, PA.bsAfter_no_bs ws hb, PA.unescGo_prefix ws _ hb]

/-- An alias is replaced wherever it stands on its line: for every text `pre` before it (indentation, list
    or quote markers, the text of a link, ... - anything without a pipe or a backslash), every alias name
    without blank and pipe that the dictionary knows, and every text `post` after it, the line
    `pre|name|post` becomes `pre<value>post`. -/
theorem alias_substituted_anywhere (al : List (Str × Str)) (pre name val post : Str)
    (hpre : '|' ∉ pre) (hpreb : '\\' ∉ pre)
    (hne : name ≠ []) (hs : ' ' ∉ name) (hp : '|' ∉ name) (hl : al.lookup name = some val)
    (hval : '\\' ∉ val) (hpost : '|' ∉ post) (hpostb : '\\' ∉ post) :
    PA.aliasLine al (pre ++ '|' :: name ++ '|' :: post) = pre ++ val ++ post := by
  have hhead : post.head? ≠ some '|' := by
    intro h
    cases post with
    | nil => simp at h
    | cons c r => simp at h; exact hpost (by simp [h])
  unfold PA.aliasLine
  rw [PA.subGo_alias al pre name post false hpre (PA.bsAfter_no_bs pre hpreb) hne hs hp hhead,
    PA.subGo_no_pipe al post false hpost]
  have hlk : PA.lookupAlias al name = val := by simp [PA.lookupAlias, hl]
  rw [hlk]
  apply PA.unescGo_no_bs
  simp only [List.mem_append, not_or]
  exact ⟨⟨hpreb, hval⟩, hpostb⟩

/-- The text level and the link level agree: with the dictionary that `ford.main` builds, a link written
    `|alias|rest` anywhere on a line (after any `pre`, before any `post`) is handed to Python-Markdown as
    `linkHref` - the href that `alias_link_correct` and `media_link_reaches_copied_file` are about -
    also for an unknown alias (left as written). -/
theorem alias_line_is_link_href (base : PathS) (l : Link) (pre post : Str)
    (hpre : '|' ∉ pre) (hpreb : '\\' ∉ pre)
    (hne : l.alias ≠ []) (hs : ' ' ∉ l.alias) (hp : '|' ∉ l.alias)
    (hrest : '|' ∉ l.rest ++ post) (hpostb : '\\' ∉ post) (hval : '\\' ∉ linkHref base l) :
    PA.aliasLine (mainAliases base) (pre ++ '|' :: l.alias ++ '|' :: (l.rest ++ post)) =
      pre ++ linkHref base l ++ post := by
  have hhead : (l.rest ++ post).head? ≠ some '|' := by
    intro h
    cases hrp : l.rest ++ post with
    | nil => simp [hrp] at h
    | cons c r => rw [hrp] at h hrest; simp at h; exact hrest (by simp [h])
  unfold PA.aliasLine
  rw [PA.subGo_alias (mainAliases base) pre l.alias (l.rest ++ post) false hpre (PA.bsAfter_no_bs pre hpreb)
        hne hs hp hhead,
    PA.subGo_no_pipe (mainAliases base) (l.rest ++ post) false hrest]
  have e : pre ++ PA.lookupAlias (mainAliases base) l.alias ++ (l.rest ++ post) =
      pre ++ linkHref base l ++ post := by
    rw [← PA.lookupAlias_linkHref base l hne]
    simp [List.append_assoc]
  rw [e]
  apply PA.unescGo_no_bs
  simp only [List.mem_append, not_or]
  exact ⟨⟨hpreb, hval⟩, hpostb⟩

/-- The model is the code on the probe lines: the alias preprocessor that `MetaMarkdown(aliases=...)` registers
    was run on `aliasProbeIn` (aliases at the start of a line, behind one to eight blanks, behind tabs, list
    and quote markers, escaped, unknown, unterminated) when the tables were generated; what it returned is what
    the model computes.  (A source that exempts any kind of line changes `aliasProbeOut`.) -/
theorem alias_probe_agrees : PA.aliasRun aliasProbeAliases aliasProbeIn = aliasProbeOut := by
  decide

/-- non-vacuity of `alias_substituted_anywhere` / documented escape: a nested list item, a tab, an escaped alias -/
example :
    PA.aliasLine [(pt! "page", pt! "/o/page")] (pt! "    - [alpha](|page|/alpha.html)") = pt! "    - [alpha](/o/page/alpha.html)" ∧
    PA.aliasLine [(pt! "page", pt! "/o/page")] (pt! "\tsee |page|/a.html and |page|/b.html") = pt! "\tsee /o/page/a.html and /o/page/b.html" ∧
    PA.aliasLine [(pt! "page", pt! "/o/page")] (pt! "    \\|page| stays, |nope| too") = pt! "    |page| stays, |nope| too" := by
  decide

/-! ### symbolic links in the page directory, the containment guard -/

/-- "hidden / backup files": of all printable ASCII characters a file name can begin or end with (probed on
    the real `get_page_tree`, one directory entry per character), exactly a leading `.` and a trailing `~` make
    the walk pass over an entry - the rule the specification (`expPages`) and the oracle use. -/
theorem hidden_and_backup_names_skipped : skipFirst = ['.'] ∧ skipLast = ['~'] := by
  decide

/-- The guard that keeps `ordered_subpage` entries inside their directory never rejects an entry of the
    directory itself: for every directory and every name that is one plain path segment (what `os.listdir`
    returns: not empty, not `.` / `..`, no `/`), `relpath(topdir / name, topdir)` is `name` and the guard lets it
    through.  The computation is on the names only: whether the entry is a regular file, a directory or a
    symbolic link to something kept elsewhere cannot matter. -/
theorem guard_keeps_directory_entries (topdir : PathS) (name : Str) (ht : Plain topdir) (hn : Plain [name])
    (hs : '/' ∉ name) : guardSkips topdir name = false :=
  guardSkips_plain topdir name ht hn hs

/-- ... while user-given entries that leave the directory (or name the directory itself) are rejected, and
    entries below it are not (non-vacuity of the guard). -/
theorem guard_rejects_escape_witness :
    guardSkips [pt! "w", pt! "pages"] (pt! "../outside.md") = true ∧
    guardSkips [pt! "w", pt! "pages"] (pt! "sub/../../x.md") = true ∧
    guardSkips [pt! "w", pt! "pages"] (pt! ".") = true ∧
    guardSkips [pt! "w", pt! "pages"] (pt! "sub/x.md") = false := by
  decide

/-- The page directory is what it looks like through its links: on the probe directory - `changelog.md`, an
    asset, a folder with pages and a page inside a folder are symbolic links to things kept OUTSIDE the page
    directory, `news.md` is a link to its sibling `a.md`, `broken.md` a link to nothing, and index.md names
    `../outside.md` - the real `get_page_tree` (run when the tables were generated) built exactly the pages, in
    exactly the order, and recorded exactly the files that the model computes for the directory with every
    link replaced by what it points to. -/
theorem symlinks_transparent_probe :
    resPaths (getPageTree ⟨.asIs, .skips⟩ walkProbeDir) = walkProbePages ∧
    resPaths (getPageTree ⟨.ignored, .skips⟩ walkProbeDir) = walkProbePages ∧
    (match getPageTree ⟨.asIs, .skips⟩ walkProbeDir with
     | .page nd => (preorder nd).map Node.files
     | _ => []) = walkProbeFiles := by
  decide

/-- ... and that is the whole directory: every titled Markdown file of the probe directory, linked or not,
    has its page among the pages the real code built, and nothing else was built (`../outside.md` was not). -/
theorem symlink_probe_mirrors :
    (∀ p ∈ expPages walkProbeDir, p ∈ walkProbePages) ∧ (∀ p ∈ walkProbePages, p ∈ expPages walkProbeDir) ∧
    walkProbePages.length = 9 := by
  decide

/-! ### round 6: assets next to their pages - the copy loops of `PagetreePage.writeout`, the project's `copy_subdir` -/

/-- **Every page is written** where `PagetreePage.outfile` says: for every tree of page nodes (any shape, any
    `copy_subdir` / file lists) and every node of it, the node's path exists below `<output>/page` after all
    `writeout`s - nothing a later page copies or writes removes it. -/
theorem page_file_written (top n : Node) (hn : n ∈ preorder top) : n.path ∈ paths (outputs top) :=
  foldl_writeNode_of_mem _ [] n _ hn (fun st => writeNode_has_path st n)

/-- **"other files ... are copied next to their pages"**: every file recorded for a page (`node.files`) exists
    next to that page after the run, for every tree of nodes, whatever the page's `copy_subdir` loop did before
    (missing directories, directories that exist already) and whatever the other pages do. -/
theorem other_files_copied_next_to_pages (top n : Node) (f : Str) (hn : n ∈ preorder top) (hf : f ∈ n.files) :
    n.loc ++ [f] ∈ paths (outputs top) :=
  foldl_writeNode_of_mem _ [] n _ hn (fun st => writeNode_has_file st n f hf)

/-- **"`copy_subdir` directories are copied next to their pages": every listed item is attempted.**  For every
    tree of nodes, every page and every item of its `copy_subdir` whose source is a directory, that directory
    exists next to the page after the run - wherever the item stands in the list, i.e. also behind items that
    could not be copied (names that are no directory next to this page, names whose place is taken). -/
theorem copy_subdir_every_item_attempted (top n : Node) (it : Str) (listing : List (PathS × Bool))
    (hn : n ∈ preorder top) (hm : (it, some listing) ∈ n.copies) (hroot : ([it], true) ∈ listing) :
    n.loc ++ [it] ∈ paths (outputs top) :=
  foldl_writeNode_of_mem _ [] n _ hn (fun st => writeNode_has_copy st n it listing hm hroot)

/-- ... and the listing that the walk attaches to an item is rooted at the item's own directory (the hypothesis
    `hroot` above holds for every node that `get_page_tree` builds). -/
theorem copy_listing_rooted (sibs : List Entry) (item : Str) (l : List (PathS × Bool))
    (h : copyListing sibs item = (item, some l)) : ([item], true) ∈ l :=
  copyListing_rooted sibs item l h

/-- **Every page that `get_page_tree` builds attempts every item of its `copy_subdir`**: for every page directory,
    every variant and every page of the resulting tree, the copy loop of the page runs over exactly the items of
    the page's `copy_subdir` (none is dropped, in order), and every item that is a directory next to the page is
    a directory next to the written page after the run - no hypothesis on the lists (missing names, files,
    repetitions, names of sub-trees), on the order of the pages, or on what other pages copy. -/
theorem built_pages_copy_every_listed_directory (v : Variant) (cs : List Entry) (top n : Node)
    (h : getPageTree v cs = .page top) (hn : n ∈ preorder top) :
    n.copies.map Prod.fst = n.copySub ∧
    ∀ it l, (it, some l) ∈ n.copies → n.loc ++ [it] ∈ paths (outputs top) := by
  have hall := getPageTree_copyOk v cs
  rw [h] at hall
  obtain ⟨h1, h2, _⟩ := hall n hn
  exact ⟨h1, fun it l hm => copy_subdir_every_item_attempted top n it l hn hm (h2 it l hm)⟩

/-- ... in particular for a run of the source under test with any project `copy_subdir` and any project encoding,
    on the directory as it is on disk. -/
theorem project_run_copies_every_listed_directory (v : Variant) (enc : Str) (pcs : List Str) (cs : List RawEntry)
    (top n : Node) (h : getPageTreeProj CallSites.gen v enc pcs cs = .page top) (hn : n ∈ preorder top) :
    n.copies.map Prod.fst = n.copySub ∧
    ∀ it l, (it, some l) ∈ n.copies → n.loc ++ [it] ∈ paths (outputs top) :=
  built_pages_copy_every_listed_directory v _ top n h hn

/-- **The copy loop copies whole directories**: in a `copy_subdir` list of distinct names (listings rooted at
    their own names, as `copyListing` makes them), every directory whose place next to the page is still free
    when the loop starts is copied completely - every file and directory below it, at the same relative path -
    however many other items of the list fail.  (`_partial`: a place that is already taken - an earlier page
    copied or created a directory of that name - makes `shutil.copytree` fail; the item is then skipped with a
    warning, see `copy_into_existing_directory_witness`.) -/
theorem copy_loop_copies_whole_directory_partial (loc : PathS) (items : List (Str × Option (List (PathS × Bool))))
    (st : List (PathS × Bool)) (it : Str) (listing : List (PathS × Bool))
    (hm : (it, some listing) ∈ items) (hnd : (items.map Prod.fst).Nodup)
    (hrooted : ∀ i l, (i, some l) ∈ items → ∀ p ∈ l, p.1.head? = some i)
    (hfree : loc ++ [it] ∉ paths st) :
    ∀ p ∈ listing, (loc ++ p.1, p.2) ∈ copyItems loc items st :=
  copyItems_complete loc items st it listing hm hnd hrooted hfree

/-- **A `copy_subdir` directory is copied next to its page with everything in it** - for every page directory,
    every variant, every page `n` that `get_page_tree` builds (`pre` = the pages written before it, `post` = after)
    and every directory `it` of a `copy_subdir` without repetitions: if nothing occupies the place `n.loc/it` when
    the page's `writeout` starts, every file and directory below the source is below `<output>/page/n.loc/it` at
    the same relative path after the run, whatever the other items of the list are (missing, files, taken) and
    whatever the later pages do.  (`_partial`: the place must be free and the directory must not be called like
    the page file; the witness below shows the excluded class.) -/
theorem built_page_copies_whole_directory_partial (v : Variant) (cs : List Entry) (top n : Node) (pre post : List Node)
    (h : getPageTree v cs = .page top) (hsplit : preorder top = pre ++ n :: post)
    (it : Str) (l : List (PathS × Bool)) (hm : (it, some l) ∈ n.copies) (hnd : n.copySub.Nodup)
    (hfree : n.loc ++ [it] ∉ paths (pre.foldl writeNode [])) (hne : it ≠ n.file) :
    ∀ p ∈ l, (n.loc ++ p.1, p.2) ∈ outputs top := by
  have hall := getPageTree_copyOk v cs
  rw [h] at hall
  have hn : n ∈ preorder top := by rw [hsplit]; simp
  obtain ⟨h1, _, h3⟩ := hall n hn
  exact outputs_copies_whole top n pre post hsplit it l hm (h1 ▸ hnd) h3 hfree hne

/-- The excluded class is real: when the place is taken (here by the sub-tree `sub/` written before the leaf
    page `z.md` is), the directory named by the leaf page's `copy_subdir` is not copied again, and what only the
    copy would have brought (`sub/.hidden`) is missing. -/
theorem copy_into_existing_directory_witness :
    let w : List Entry :=
      [.file (pt! "index.md") ⟨some ['T'], [], [], []⟩,
       .dir (pt! "sub") [.file (pt! "index.md") ⟨some ['S'], [], [], []⟩, .file (pt! ".hidden") ⟨none, [], [], []⟩],
       .file (pt! "z.md") ⟨some ['Z'], [], [pt! "sub"], []⟩]
    (match getPageTree Variant.asIs w with
     | .page top => ([pt! "sub", pt! ".hidden"], false) ∈ outputs top
     | _ => true) = false ∧
    ([pt! "sub", pt! ".hidden"], false) ∈ expAssets [] w := by
  decide

/-- **File option first, project setting otherwise** (`self.meta.copy_subdir or proj_copy_subdir`): a page that
    sets `copy_subdir` keeps exactly its own list, a page that sets none gets exactly the project's. -/
theorem copy_subdir_file_option_first (pcs own : List Str) :
    (own ≠ [] → effCopy pcs own = own) ∧ (own = [] → effCopy pcs own = pcs) := by
  constructor
  · intro h
    cases own with
    | nil => exact absurd rfl h
    | cons a r => rfl
  · intro h
    subst h
    rfl

/-- `ford.main` starts the walk with the project's `copy_subdir` setting. -/
theorem main_passes_project_copy_subdir :
    mainCall.lookup copyParam = some (pt! "proj_data.copy_subdir") := by decide

/-- **The project's `copy_subdir` reaches every page at every depth unchanged**: for every page directory and
    every project list, what the walk of the source under test takes as `copy_subdir` of a page - through the
    recursive call and the two `PageNode(...)` calls as the generated tables describe them - is the page's own
    option if it has one and the PROJECT's list otherwise, never the list of an ancestor page.
    Depends on `recCall`, `indexNodeCall`, `subNodeCall`. -/
theorem project_copy_subdir_reaches_every_depth (pcs : List Str) (cs : List Entry) :
    projTop CallSites.gen pcs cs = withProjL pcs cs :=
  projL_gen pcs _ cs

/-- ... and this does depend on the call table: if the recursive call handed down the list in effect for the
    enclosing index page instead, a sub-directory without an own option below a page that sets one would lose
    the project's directory (`sub/media`) and be given the ancestor's list. -/
theorem copy_subdir_not_forwarded_witness :
    let c : CallSites := { CallSites.gen with
      recCall := CallSites.gen.recCall.map (fun kv => if kv.1 == copyParam then (kv.1, nodeCopyExpr) else kv) }
    let w : List Entry :=
      [.file (pt! "index.md") ⟨some ['T'], [], [pt! "images"], []⟩,
       .dir (pt! "images") [.file (pt! "i.png") ⟨none, [], [], []⟩],
       .dir (pt! "sub") [.file (pt! "index.md") ⟨some ['S'], [], [], []⟩,
                         .dir (pt! "media") [.file (pt! "y.png") ⟨none, [], [], []⟩]]]
    (match getPageTree Variant.asIs (projTop c [pt! "media"] w) with
     | .page top => (preorder top).map Node.copySub
     | _ => []) = [[pt! "images"], [pt! "images"]] ∧
    (match getPageTree Variant.asIs (projTop CallSites.gen [pt! "media"] w) with
     | .page top => (preorder top).map Node.copySub
     | _ => []) = [[pt! "images"], [pt! "media"]] ∧
    ([pt! "sub", pt! "media", pt! "y.png"], false) ∈ expAssets [pt! "media"] w := by
  decide

/-- **The copy loops and the hand-down, probed on the real code**: on the probe directory (pages with and
    without an own `copy_subdir` at four depths, lists whose first entries do not exist next to the page, a leaf
    page and its index page naming the same directories, files before and after) the real `get_page_tree`,
    started with the project list, gave every page exactly the `copy_subdir` the model computes, and the real
    `PagetreePage.writeout`s left below `<output>/page` exactly what the model's `outputs` contains. -/
theorem copy_probe_agrees :
    (match getPageTree ⟨.asIs, .skips⟩ (projTop CallSites.gen copyProbeProj copyProbeDir) with
     | .page top =>
       decide ((preorder top).map (fun n => (n.path, n.copySub)) = copyProbeNodes) &&
       (outputs top).all (fun p => copyProbeOut.contains p) &&
       copyProbeOut.all (fun p => (outputs top).contains p)
     | _ => false) = true := by
  decide

/-- ... and that is what the statement asks for: everything expected next to the pages of the probe directory
    (`expAssets`: the other files, and every directory named by a page's own `copy_subdir` or else by the
    project's, with everything in it) is in the output the real code produced, as the same kind of entry. -/
theorem copy_probe_assets_next_to_pages :
    ∀ p ∈ expAssets copyProbeProj copyProbeDir, p ∈ copyProbeOut := by
  decide

/-- ... and nothing else: everything the real code left below `<output>/page` for the probe directory is a page the
    statement expects, a directory that holds such a page, or one of the expected assets (a page that sets its own
    `copy_subdir` did NOT get the project's directories as well: `solo/media/`, next to a page whose own list is
    `keep`, is not in the output). -/
theorem copy_probe_nothing_else :
    copyProbeOut.all (fun p =>
      (expAssets copyProbeProj copyProbeDir).contains p ||
      (!p.2 && (expPages copyProbeDir).contains p.1) ||
      (p.2 && (expPages copyProbeDir).any (fun q => properPrefix p.1 q))) = true := by
  decide

/-- Non-vacuity: the probe expects 37 assets (with repetitions: a leaf page and its index page may name the same directory), among them directories behind a missing first item. -/
example :
    (expAssets copyProbeProj copyProbeDir).length = 37 ∧
    ([pt! "tut", pt! "media", pt! "sub", pt! "deep.dat"], false) ∈ expAssets copyProbeProj copyProbeDir ∧
    ([pt! "tut", pt! "howto", pt! "downloads", pt! "tool.zip"], false) ∈ expAssets copyProbeProj copyProbeDir := by
  decide

end Ford.C17
