/-
  C02 — statement and doc extraction depends only on Fortran lexical rules.
  Property theorems only; helper lemmas live in FordModel/Lemmas.
-/
import FordModel.Reader
import FordModel.Lemmas.Split
namespace Ford.C02
open Ford

/-- `quote_split` loses nothing: re-joining the pieces with the separator gives
    the input back, for every string and separator. -/
theorem quoteSplit_join (sep : Char) (s : Str) : joinSep sep (quoteSplit sep s) = s := by
  simp [quoteSplit, join_qsplitAux]

end Ford.C02
