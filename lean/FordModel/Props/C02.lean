/-
  C02 — statement and doc extraction depends only on Fortran lexical rules.
  Property theorems only; helper lemmas live in FordModel/Lemmas.
-/
import FordModel.Reader
import FordModel.Lemmas.Split
import FordModel.Lemmas.Reader
import FordModel.Lemmas.ReaderLayout
import FordModel.Lemmas.ReaderSplit
import FordModel.InitialValue
import FordModel.Lemmas.InitialValue
import FordModel.Lemmas.ReaderLiteral
import FordModel.Lemmas.MaskPass
import FordModel.TypeSpec
import FordModel.Include
import FordModel.IncludeCfg
import FordModel.Lemmas.Include
import FordModel.PassBack
import FordModel.PassBackCfg
import FordModel.Lemmas.PassBack
namespace Ford.C02
open Ford

/-- `quote_split` loses nothing: re-joining the pieces with the separator gives
    the input back, for every string and separator. -/
theorem quoteSplit_join (sep : Char) (s : Str) : joinSep sep (quoteSplit sep s) = s := by
  simp [quoteSplit, join_qsplitAux]

/-- `quote_split` (two flags, two-character look-ahead for doubled quotes) splits
    exactly where Fortran's lexical scanner is outside a character literal: it
    equals the one-state-machine specification `splitSpec` for every input, so a
    `;` (or `,`) inside a literal - whatever else the literal contains: the other
    quote, doubled quotes, `!`, `&` - never separates statements, and one outside
    always does. -/
theorem quoteSplit_lexical (sep : Char) (hs : isQuote sep = false) (s : Str) :
    quoteSplit sep s = splitSpec sep s .out [] :=
  qsplitAux_eq_spec sep hs s false false [] .out .out

/-- The comment / doc-mark pattern `^([^"'!]|'[^']*'|"[^"]*")*(!MARK.*)$` has the
    deterministic reading `comScan`: the scanner returns `i` iff the pattern can
    match with its last group starting at `i`. -/
theorem comScan_iff (mark l : Str) (i : Nat) : comScan mark l = some i ↔ ComMatch mark l i := by
  constructor
  · intro h
    obtain ⟨p, s, hl, hp, hi, hs⟩ := comScanAux_some mark l .out 0 i h
    exact ⟨p, s, hl, hp, by omega, hs⟩
  · rintro ⟨p, s, hl, hp, hi, hs⟩
    subst hl
    simp [comScan, comScanAux_of_atoms mark p s 0 hp, hs, hi]

/-- ... hence the match is unique: it does not depend on how the regex engine
    explores the alternatives, and only the first `!` outside the quote atoms
    can start a comment or doc comment. -/
theorem comMatch_unique (mark l : Str) (i j : Nat) (hi : ComMatch mark l i) (hj : ComMatch mark l j) :
    i = j := by
  have h1 := (comScan_iff mark l i).2 hi
  have h2 := (comScan_iff mark l j).2 hj
  rw [h1] at h2
  exact Option.some.inj h2

/-- A `!` inside a closed literal is never a comment start; the first one outside is. -/
example : comScan [] "x = 'a!b' ! c".toList = some 10 := by decide
example : comScan ['!'] "x = 'a!!b' !! c".toList = some 11 := by decide
/-- literal still open at the `!` : no match -/
example : comScan [] "x = 'a ! b".toList = none := by decide


/-- **Layout invariance of a continued statement.**  A statement laid out over any
    number of physical lines - first line `b0 &`, then any mixture of blank lines,
    comment lines, `&`-only lines and continuation lines `[&] b &`, then a last line
    `[&] bn` - is read as the single logical line obtained by joining the pieces (a
    leading `&` joins the piece directly, its absence joins with exactly one blank),
    which is then split at the `;` outside literals (`quoteSplit_lexical`).  The
    hypotheses say only that each physical line carries no doc comment and that its
    *code part*, under the lexical state the reader is in at that point, is the piece the
    layout intends (`Rendered`); `code_part_*` below discharge that from the spelling of
    the line.  No bound on the number of lines, pieces, or their lengths. -/
theorem layout_join (m : Marks) (l0 : Str) (x : Char) (r : Str) (mids : List Mid)
    (lines : List Str) (ln : Str) (lead : Bool) (b : Str) (rest : List Str)
    (h0 : NoDoc m false l0) (hc0 : codeOf false l0 = x :: r ++ ['&']) (hx : x ≠ '&')
    (hr : Rendered m (' ' :: x :: r) mids lines)
    (hn : NoDoc m (unterminated (mids.foldl Mid.join (' ' :: x :: r))) ln)
    (hcn : codeOf (unterminated (mids.foldl Mid.join (' ' :: x :: r))) ln = lastCode lead b)
    (hb : isBlank b = false) (hl : b.getLast? ≠ some '&')
    (hh : lead = false → ∃ y t, b = y :: t ∧ y ≠ '&')
    (hJ : itemsOf (Mid.join (mids.foldl Mid.join (' ' :: x :: r)) (.cont lead b)) ≠ []) :
    readFrom m (qs [] false) (l0 :: lines ++ ln :: rest) =
      match readFrom m (qs [] false) rest with
      | .error e => .error e
      | .ok more =>
        .ok (itemsOf (Mid.join (mids.foldl Mid.join (' ' :: x :: r)) (.cont lead b)) ++ more) :=
  continuation_join m l0 x r mids lines ln lead b rest h0 hc0 hx hr hn hcn hb hl hh hJ

/-- Blank lines, comment lines and `&`-only lines inside a continued statement are
    transparent: inserting any number of them anywhere between the pieces does not
    change the joined text (exact equality, not modulo blanks). -/
theorem comment_lines_transparent (J : Str) (mids : List Mid)
    (h : ∀ mid ∈ mids, mid = .blank ∨ ∃ ws, mid = .ampOnly ws) : mids.foldl Mid.join J = J := by
  induction mids generalizing J with
  | nil => rfl
  | cons mid ms ih =>
    have hm := h mid (by simp)
    have : mid.join J = J := by
      rcases hm with hm | ⟨ws, hm⟩ <;> subst hm <;> rfl
    simp only [List.foldl_cons, this]
    exact ih J (fun m' hm' => h m' (by simp [hm']))

/-- A piece continued with a leading `&` is appended byte for byte - this is how a
    character literal continued across lines is re-joined exactly: nothing is
    inserted, stripped or interpreted between `J` and `b`, whatever `b` contains. -/
theorem leading_amp_joins_verbatim (J b : Str) : Mid.join J (.cont true b) = J ++ b := rfl

/-- The code part of a physical line that starts outside a literal: the first `!`
    outside the (closed) literals starts the comment, whatever the comment contains
    (quotes, `;`, `&`, further `!`); a `!` inside a literal does not. -/
theorem code_part_outside_comment (p cmt : Str) (hp : Atoms p) :
    codeOf false (p ++ '!' :: cmt) = strip p := codeOf_outside_comment p cmt hp

theorem code_part_outside_plain (p : Str) (hp : Atoms p) : codeOf false p = strip p :=
  codeOf_outside_plain p hp

/-- a line ending inside a literal that the next line continues: any `!` in the open
    literal is text, the whole line is code -/
theorem code_part_outside_open_literal (p : Str) (q : Char) (body : Str) (hp : Atoms p)
    (hq : isQuote q = true) (hb : q ∉ body) :
    codeOf false (p ++ q :: body) = strip (p ++ q :: body) := codeOf_outside_open p q body hp hq hb

/-- a line that starts inside a continued literal is taken whole and no doc-mark is
    looked for on it, so a `!` or `!!` in the literal's continuation stays literal text -/
theorem code_part_inside_literal (m : Marks) (l : Str) (h : firstStripped l ≠ some '#') :
    codeOf true l = strip l ∧ NoDoc m true l := ⟨codeOf_inside l, noDoc_inside m l h⟩

/-- an ordinary comment is never taken for a doc comment of any of the four kinds, and a
    line without comment carries none -/
theorem ordinary_comment_is_not_doc (m : Marks) (p cmt : Str) (hp : Atoms p)
    (hfirst : firstStripped (p ++ '!' :: cmt) ≠ some '#')
    (h1 : startsWith cmt m.pre = false) (h2 : startsWith cmt m.preAlt = false)
    (h3 : startsWith cmt m.alt = false) (h4 : startsWith cmt m.doc = false) :
    NoDoc m false (p ++ '!' :: cmt) :=
  ⟨hfirst, matchDocmark_comment _ p cmt hp h1, matchDocmark_comment _ p cmt hp h2,
    matchDocmark_comment _ p cmt hp h3, matchDocmark_comment _ p cmt hp h4⟩

/-- Known finding C02-comment-while-literal-continued, as the code stands: on a line that
    starts inside a continued literal the comment after the closing quote is *kept*
    (the full-strength statement would give `&def'`). -/
theorem comment_while_literal_continued_witness :
    codeOf (unterminated "x = 'abc".toList) "  &def' ! a comment".toList = "&def' ! a comment".toList := by
  decide

/-- non-vacuity of `layout_join`: `x = 'a;b' &` / `! c` / `  & // 'it''s' ! tail` read with
    the default marks gives the one statement `x = 'a;b'  // 'it''s'` -/
example :
    (match readAll Marks.default ["x = 'a;b' &".toList, "! c".toList, "  & // 'it''s' ! tail".toList] with
      | .ok items => items == ["x = 'a;b'  // 'it''s'".toList]
      | .error _ => false) = true := by decide

/-- **Cutting a line with `&` ... `&` never changes the statements - exactly.**  Take the
    statement(s) written on one physical line `l1`, and the same text cut at any positions - in
    the middle of a name, a number, an operator such as `**` or `=>`, or a character literal -
    into a first line `x r &`, any number of lines `& piece &` mixed with blank lines, comment
    lines and `&`-only lines, and a last line `& b`.  Both layouts give the same items (equal
    strings, not merely equal modulo blanks): nothing is inserted between the pieces, so a token
    continued across lines stays one token.  No bound on the number or length of the pieces. -/
theorem cut_with_amp_is_exact (m : Marks) (l0 l1 : Str) (x : Char) (r : Str) (mids : List Mid)
    (lines : List Str) (ln b : Str) (rest : List Str)
    (h0 : NoDoc m false l0) (hc0 : codeOf false l0 = x :: r ++ ['&']) (hx : x ≠ '&')
    (hd : ∀ mid ∈ mids, mid.direct)
    (hr : Rendered m (' ' :: x :: r) mids lines)
    (hn : NoDoc m (unterminated (' ' :: x :: r ++ (mids.map Mid.text).flatten)) ln)
    (hcn : codeOf (unterminated (' ' :: x :: r ++ (mids.map Mid.text).flatten)) ln = '&' :: b)
    (h1 : NoDoc m false l1) (hc1 : codeOf false l1 = x :: r ++ (mids.map Mid.text).flatten ++ b)
    (hb : isBlank b = false) (hl : b.getLast? ≠ some '&')
    (hJ : itemsOf (' ' :: x :: r ++ (mids.map Mid.text).flatten ++ b) ≠ []) :
    readFrom m (qs [] false) (l0 :: lines ++ ln :: rest) = readFrom m (qs [] false) (l1 :: rest) :=
  split_exact m l0 l1 x r mids lines ln b rest h0 hc0 hx hd hr hn hcn h1 hc1 hb hl hJ

/-- non-vacuity of `cut_with_amp_is_exact`: a name, a number and `**` cut in the middle -/
example :
    (readAll Marks.default ["big_num&".toList, "  ! c".toList, " &ber = 12&".toList, "&3 *&".toList,
        "   &* 2".toList]).toOption =
      (readAll Marks.default ["big_number = 123 ** 2".toList]).toOption := by decide

/-- ... while a continuation line *without* leading `&` starts a new token: one blank -/
example :
    (readAll Marks.default ["x = a&".toList, "  b".toList]).toOption = some ["x = a b".toList] := by decide

/-! ## the parser's second masking pass: initial values

  `regexSources` and `initialSteps` are regenerated from ford/reader.py and ford/sourceform.py
  on every run (translate/c02.py). -/

open Ford.Show Ford.InitialValue in
/-- **Literal text in an initial value is preserved verbatim, whatever it contains.**  For every
    masked initial-value expression - code pieces without blanks and placeholders of well-formed
    literals, no two literals adjacent - the `if initial:` block of `line_to_variables`, *with
    its statements in the order they have in the source*, returns the expression in which the
    comma tidy-up has touched the code pieces only and every literal stands whole, changed only
    by the NBSP substitution (`nbsp_reads_as_blank` below): commas, `;`, `!`, `&`, quotes,
    placeholders-look-alikes or keywords inside a literal are never treated as syntax. -/
theorem initial_value_literals_verbatim (strings : List Str) (ps : List Piece)
    (hw : WellMasked strings ps) (hn : NoBlank ps) :
    initialValue strings (maskedText ps) = .ok (restoredText strings (ps.map Piece.tidy)) := by
  simp only [initialValue, Generated.C02.initialSteps, Generated.C02.restoreNbsp,
    Generated.C02.restoreDoubleBs, runSteps, applyStep]
  rw [commaSpace_maskedText strings ps hw hn, reinsert_pieces strings _ (wellMasked_tidy strings ps hw)]

open Ford.Show Ford.InitialValue in
/-- ... in particular an initial value that *is* a literal comes back as that literal -/
theorem initial_value_single_literal (q : Char) (body : Str) (hq : isQuote q = true)
    (hb : litTail q body = true) :
    initialValue [q :: body] (maskOf 0) = .ok (nbsp (q :: body)) := by
  have hw : WellMasked [q :: body] [.ph ['0']] :=
    ⟨⟨0, q, body, by decide, rfl, hq, hb⟩, trivial, trivial⟩
  have h := initial_value_literals_verbatim [q :: body] [.ph ['0']] hw trivial
  have e : maskedText [.ph ['0']] = maskOf 0 := by decide
  rw [e] at h
  rw [h]
  simp [restoredText, Piece.tidy, litOf, parseNat?, isDigit]

open Ford.Show in
/-- the NBSP substitution only turns blanks into non-breaking blanks: read with NBSP as a blank
    the literal is the source text, character for character -/
theorem nbsp_reads_as_blank (s : Str) (h : ∀ c ∈ s, c ≠ nbspChar) : unNbsp (nbsp s) = s :=
  unNbsp_nbspGo s false h

open Ford.Show Ford.InitialValue in
/-- the order of the two steps matters: tidying commas *after* the literals are back rewrites
    the literal `','` to `', '` (what the property forbids) - hence the order is taken from the
    source and `initial_value_literals_verbatim` is stated over it -/
theorem comma_tidy_after_restore_witness :
    (runSteps true true ["','".toList] [.restore, .commaTidy] "\"0\"".toList).toOption = some "', '".toList ∧
    (runSteps true true ["','".toList] [.commaTidy, .restore] "\"0\"".toList).toOption = some "','".toList := by
  decide

open Ford.Show Ford.InitialValue in
/-- non-vacuity: `[ 'a,b', "x;!&" // c ]` as `line_to_variables` records it -/
example :
    (initialValue ["'a,b'".toList, "\"x;!&\"".toList] "[\"0\",\"1\"//c]".toList).toOption
      = some "['a,b', \"x;!&\"//c]".toList := by decide

/-- The regular expressions whose deterministic readings the model's recognisers are
    (`comScan` for `COM_RE` and the doc-mark pattern; `Show.litEnd`/`searchQuote` for `QUOTES_RE`;
    `Show.commaSpace` for `COMMA_RE`; `Show.nbsp` for `NBSP_RE`) are the ones in the source: an
    edit of any of these patterns changes this obligation.  The patterns are compared in a normal form of their
    parsed structure (translate/c02.py `normal_form`: layout, escapes, transparent groups and - for the two comment
    patterns, of which the reader only asks where the last group starts - which of the other groups capture do not
    show), so a re-spelling that means the same does not. -/
theorem regex_sources_pinned :
    Generated.C02.regexSources = [
      ("ford.reader", "FortranReader.COM_RE", "^(?:[^!\"']|'[^']*'|\"[^\"]*\")*(!.*)$", 32),
      ("ford.reader", "_compile_docmark(@)", "^(?:[^!\"']|'[^']*'|\"[^\"]*\")*(!@.*)$", 32),
      ("ford.sourceform", "QUOTES_RE", "\"([^\"]|\"\")*\"|'([^']|'')*'", 34),
      ("ford.sourceform", "COMMA_RE", ",(?!\\s)", 32),
      ("ford.sourceform", "NBSP_RE", "\\ (?=\\ )|(?<=\\ )\\ ", 32)] := rfl

/-- **No character inside a closed literal moves the comment.**  After any comment-free,
    quote-closed prefix `p` and one more closed literal `q body q` - `body` being *any* characters
    other than `q`: `!`, `;`, `&`, the other quote, and in particular a backslash in last position,
    which is an ordinary character in Fortran and does not escape the closing quote - the next `!`
    starts the comment (or the doc comment with mark `mark` when the text after it starts with the
    mark), and the code part of the line is everything in front of it. -/
theorem comment_after_literal_any_contents (mark p cmt : Str) (q : Char) (body : Str) (hp : Atoms p)
    (hq : isQuote q = true) (hb : q ∉ body) (hm : startsWith cmt mark = true) :
    comScan mark (p ++ q :: body ++ [q] ++ '!' :: cmt) = some (p ++ q :: body ++ [q]).length ∧
    codeOf false (p ++ q :: body ++ [q] ++ '!' :: cmt) = strip (p ++ q :: body ++ [q]) :=
  ⟨(comScan_iff mark _ _).2 ⟨_, cmt, rfl, atoms_snoc_literal p q body hp hq hb, rfl, hm⟩,
   codeOf_outside_comment _ cmt (atoms_snoc_literal p q body hp hq hb)⟩

/-- non-vacuity: literals ending in a backslash, followed by a comment / an inline doc comment -/
example : comScan [] (chars! "s = '\\' ! sep") = some 8 := by decide
example : comScan ['!'] (chars! "r = \"C:\\\" !! root") = some 10 := by decide
example :
    (readAll Marks.default [chars! "s = '\\' ! sep", chars! "r = \"C:\\\" !! root"]).toOption =
      some [chars! "s = '\\'", chars! "r = \"C:\\\"", chars! "!! root"] := by decide

/-! ## the parser's second masking pass: cutting the literals out

  `maskLoop` is regenerated from ford/sourceform.py on every run (translate/c02.py). -/

open Ford.Show Ford.MaskPass in
/-- **The masking pass cuts a statement exactly at its literals, whatever they contain.**  For
    every statement made of code pieces (no quote characters) and well-formed character literals
    (any contents; two literals never adjacent), the loop at the top of
    `FortranContainer._initialize` records the literals in order in `self.strings` and leaves the
    statement with the k-th placeholder `"k"` standing exactly where the k-th literal stood - also
    when a literal's text is itself the spelling of a placeholder (`"0"`, `"1"`, ...), contains
    quotes of the other kind, doubled quotes, `!`, `;`, `&` or keywords. -/
theorem masking_pass_exact (ps : List SrcPiece) (hw : WellFormed ps) :
    prepLine false (srcText ps) = ⟨srcMasked ps 0, srcLits ps⟩ := by
  simp [prepLine, cutLits, cutGo_pieces ps 0 hw, segMasked_srcSegs, segStrings_srcSegs]

open Ford.Show Ford.MaskPass Ford.InitialValue in
/-- **Masking then re-inserting brings every literal back to its own place.**  Feeding what the
    masking pass produced to the re-insertion loop of `line_to_variables` returns the statement
    with the code pieces untouched and every literal whole where it stood (NBSP substitution only,
    `nbsp_reads_as_blank`): no literal is exchanged with another, dropped or duplicated. -/
theorem masked_literals_return_in_place (ps : List SrcPiece) (hw : WellFormed ps) :
    reinsert true true (prepLine false (srcText ps)).strings (prepLine false (srcText ps)).masked =
      .ok (srcShown ps) := by
  rw [masking_pass_exact ps hw]
  have h := reinsert_pieces (srcLits ps) (toPieces ps 0) (wellMasked_toPieces ps [] hw)
  rw [maskedText_toPieces] at h
  have e := restoredText_toPieces ps []
  simp only [List.nil_append, List.length_nil] at e
  rw [e] at h
  exact h

open Ford.Show in
/-- non-vacuity / the look-alike case: in `v = ["x", "0"]` the second literal spells the first
    placeholder; it is literal number 1 and stays at its place -/
example :
    prepLine false (chars! "v = [\"x\", \"0\"]") =
      ⟨chars! "v = [\"0\", \"1\"]", [chars! "\"x\"", chars! "\"0\""]⟩ := by decide

open Ford.Show Ford.MaskPass in
/-- why the replacement has to be positional: once `"x"` has become the placeholder `"0"`,
    replacing *the first occurrence of the text* of the next literal `"0"` rewrites that
    placeholder instead of the literal (the two literals would come back exchanged) -/
theorem first_occurrence_replacement_witness :
    replaceFirst (chars! "\"0\"") (maskOf 1) (chars! "v = [\"0\", \"0\"]") = chars! "v = [\"1\", \"0\"]" ∧
    (prepLine false (chars! "v = [\"x\", \"0\"]")).masked = chars! "v = [\"0\", \"1\"]" := by
  decide

/-- The masking loop whose deterministic reading `Show.cutGo` is (`search_from` = the scan
    position, `QUOTES_RE.search` = `litEnd`, the re-search after substitution = `verbExtra`) is the
    one in the source: an edit of the loop changes this obligation. -/
theorem mask_loop_pinned :
    Generated.C02.maskLoop = [
      "self.strings = []",
      "search_from = 0",
      "while (quote := QUOTES_RE.search(line[search_from:])):",
      "    self.strings.append(quote.group())",
      "    line = line[0:search_from] + QUOTES_RE.sub(f'\"{len(self.strings) - 1}\"', line[search_from:], count=1)",
      "    search_from += QUOTES_RE.search(line[search_from:]).end(0)"] := rfl

/-! ## include statements in the queue of `;`-separated statements

  `incPrologue`, `incEpilogue`, `popsGuarded` (together `Include.readerCfg`), `popSites` and `includeMethod` are regenerated from ford/reader.py on every run
  (translate/c02.py): which of the two pops of the queue in `FortranReader.__next__` is preceded by
  `self.include()` is read off the source, and the theorems are stated over that. -/

open Ford.Include in
/-- **An include statement is expanded wherever it stands on its line.**  Whatever statements the
    logical line just read was split into at its `;` (the queue `pending`), the reader - with
    `self.include()` called where the source calls it (`Include.readerCfg`) - returns, in order,
    every ordinary statement as it is and, for every include statement, the items of the file it
    names: first, last or in the middle of the line makes no difference, and neither does the number
    of statements or of includes.  `Expandable` asks that looking the file up does not fail and - only
    as long as the tree is the unrepaired variant (`guarded = false`, finding
    C02-include-without-statements; for the repaired tree the hypothesis asks nothing more) - that the
    file gives at least one item. -/
theorem include_expanded_wherever_it_stands_partial (resolve : Str → Res) (pending : List Str)
    (h : ∀ p ∈ pending, Expandable Include.readerCfg.guarded Include.readerCfg.kwLoose resolve p) :
    drain Include.readerCfg resolve .epilogue pending =
      .ok (pending.flatMap (expand1 Include.readerCfg.kwLoose resolve)) :=
  drain_eq_flatMap _ resolve rfl rfl pending .epilogue (by decide) h

open Ford.Include in
/-- **`;` or new line: the same items.**  Statements `a` followed by statements `b` on one logical
    line (separated by `;`) give exactly what `a` on one line and `b` on the next give, include
    statements in either of them expanded. -/
theorem semicolon_or_newline_same_includes_partial (resolve : Str → Res) (a b : List Str)
    (ha : ∀ p ∈ a, Expandable Include.readerCfg.guarded Include.readerCfg.kwLoose resolve p)
    (hb : ∀ p ∈ b, Expandable Include.readerCfg.guarded Include.readerCfg.kwLoose resolve p) :
    drain Include.readerCfg resolve .epilogue (a ++ b) =
      (do let x ← drain Include.readerCfg resolve .epilogue a
          let y ← drain Include.readerCfg resolve .epilogue b
          pure (x ++ y)) :=
  drain_append _ resolve rfl rfl a b ha hb

open Ford.Include in
/-- Statements that are not include statements pass through the queue untouched (no statement is
    taken for an include because of what it *contains*: only the first eight characters count). -/
theorem queue_without_includes_unchanged (resolve : Str → Res) (pending : List Str)
    (h : ∀ p ∈ pending, isIncludeStmt Include.readerCfg.kwLoose p = false) :
    drain Include.readerCfg resolve .epilogue pending = .ok pending :=
  drain_no_include _ resolve pending .epilogue (by decide) h

open Ford.Include in
/-- **The file name of an include statement is literal text.**  `include`, in any capitalisation,
    one blank, any further blanks, then the name between two equal quote characters: the statement is
    an include statement and the name looked up is exactly the text between the delimiters - blanks,
    `;`, `!`, `&`, the other quote character included.  Holds for the recognition as the source has
    it (`Include.readerCfg.kwLoose`, regenerated) - in fact for both variants. -/
theorem include_file_name_verbatim (kw ws name : Str) (q : Char) (hk : lower kw = chars! "include")
    (hws : isBlank ws = true) (hq : isQuote q = true) :
    isIncludeStmt Include.readerCfg.kwLoose (kw ++ ' ' :: ws ++ q :: name ++ [q]) = true ∧
    includeName Include.readerCfg.kwLoose (kw ++ ' ' :: ws ++ q :: name ++ [q]) = name :=
  include_stmt_name _ kw ws name q hk hws hq

open Ford.Include in
/-- ... and once the recognition is the repaired one (`INCLUDE_RE`, fixes/C02-include-keyword-separator.diff)
    the blank after the keyword is optional, as it is in Fortran: `include'f.inc'`, a tab, any white
    space.  As the code stands the hypothesis is false and `include_keyword_separator_witness` holds. -/
theorem include_blank_optional_partial (h : Include.readerCfg.kwLoose = true) (kw ws name : Str) (q : Char)
    (hk : lower kw = chars! "include") (hws : isBlank ws = true) (hq : isQuote q = true) :
    isIncludeStmt Include.readerCfg.kwLoose (kw ++ ws ++ q :: name ++ [q]) = true ∧
    includeName Include.readerCfg.kwLoose (kw ++ ws ++ q :: name ++ [q]) = name := by
  rw [h]
  exact include_stmt_name_loose kw ws name q hk hws hq

open Ford.Include in
/-- Known finding C02-include-keyword-separator, as the code stands (`kwLoose = false`): an include
    line whose keyword is followed by a tab or directly by the quote is not taken for one (and a
    statement that merely starts with the word, `include = 3`, is); the repaired recognition gets
    all three right. -/
theorem include_keyword_separator_witness :
    isIncludeStmt false (chars! "include\t'f.inc'") = false ∧ isIncludeStmt false (chars! "INCLUDE'f.inc'") = false ∧
    isIncludeStmt false (chars! "include = 3") = true ∧
    isIncludeStmt true (chars! "include\t'f.inc'") = true ∧ isIncludeStmt true (chars! "INCLUDE'f.inc'") = true ∧
    isIncludeStmt true (chars! "include = 3") = false ∧
    includeName true (chars! "include\t'f.inc'") = chars! "f.inc" := by
  decide

open Ford.Include in
/-- why both pops have to look: when only the pop at the bottom of `__next__` calls `include()`, an
    include statement that is not the first of its line is returned unexpanded -/
theorem include_after_semicolon_witness :
    (drain { incPrologue := false, incEpilogue := true, guarded := false, kwLoose := false }
        (fun n => if n == chars! "f.inc" then .items [chars! "y = 2"] else .failed .notFound) .epilogue
        [chars! "x = 1", chars! "include 'f.inc'"]).toOption = some [chars! "x = 1", chars! "include 'f.inc'"] ∧
    (drain { incPrologue := true, incEpilogue := true, guarded := false, kwLoose := false }
        (fun n => if n == chars! "f.inc" then .items [chars! "y = 2"] else .failed .notFound) .epilogue
        [chars! "x = 1", chars! "include 'f.inc'"]).toOption = some [chars! "x = 1", chars! "y = 2"] := by
  decide

open Ford.Include in
/-- Known finding C02-include-without-statements, as the code stands (`guarded = false`): after an
    include of a file without statements the blind `pop(0)` raises when the statement was the last of
    its line, and otherwise returns the next statement unexamined - a second include stays
    unexpanded.  The re-testing variant (`guarded = true`) returns what the property asks for. -/
theorem include_without_statements_witness :
    (match drain { incPrologue := true, incEpilogue := true, guarded := false, kwLoose := false }
        (fun n => if n == chars! "e.inc" then .items [] else .items [chars! "y = 2"]) .epilogue
        [chars! "include 'e.inc'"] with
      | .error .popEmpty => true
      | _ => false) = true ∧
    (drain { incPrologue := true, incEpilogue := true, guarded := false, kwLoose := false }
        (fun n => if n == chars! "e.inc" then .items [] else .items [chars! "y = 2"]) .epilogue
        [chars! "include 'e.inc'", chars! "include 'f.inc'"]).toOption = some [chars! "include 'f.inc'"] ∧
    (drain { incPrologue := true, incEpilogue := true, guarded := true, kwLoose := false }
        (fun n => if n == chars! "e.inc" then .items [] else .items [chars! "y = 2"]) .epilogue
        [chars! "include 'e.inc'", chars! "include 'f.inc'"]).toOption = some [chars! "y = 2"] := by
  decide

/-- The two pops of the statement queue in `FortranReader.__next__` are the ones the model's `drain`
    is a reading of - in the shape the code has, or in the shape of the repaired variant
    (fixes/C02-include-without-statements.diff) - and **both are preceded by `self.include()`**: an
    edit of either place changes this obligation. -/
theorem queue_pops_pinned :
    (Generated.C02.popSites = [
      ("prologue", ["if len(self.pending) != 0:", "    self.include()", "    self.prevdoc = False",
                    "    return self.pending.pop(0)"]),
      ("epilogue", ["if len(self.pending) > 0:", "    self.include()", "    self.prevdoc = False",
                    "    return self.pending.pop(0)", "else: ..."])] ∧
     Include.readerCfg.incPrologue = true ∧ Include.readerCfg.incEpilogue = true ∧
     Include.readerCfg.guarded = false) ∨
    (Generated.C02.popSites = [
      ("prologue", ["if len(self.pending) != 0:", "    self.include()", "if len(self.pending) != 0:",
                    "    self.prevdoc = False", "    return self.pending.pop(0)"]),
      ("epilogue", ["if len(self.pending) > 0:", "    self.include()", "if len(self.pending) > 0:",
                    "    self.prevdoc = False", "    return self.pending.pop(0)",
                    "elif len(self.docbuffer) > 0: ...", "return next(self)"])] ∧
     Include.readerCfg.incPrologue = true ∧ Include.readerCfg.incEpilogue = true ∧
     Include.readerCfg.guarded = true) := by
  first | exact Or.inl ⟨rfl, rfl, rfl, rfl⟩ | exact Or.inr ⟨rfl, rfl, rfl, rfl⟩

/-- The method `FortranReader.include` whose reading `Include.isIncludeStmt` / `includeName` / `look`
    are (an include statement is a queued statement whose lower-cased text starts with `include `;
    the name is `[8:].strip()[1:-1]`; a missing `.h` file keeps the statement, any other missing file
    raises; the items of the nested reader are spliced in front of the queue) is the one in the
    source: as it stands, with fixes/C02-include-without-statements.diff, or with
    fixes/C02-include-keyword-separator.diff (which contains the former; the recognition then is
    `INCLUDE_RE = include\s*(?=['"])`, IGNORECASE - checked by the translator - and the name starts at `[7:]`);
    and the variant switches of the model are the ones that belong to that text. -/
theorem include_method_pinned :
    (Generated.C02.includeMethod = [
      "if len(self.pending) == 0 or not self.pending[0].lower().startswith('include '):",
      "    return",
      "curpending = self.pending.pop(0)",
      "name = curpending[8:].strip()[1:-1]",
      "for b in [os.path.dirname(self.name)] + self.inc_dirs:",
      "    pname = os.path.abspath(os.path.expanduser(os.path.join(b, name)))",
      "    if os.path.isfile(pname):",
      "        name = pname",
      "        break",
      "else:",
      "    msg = f'Can not find include file \"{name}\"'",
      "    if name.endswith('.h'):",
      "        warn(msg)",
      "        self.pending = [curpending] + self.pending",
      "        return",
      "    raise FileNotFoundError(msg)",
      "self.pending = list(FortranReader(name, self.docmark, self.predocmark, self.docmark_alt, self.predocmark_alt, self.fixed, self.length_limit, inc_dirs=self.inc_dirs, encoding=self.encoding)) + self.pending"] ∧
     Include.readerCfg.guarded = false ∧ Include.readerCfg.kwLoose = false) ∨
    (Generated.C02.includeMethod = [
      "while len(self.pending) > 0 and self.pending[0].lower().startswith('include '):",
      "    curpending = self.pending.pop(0)",
      "    name = curpending[8:].strip()[1:-1]",
      "    for b in [os.path.dirname(self.name)] + self.inc_dirs:",
      "        pname = os.path.abspath(os.path.expanduser(os.path.join(b, name)))",
      "        if os.path.isfile(pname):",
      "            name = pname",
      "            break",
      "    else:",
      "        msg = f'Can not find include file \"{name}\"'",
      "        if name.endswith('.h'):",
      "            warn(msg)",
      "            self.pending = [curpending] + self.pending",
      "            return",
      "        raise FileNotFoundError(msg)",
      "    included = list(FortranReader(name, self.docmark, self.predocmark, self.docmark_alt, self.predocmark_alt, self.fixed, self.length_limit, inc_dirs=self.inc_dirs, encoding=self.encoding))",
      "    self.pending = included + self.pending",
      "    if len(included) > 0:",
      "        return"] ∧
     Include.readerCfg.guarded = true ∧ Include.readerCfg.kwLoose = false) ∨
    (Generated.C02.includeMethod = [
      "while len(self.pending) > 0 and self.INCLUDE_RE.match(self.pending[0]):",
      "    curpending = self.pending.pop(0)",
      "    name = curpending[7:].strip()[1:-1]",
      "    for b in [os.path.dirname(self.name)] + self.inc_dirs:",
      "        pname = os.path.abspath(os.path.expanduser(os.path.join(b, name)))",
      "        if os.path.isfile(pname):",
      "            name = pname",
      "            break",
      "    else:",
      "        msg = f'Can not find include file \"{name}\"'",
      "        if name.endswith('.h'):",
      "            warn(msg)",
      "            self.pending = [curpending] + self.pending",
      "            return",
      "        raise FileNotFoundError(msg)",
      "    included = list(FortranReader(name, self.docmark, self.predocmark, self.docmark_alt, self.predocmark_alt, self.fixed, self.length_limit, inc_dirs=self.inc_dirs, encoding=self.encoding))",
      "    self.pending = included + self.pending",
      "    if len(included) > 0:",
      "        return"] ∧
     Include.readerCfg.guarded = true ∧ Include.readerCfg.kwLoose = true) := by
  first
  | exact Or.inl ⟨rfl, rfl, rfl⟩
  | exact Or.inr (Or.inl ⟨rfl, rfl, rfl⟩)
  | exact Or.inr (Or.inr ⟨rfl, rfl, rfl⟩)

open Ford.Include in
/-- non-vacuity, through the whole reader: `x = 1; include 'f.inc'; z = 3 !! dz` with `f.inc` =
    `y = 'a;b ! c' !! dy` / `include "g.inc"` and `g.inc` = `w = 4` reads as the statements of the three
    files in place, the doc lines where they belong; one statement per line gives the same items -/
example :
    (readFS Include.readerCfg Marks.default
      [(chars! "f.inc", [chars! "y = 'a;b ! c' !! dy", chars! "  include \"g.inc\" ! nested"]),
       (chars! "g.inc", [chars! "w = 4"])] 3
      [chars! "x = 1; include 'f.inc'; z = 3 !! dz"]).toOption =
      some [chars! "x = 1", chars! "y = 'a;b ! c'", chars! "!! dy", chars! "w = 4", chars! "z = 3", chars! "!! dz"] ∧
    (readFS Include.readerCfg Marks.default
      [(chars! "f.inc", [chars! "y = 'a;b ! c' !! dy", chars! "  include \"g.inc\" ! nested"]),
       (chars! "g.inc", [chars! "w = 4"])] 3
      [chars! "x = 1", chars! "INCLUDE   'f.inc'", chars! "z = 3 !! dz"]).toOption =
      some [chars! "x = 1", chars! "y = 'a;b ! c'", chars! "!! dy", chars! "w = 4", chars! "z = 3", chars! "!! dz"] := by
  decide

/-- Historical witness of the defect repaired by the `fix:` commit 389e6bb: the old
    previous-character test called the closed literal `''` unterminated; the
    two-state scanner the code uses now does not. -/
theorem untermOld_witness :
    untermOld "''".toList false none none = true ∧ unterminated "''".toList = false := by decide


/-! ## Round 6: the iterator protocol (`__next__` call by call, `pass_back`, `read_docstring`) -/

/-- The stepwise model reads a physical line with the very text of the batch model: `Include.feedI`
    *is* `Include.feedG` with the batch tail (`feedTailI`) plugged in, so every theorem above about
    how a logical line is assembled (continuations, comments, literals, the `;` split) speaks about
    the loop the iterator protocol runs. -/
theorem line_step_shared_with_batch_model (c : Include.Cfg) (resolve : Str → Include.Res) (m : Marks)
    (s : RS) (l : Str) :
    Include.feedI c resolve m s l = Include.feedG [] (Include.feedTailI c resolve m) m s l := rfl

/-- Separating statements with `;` - what is queued is served in line order: with the chain at the top
    of `__next__` in the order the source has, a queued statement that is not an include line is the
    next item, whatever is in `docbuffer`, and the rest of the queue stays as it is. -/
theorem queued_statement_is_served_first (c : Include.Cfg) (resolve : Str → Include.Res) (m : Marks)
    (st : PassBack.St) (p : Str) (rest : List Str) (hq : st.pending = p :: rest)
    (hp : Include.look c.kwLoose resolve p = .keep) :
    PassBack.next c resolve m PassBack.readerOrder st
      = .ok (some (p, { st with rs := { st.rs with prevdoc := false }, pending := rest })) := by
  have ho : PassBack.readerOrder = [.pending, .docbuffer] := by decide
  cases hi : c.incPrologue <;>
    simp [PassBack.next, PassBack.serve, PassBack.popPending, PassBack.includeCall, ho, hq, hp, hi]

/-- Look-ahead is invisible: a statement handed back with `pass_back` - where the source puts it
    (`readerFront`, regenerated) - is the very next item and the reader is then in the state in which
    it was when it first returned that statement: queue, doc buffer and `prevdoc` included, so nothing
    that follows (the other statements of a `;` line, their docs, blank-line handling) can change.
    Hypotheses: the statement is not an include line that `include()` would expand when it sees it a
    second time, and it was returned as a statement (`prevdoc = false` afterwards). -/
theorem handed_back_statement_is_returned_next (c : Include.Cfg) (resolve : Str → Include.Res) (m : Marks)
    (st : PassBack.St) (x : Str) (hx : Include.look c.kwLoose resolve x = .keep)
    (hp : st.rs.prevdoc = false) :
    PassBack.next c resolve m PassBack.readerOrder (PassBack.passBack PassBack.readerFront st x)
      = .ok (some (x, st)) := by
  have hf : PassBack.readerFront = true := by decide
  rw [queued_statement_is_served_first c resolve m _ x st.pending (by simp [PassBack.passBack, hf]) hx]
  obtain ⟨rs, pending, lines⟩ := st
  obtain ⟨db, pd, ra, co, rp, rpa, lb⟩ := rs
  simp_all [PassBack.passBack]

/-- `;` and look-ahead together: a consumer that takes the queued statements of a logical line one by
    one and - before any of them, in any pattern `peeks` - looks ahead (takes the item and hands it
    back, as `read_docstring` does after every statement that can carry documentation) receives
    exactly the statements of the line, each once, in line order.  Unbounded in the number of
    statements and of look-aheads; `a; b; c` is read like `a` / `b` / `c` by the parser too. -/
theorem semicolon_statements_reach_a_look_ahead_consumer_in_order (c : Include.Cfg)
    (resolve : Str → Include.Res) (m : Marks) (q : List Str)
    (hq : ∀ p ∈ q, Include.look c.kwLoose resolve p = .keep) :
    ∀ (peeks : List Bool) (st : PassBack.St), peeks.length = q.length → st.pending = q →
      PassBack.consume c resolve m PassBack.readerOrder PassBack.readerFront peeks st = .ok q := by
  induction q with
  | nil => intro peeks st hl _; cases peeks <;> simp_all [PassBack.consume]
  | cons p rest ih =>
    intro peeks st hl hst
    cases peeks with
    | nil => simp at hl
    | cons pk more =>
      have hp := hq p (by simp)
      have hr : ∀ p ∈ rest, Include.look c.kwLoose resolve p = .keep := fun p h => hq p (by simp [h])
      have hl' : more.length = rest.length := by simpa using hl
      have h1 := ih hr more { st with rs := { st.rs with prevdoc := false }, pending := rest } hl' rfl
      have h2 := handed_back_statement_is_returned_next c resolve m
        { st with rs := { st.rs with prevdoc := false }, pending := rest } p hp rfl
      rw [PassBack.consume, queued_statement_is_served_first c resolve m st p rest hst hp]
      cases pk
      · simp [h1, Except.map]
      · simp [h1, h2, Except.map]

/-- `read_docstring` as the source has it (`collectDocs` + `pass_back`): when its loop stopped at the
    statement `x` (the doc lines in front of it collected, marks cut off), the reader it leaves
    returns `x` next and is then where plain iteration would be after `x` - the parser's look-ahead
    consumes doc lines only. -/
theorem read_docstring_hands_the_statement_back (c : Include.Cfg) (resolve : Str → Include.Res) (m : Marks)
    (fuel : Nat) (st st' : PassBack.St) (ds : List Str) (x : Str)
    (h : PassBack.collectDocs c resolve m PassBack.readerOrder fuel st = .ok (some (ds, x, st')))
    (hx : Include.look c.kwLoose resolve x = .keep) (hp : st'.rs.prevdoc = false) :
    ∃ st'', PassBack.readDocstring c resolve m PassBack.readerOrder PassBack.readerFront fuel st
              = .ok (some (ds, st'')) ∧
            PassBack.next c resolve m PassBack.readerOrder st'' = .ok (some (x, st')) :=
  ⟨PassBack.passBack PassBack.readerFront st' x, by simp [PassBack.readDocstring, h],
   handed_back_statement_is_returned_next c resolve m st' x hx hp⟩

/-- Why the place matters (and why it is a regenerated switch): with the handed-back line put *behind*
    the queue, the consumer that looks ahead once on `a; b; c` receives `b`, `c`, `a`. -/
theorem pass_back_behind_the_queue_reorders_witness :
    (PassBack.consume ⟨true, true, true, true⟩ (fun _ => .missingH) Marks.default [.pending, .docbuffer] false
      [true, false, false] { rs := {}, pending := [['a'], ['b'], ['c']], lines := [] }).toOption
      = some [['b'], ['c'], ['a']] := by decide

/-- ... and with the chain at the top of `__next__` in the other order a doc line queued for `a`
    (`a !! da; b` read ahead) overtakes the statement that was handed back. -/
theorem docbuffer_before_queue_reorders_witness :
    (PassBack.consume ⟨true, true, true, true⟩ (fun _ => .missingH) Marks.default [.docbuffer, .pending] true
      [true, false] { rs := { docbuffer := [['!', '!', 'd']] }, pending := [['a'], ['b']], lines := [] }).toOption
      = some [['!', '!', 'd'], ['a']] := by decide

/-- The protocol the model above is a reading of is the one in the source: the chain at the top of
    `__next__` serves `pending` before `docbuffer` and nothing else (as it stands, or in the shape of
    fixes/C02-include-without-statements.diff),
    `pass_back` is `self.pending.insert(0, line)`, and `read_docstring` is the loop `collectDocs` reads
    followed by one `pass_back`. -/
theorem iterator_protocol_pinned :
    Generated.C02.queueOrder = ["pending", "docbuffer"] ∧
    (Generated.C02.nextHead = [
       "if len(self.pending) != 0:", "    self.include()", "if len(self.pending) != 0:",
       "    self.prevdoc = False", "    return self.pending.pop(0)",
       "elif len(self.docbuffer) != 0:", "    self.prevdoc = True", "    return self.docbuffer.pop(0)"] ∨
     Generated.C02.nextHead = [
       "if len(self.pending) != 0:", "    self.include()",
       "    self.prevdoc = False", "    return self.pending.pop(0)",
       "elif len(self.docbuffer) != 0:", "    self.prevdoc = True", "    return self.docbuffer.pop(0)"]) ∧
    Generated.C02.passBackMethod = ["self.pending.insert(0, line)"] ∧
    Generated.C02.passBackFront = true ∧
    Generated.C02.readDocstring = [
      "docstring = []", "docmark = f'!{docmark}'", "length = len(docmark)",
      "while (line := next(source)).startswith(docmark):", "    docstring.append(line[length:])",
      "source.pass_back(line)", "return docstring"] := by
  refine ⟨rfl, ?_, rfl, rfl, rfl⟩
  first | exact Or.inl rfl | exact Or.inr rfl

/-- Non-vacuity, through the whole stepwise reader: `x = 1; y = 'a;b'; z = 3 !! dz` followed by a doc
    line, read with a look-ahead before every item, gives the three statements in order and then
    the doc lines. -/
example :
    (PassBack.consume Include.readerCfg (fun _ => .missingH) Marks.default PassBack.readerOrder PassBack.readerFront
      [true, true, true, false, false]
      { rs := {}, pending := [], lines := [chars! "x = 1; y = 'a;b'; z = 3 !! dz", chars! "  !! more"] }).toOption
      = some [chars! "x = 1", chars! "y = 'a;b'", chars! "z = 3", chars! "!! dz", chars! "!! more"] := by decide


/-- The batch model and the iterator agree on the queue: whatever `Include.drain` (the model every
    include / `;` theorem above is about) returns for a queue, the reader returns item by item, one
    `__next__` after the other, re-examining the head of the queue with `include()` on every call -
    for any number of statements, includes and nested items.  For the tree as it is read by the
    translator with the re-testing pops (`guarded`), `include()` in front of the top pop, and under
    the hypothesis that an item which came out of an included file is left alone when `include()`
    sees it a second time (in a flat file system: an include statement survives a nested reader only
    for a missing `.h` file, which is missing for the outer reader too). -/
theorem queue_call_by_call_is_batch_drain_partial (c : Include.Cfg) (resolve : Str → Include.Res)
    (hg : c.guarded = true) (hi : c.incPrologue = true)
    (hs : ∀ p l, Include.look c.kwLoose resolve p = .splice l →
            ∀ y ∈ l, Include.look c.kwLoose resolve y = .keep)
    (q out : List Str) (h : Include.drain c resolve .prologue q = .ok out) :
    PassBack.Drains c resolve true q out :=
  PassBack.drains_of_drain c resolve hg hi hs q out h

/-- non-vacuity of the hypotheses and the conclusion: `x = 1; include 'f.inc'; z = 3` with `f.inc`
    yielding two items -/
example :
    PassBack.Drains ⟨true, true, true, true⟩
      (fun n => if n == chars! "f.inc" then .items [chars! "y = 2", chars! "!! dy"] else .missingH) true
      [chars! "x = 1", chars! "include 'f.inc'", chars! "z = 3"]
      [chars! "x = 1", chars! "y = 2", chars! "!! dy", chars! "z = 3"] :=
  .step (rest := [chars! "include 'f.inc'", chars! "z = 3"]) (by rfl)
    (.step (rest := [chars! "!! dy", chars! "z = 3"]) (by rfl)
      (.step (rest := [chars! "z = 3"]) (by rfl) (.step (rest := []) (by rfl) (.done (by rfl)))))


/-- What becomes of a completed logical line is what `tailRaw` / `feedTailI` read: the buffer as it
    is goes to the quote-aware split (`quoteSplit_lexical`: a `;` inside a literal never separates),
    the non-empty pieces are stripped and queued - nothing else looks at or rewrites the text between
    the continuation joining and the split. -/
theorem split_site_pinned :
    Generated.C02.splitSite = [
      "frags = ford.utils.quote_split(';', linebuffer)",
      "self.pending.extend([s.strip() for s in frags if len(s) > 0])"] := rfl


/-- The doc lines of a logical line come after all of its statements: while statements are queued
    nothing is taken from the doc buffer (`queued_statement_is_served_first`), and once the queue is
    empty the buffered doc lines are returned one per call, in order, before anything new is read -
    so `a; b !! d` gives `a`, `b`, `!! d` however many statements the line has. -/
theorem buffered_doc_is_served_after_the_queue (c : Include.Cfg) (resolve : Str → Include.Res) (m : Marks)
    (st : PassBack.St) (d : Str) (ds : List Str) (hq : st.pending = []) (hd : st.rs.docbuffer = d :: ds) :
    PassBack.next c resolve m PassBack.readerOrder st
      = .ok (some (d, { st with rs := { st.rs with docbuffer := ds, prevdoc := true }, pending := [] })) := by
  have ho : PassBack.readerOrder = [.pending, .docbuffer] := by decide
  simp [PassBack.next, PassBack.serve, PassBack.popPending, ho, hq, hd]

/-- `read_docstring` called where no documentation follows (the next item is a queued statement)
    returns no doc line and leaves the reader exactly as it was: the look-ahead the parser makes
    after *every* declaration, procedure or type statement costs nothing when `;` put the next
    statement on the same line. -/
theorem read_docstring_without_docs_changes_nothing (c : Include.Cfg) (resolve : Str → Include.Res)
    (m : Marks) (fuel : Nat) (st : PassBack.St) (p : Str) (rest : List Str) (hq : st.pending = p :: rest)
    (hp : Include.look c.kwLoose resolve p = .keep) (hn : startsWith p ('!' :: m.doc) = false)
    (hpd : st.rs.prevdoc = false) :
    PassBack.readDocstring c resolve m PassBack.readerOrder PassBack.readerFront (fuel + 1) st
      = .ok (some ([], st)) := by
  have hf : PassBack.readerFront = true := by decide
  simp only [PassBack.readDocstring, PassBack.collectDocs,
    queued_statement_is_served_first c resolve m st p rest hq hp, hn]
  obtain ⟨rs, pending, lines⟩ := st
  obtain ⟨db, pd, ra, co, rp, rpa, lb⟩ := rs
  simp_all [PassBack.passBack]


/-- The reader as the parser uses it and the reader as the theorems above model it are the same
    reader: for every file (any number of physical lines, continuations, doc blocks, `;` lines,
    includes), when the batch model `readFromI` - the fold all layout, literal and include theorems
    are about - gives the list `items`, successive calls of `__next__` (the if/elif chain in the
    regenerated order, `include()` re-examining the head of the queue on every call, the doc buffer
    after the queue, the loop entered again only when both are empty) return exactly `items`, one
    per call, and then StopIteration.  For the tree with the re-testing pops and `include()` in front
    of both pops (what the translator reads today), under the hypothesis that an item which came out
    of an included file is left alone when `include()` sees it again (see
    `queue_call_by_call_is_batch_drain_partial`). -/
theorem iteration_call_by_call_is_batch_read_partial (c : Include.Cfg) (resolve : Str → Include.Res)
    (m : Marks) (hg : c.guarded = true) (hi : c.incPrologue = true) (he : c.incEpilogue = true)
    (hs : ∀ p l, Include.look c.kwLoose resolve p = .splice l →
            ∀ y ∈ l, Include.look c.kwLoose resolve y = .keep)
    (lines items : List Str) (h : Include.readFromI c resolve m {} lines = .ok items) :
    PassBack.Yields c resolve m PassBack.readerOrder { rs := {}, pending := [], lines := lines } items := by
  have ho : PassBack.readerOrder = PassBack.ord := by decide
  rw [ho]
  apply PassBack.after_to_yields
  have hn : PassBack.next c resolve m PassBack.ord { rs := {}, pending := [], lines := lines }
      = PassBack.readOn c resolve m {} lines := by
    simp [PassBack.next, PassBack.serve, PassBack.ord, PassBack.popPending, PassBack.resetLocals]
  rw [hn]
  exact PassBack.readOn_yields_batch c resolve m hg hi he hs lines {} items h

/-- the hypotheses about the tree hold for the tree the translator read -/
theorem iteration_theorem_applies_to_this_tree_partial
    (h : Generated.C02.popsGuarded = true) :
    Include.readerCfg.guarded = true ∧ Include.readerCfg.incPrologue = true ∧
    Include.readerCfg.incEpilogue = true := by
  refine ⟨h, ?_, ?_⟩ <;> first | rfl | decide


/-- **Layout invariance for the consumer FORD really has.**  For every file: when the batch model
    gives `items`, a consumer that takes the items one by one and looks ahead - takes an item and
    hands it back with `pass_back` - before any items that are not doc lines, in any pattern
    (`read_docstring` after every statement is one such pattern), receives exactly `items`, in
    order, each once.  So everything proved above about the batch list - `&` continuations, `;`,
    comments, blank lines, literals, includes - holds for what the parser sees.  Same hypotheses as
    `iteration_call_by_call_is_batch_read_partial`, plus: a statement that is looked at is not an
    include line `include()` would expand on second sight.  The proof carries the invariant "every
    buffered doc line starts with `!` + docmark" through the loop body (`Lemmas/PassBack.lean:
    feedFront_docs` …), from which an item that is not a doc line was popped from the statement queue. -/
theorem look_ahead_consumer_receives_batch_list_partial (c : Include.Cfg) (resolve : Str → Include.Res)
    (m : Marks) (hg : c.guarded = true) (hi : c.incPrologue = true) (he : c.incEpilogue = true)
    (hs : ∀ p l, Include.look c.kwLoose resolve p = .splice l →
            ∀ y ∈ l, Include.look c.kwLoose resolve y = .keep)
    (lines items : List Str) (h : Include.readFromI c resolve m {} lines = .ok items)
    (hk : ∀ x ∈ items, startsWith x ('!' :: m.doc) = false → Include.look c.kwLoose resolve x = .keep)
    (peeks : List Bool) (hl : peeks.length = items.length)
    (hz : ∀ p ∈ peeks.zip items, p.1 = true → startsWith p.2 ('!' :: m.doc) = false) :
    PassBack.consume c resolve m PassBack.readerOrder PassBack.readerFront peeks
      { rs := {}, pending := [], lines := lines } = .ok items := by
  have ho : PassBack.readerOrder = PassBack.ord := by decide
  have hf : PassBack.readerFront = true := by decide
  have hy := iteration_call_by_call_is_batch_read_partial c resolve m hg hi he hs lines items h
  rw [ho] at hy ⊢
  rw [hf]
  exact PassBack.consume_of_yields c resolve m _ items hy (by intro d hd; simp at hd) hk peeks hl hz

end Ford.C02
