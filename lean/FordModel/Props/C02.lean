/-
  C02 — statement and doc extraction depends only on Fortran lexical rules.
  Property theorems only; helper lemmas live in FordModel/Lemmas.
-/
import FordModel.Reader
import FordModel.Lemmas.Split
import FordModel.Lemmas.Reader
namespace Ford.C02
open Ford

/-- `quote_split` loses nothing: re-joining the pieces with the separator gives
    the input back, for every string and separator. -/
theorem quoteSplit_join (sep : Char) (s : Str) : joinSep sep (quoteSplit sep s) = s := by
  simp [quoteSplit, join_qsplitAux]

/-- `quote_split` (two flags, two-character look-ahead for doubled quotes) splits
    exactly where Fortran's lexical scanner is outside a character literal: it
    equals the one-state-machine specification `splitSpec` for every input, so a
    `;` (or `,`) inside a literal - whatever else the literal contains: the other
    quote, doubled quotes, `!`, `&` - never separates statements, and one outside
    always does. -/
theorem quoteSplit_lexical (sep : Char) (hs : isQuote sep = false) (s : Str) :
    quoteSplit sep s = splitSpec sep s .out [] :=
  qsplitAux_eq_spec sep hs s false false [] .out .out

/-- The comment / doc-mark pattern `^([^"'!]|'[^']*'|"[^"]*")*(!MARK.*)$` has the
    deterministic reading `comScan`: the scanner returns `i` iff the pattern can
    match with its last group starting at `i`. -/
theorem comScan_iff (mark l : Str) (i : Nat) : comScan mark l = some i ↔ ComMatch mark l i := by
  constructor
  · intro h
    obtain ⟨p, s, hl, hp, hi, hs⟩ := comScanAux_some mark l .out 0 i h
    exact ⟨p, s, hl, hp, by omega, hs⟩
  · rintro ⟨p, s, hl, hp, hi, hs⟩
    subst hl
    simp [comScan, comScanAux_of_atoms mark p s 0 hp, hs, hi]

/-- ... hence the match is unique: it does not depend on how the regex engine
    explores the alternatives, and only the first `!` outside the quote atoms
    can start a comment or doc comment. -/
theorem comMatch_unique (mark l : Str) (i j : Nat) (hi : ComMatch mark l i) (hj : ComMatch mark l j) :
    i = j := by
  have h1 := (comScan_iff mark l i).2 hi
  have h2 := (comScan_iff mark l j).2 hj
  rw [h1] at h2
  exact Option.some.inj h2

/-- A `!` inside a closed literal is never a comment start; the first one outside is. -/
example : comScan [] "x = 'a!b' ! c".toList = some 10 := by decide
example : comScan ['!'] "x = 'a!!b' !! c".toList = some 11 := by decide
/-- literal still open at the `!` : no match -/
example : comScan [] "x = 'a ! b".toList = none := by decide

/-- Historical witness of the defect repaired by the `fix:` commit 389e6bb: the old
    previous-character test called the closed literal `''` unterminated; the
    two-state scanner the code uses now does not. -/
theorem untermOld_witness :
    untermOld "''".toList false none none = true ∧ unterminated "''".toList = false := by decide

end Ford.C02
