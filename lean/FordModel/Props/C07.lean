/-
  C07 - cross-references resolve to the entity Fortran scoping designates.
  Property theorems only; the model is FordModel/Scope.lean (FORD's name tables as
  the code builds them), the specification FordModel/ScopeSpec.lean (innermost
  enclosing frame wins, sibling and nested frames are never consulted, no frame =>
  text), helper lemmas FordModel/Lemmas/Scope.lean.

  Variants of the model: `asIs` = ⟨alias := true, hostOverLocal := true⟩ is the code
  as found; `repaired` = ⟨false, false⟩ is the code after fixes/C07-*.diff.  The
  harness decides on every run which variant the working tree implements.
-/
import FordModel.Scope
import FordModel.ScopeSpec
import FordModel.Lemmas.Scope
import FordModel.Lemmas.ScopeUse
import FordModel.ScopeBlock
import FordModel.Lemmas.ScopeBlock
import FordModel.ScopeBind
import FordModel.Lemmas.ScopeBind
import FordModel.ScopeSub
import FordModel.Lemmas.ScopeSub
import FordModel.ScopeAccess
import FordModel.Lemmas.ScopeAccess
import FordModel.Generated.C07
namespace Ford.C07
open Ford Ford.Scope

/-! ### full strength (variant `repaired`) -/

/-- **resolution_correct.**  With copied host tables and local-over-host merging,
    every reference slot of a top-level unit and of all its nested scopes - for
    arbitrary nesting depth, arbitrary reuse of names, arbitrary USE statements -
    holds exactly what the specification designates: the entity of the innermost
    enclosing scope that declares or use-associates the name, and text when no
    enclosing scope does.  `treeOK` excludes only the prototype class of
    `proto_before_absint_witness` (procedure(...) whose name is an abstract interface
    inside and a procedure outside); type, parent-type, component, binding,
    finaliser, constructor and specific-procedure slots are unrestricted. -/
theorem resolution_correct (env : ModEnv) (s : Scope) (ok : treeOK env [] s = true) :
    corrUnit repaired env s = specScope env [] s := by
  simp [corrUnit, corr_repaired env s [] [] [] [] Rep.nil ok]

/-- the same for nested scopes in any context: the content of the slots of a scope
    depends only on the chain of its enclosing frames - not on sibling scopes, not
    on anything nested in them, not on the order of correlation - and the shared
    tables come back unchanged. -/
theorem no_sibling_leak (env : ModEnv) (s : Scope) (hostP a t : Table) (ch : List Frame)
    (h : Rep hostP a t ch) (ok : treeOK env ch s = true) :
    corr repaired env hostP a t s = (a, t, specScope env ch s) :=
  corr_repaired env s hostP a t ch h ok

/-- a module exports exactly its top-level frame (what USE sees is what the
    specification says is visible at module level) -/
theorem exports_are_frame (env : ModEnv) (s : Scope) :
    exportsOf env s = ⟨(frameOf env s).p, (frameOf env s).a, (frameOf env s).t⟩ := by
  cases s; rfl

/-- **inner declarations shadow host ones** in the specification: a frame that has
    the name decides, whatever the enclosing frames contain. -/
theorem inner_shadows_host (f : Frame) (ch : List Frame) (i : Nat) (ph : Phase) (n : Str) (e : Ent)
    (h : tget f.t (lower n) = some e) :
    specLookup (f :: ch) ⟨i, .ty, ph, n⟩ = some e := by
  simp [specLookup, chainGet, h]

/-- **unresolved stays text**: a name that no enclosing frame has, in any of its
    tables, denotes nothing - whatever is declared under that name elsewhere. -/
theorem unresolved_stays_text (ch : List Frame) (s : Slot)
    (h : ∀ f ∈ ch, tget f.p (lower s.name) = none ∧ tget f.a (lower s.name) = none ∧ tget f.t (lower s.name) = none) :
    specLookup ch s = none := by
  induction ch with
  | nil => cases hk : s.kind <;> simp [specLookup, hk, chainGet, chainGetPA]
  | cons f r ih =>
    have hf := h f (by simp)
    have hr := ih (fun g hg => h g (by simp [hg]))
    cases hk : s.kind <;> simp_all [specLookup, chainGet, chainGetPA]

/-- letter case: a slot is looked up under its lower-cased name, so two spellings
    of one Fortran name always denote the same entity. -/
theorem case_insensitive (tb : Tabs) (i j : Nat) (k : SK) (ph ph' : Phase) (n m : Str)
    (h : lower n = lower m) : lookupSlot tb ⟨i, k, ph, n⟩ = lookupSlot tb ⟨j, k, ph', m⟩ := by
  simp [lookupSlot, h]

/-! ### use association: what one USE statement makes visible, and under which name

  The frames of the specification are built from `importTable` (the model of
  `FortranModule.get_used_entities`); the theorems below tie `importTable` to Fortran's rule
  `useDenotes`, which is written without reference to the mechanism (no dict, no iteration
  order): a renamed entity is accessible by its local name and by nothing else. -/

/-- **use_association_correct.**  For every USE statement - without list, with renames, with an
    ONLY list with or without renames, any spelling - and every name `n`: what the statement
    enters into the using scope's table under `n` is exactly the entity Fortran's rule designates
    (the module's entity `r` for a local name `n => r`; nothing for a name not on an ONLY list;
    nothing for the module's name of an entity that was renamed away; the module's entity `n`
    otherwise).  `useOK` excludes only statements that are ambiguous (one entity given two local
    names, one local name given to two entities, a rename onto the name of another accessible
    entity of the same module). -/
theorem use_association_correct (pub : Table) (m : Str) (only : Bool) (items : List (Str × Str)) (n : Str)
    (ok : useOK pub ⟨m, only, items⟩ = true) :
    tget (importTable pub ⟨m, only, items⟩) n = useDenotes pub ⟨m, only, items⟩ n :=
  importTable_denotes pub m only items n ok

/-- **use_import_sound** (no hypothesis): whatever a USE statement makes visible under a name `n`
    is a public entity `k` of the used module, and `n` is the local name given to `k` on the
    statement or - only without ONLY and only if `k` is not renamed - `k` itself. -/
theorem use_import_sound (pub : Table) (m : Str) (only : Bool) (items : List (Str × Str)) (n : Str) (e : Ent)
    (h : tget (importTable pub ⟨m, only, items⟩) n = some e) :
    ∃ k, tget pub k = some e ∧
      ((n, k) ∈ useItems ⟨m, only, items⟩ ∨
        (only = false ∧ k = n ∧ ∀ l, (l, k) ∉ useItems ⟨m, only, items⟩)) := by
  obtain ⟨k, hk, hn⟩ := importTable_sound pub ⟨m, only, items⟩ n e h
  exact ⟨k, hk, localName_cases m only items k n hn⟩

/-- **renamed_original_hidden** (no hypothesis on the module): the module-side name of a renamed
    entity, when it is not itself a local name on the statement, is NOT made visible by that
    statement - so in the using scope it keeps denoting the scope's own or its host's entity of
    that name, or nothing (text). -/
theorem renamed_original_hidden (pub : Table) (m : Str) (only : Bool) (items : List (Str × Str)) (n l : Str)
    (hren : (l, n) ∈ useItems ⟨m, only, items⟩) (hloc : ∀ r, (n, r) ∉ useItems ⟨m, only, items⟩) :
    tget (importTable pub ⟨m, only, items⟩) n = none := by
  cases hi : tget (importTable pub ⟨m, only, items⟩) n with
  | none => rfl
  | some e =>
    obtain ⟨k, _, h1 | ⟨_, hkn, hno⟩⟩ := use_import_sound pub m only items n e hi
    · exact absurd h1 (hloc k)
    · subst hkn; exact absurd hren (hno l)

/-- module m0 declares types ta (1), tb (2) and procedure pa (5).  Module m1 declares its own
    ta (3), does `use m0, te => ta, pe => pa` and refers to ta, te, tb, pa, pe (slots 0-4); its
    subroutine pb does `use m0, TE => TA` again and refers to ta, te (slots 5, 6). -/
def wRename : List (Bool × Scope) :=
  [(true, .mk ['m','0'] 0 false [] [⟨.ty, ['t','a'], 1⟩, ⟨.ty, ['t','b'], 2⟩] []
      (.cons (.mk ['p','a'] 5 false [] [] [] .nil) .nil)),
   (true, .mk ['m','1'] 6 false [⟨['m','0'], false, [(['t','e'], ['t','a']), (['p','e'], ['p','a'])]⟩]
      [⟨.ty, ['t','a'], 3⟩]
      [⟨0, .ty, .late, ['t','a']⟩, ⟨1, .ty, .late, ['t','e']⟩, ⟨2, .ty, .late, ['t','b']⟩,
       ⟨3, .pa, .late, ['p','a']⟩, ⟨4, .pa, .late, ['p','e']⟩]
      (.cons (.mk ['p','b'] 7 false [⟨['M','0'], false, [(['T','E'], ['T','A'])]⟩] []
        [⟨5, .ty, .late, ['t','a']⟩, ⟨6, .ty, .late, ['t','e']⟩] .nil) .nil))]

/-- **rename_keeps_own_entity_witness**: with the rename, `ta` is the using module's own type (3)
    - also from the nested procedure that renames again -, `te` is m0's (1), the untouched `tb`
    comes through (2), the renamed-away `pa` stays text and `pe` is m0's procedure; model (both
    variants) = specification. -/
theorem rename_keeps_own_entity_witness :
    (corrProject repaired [] wRename).map (·.2) = [some 3, some 1, some 3, some 1, some 2, none, some 5] ∧
      (corrProject asIs [] wRename).map (·.2) = (corrProject repaired [] wRename).map (·.2) ∧
      (specProject [] wRename).map (·.2) = (corrProject repaired [] wRename).map (·.2) := by decide

/-- non-vacuity of `useOK` and of the hypotheses of `renamed_original_hidden` -/
example : useOK [(['t','b'], 2), (['t','a'], 1)] ⟨['m','0'], false, [(['T','e'], ['t','A'])]⟩ = true ∧
    tget (importTable [(['t','b'], 2), (['t','a'], 1)] ⟨['m','0'], false, [(['T','e'], ['t','A'])]⟩) ['t','e'] = some 1 ∧
    tget (importTable [(['t','b'], 2), (['t','a'], 1)] ⟨['m','0'], false, [(['T','e'], ['t','A'])]⟩) ['t','a'] = none ∧
    tget (importTable [(['t','b'], 2), (['t','a'], 1)] ⟨['m','0'], false, [(['T','e'], ['t','A'])]⟩) ['t','b'] = some 2 := by
  decide
/-- the class `useOK` excludes: `use m0, tb => ta` where m0 also exports a tb -/
example : useOK [(['t','b'], 2), (['t','a'], 1)] ⟨['m','0'], false, [(['t','b'], ['t','a'])]⟩ = false := by decide

/-! ### what still holds for the code as found (variant `asIs`) -/

/-- **no_sibling_leak_partial.**  Sharing the host's dict objects is unobservable as
    long as no nested scope of the unit (at any depth) declares a derived type or an
    abstract interface or has a USE statement: the shared-table code and the
    copied-table code put the same entity in every slot (either procedure merge order). -/
theorem no_sibling_leak_partial (h : Bool) (env : ModEnv) (hostP a t : Table)
    (n : Str) (e : Ent) (f : Bool) (us : List Use) (ds : List Decl) (ss : List Slot) (ks : Kids)
    (hk : quietKids ks = true) :
    (corr ⟨true, h⟩ env hostP a t (.mk n e f us ds ss ks)).2.2 =
      (corr ⟨false, h⟩ env hostP a t (.mk n e f us ds ss ks)).2.2 :=
  corr_quietKids h env hostP a t n e f us ds ss ks hk

/-- **inner_shadows_host_partial.**  `all_procs.update(parent.all_procs)` (host over
    local) and the repaired merge (local over host) answer every lookup alike when
    no local procedure name is also a key of the host's table. -/
theorem inner_shadows_host_partial (lp hostP a t : Table) (s : Slot)
    (h : ∀ k ∈ lp, tget hostP k.1 = none) :
    lookupSlot ⟨hostP ++ lp, a, t⟩ s = lookupSlot ⟨lp ++ hostP, a, t⟩ s := by
  have key : ∀ n, tget (hostP ++ lp) n = tget (lp ++ hostP) n := by
    intro n
    simp only [tget_append]
    cases h1 : tget hostP n with
    | none => cases tget lp n <;> rfl
    | some x =>
      cases h2 : tget lp n with
      | none => rfl
      | some y =>
        exfalso
        have : ∃ k ∈ lp, k.1 = n := by
          clear h h1
          induction lp with
          | nil => simp [tget] at h2
          | cons z zs ih =>
            obtain ⟨k', e'⟩ := z
            by_cases hz : k' = n
            · exact ⟨(k', e'), by simp, hz⟩
            · simp only [tget, hz, ↓reduceIte] at h2
              obtain ⟨k, hk, hkn⟩ := ih h2
              exact ⟨k, by simp [hk], hkn⟩
        obtain ⟨k, hk, hkn⟩ := this
        have := h k hk
        rw [hkn, h1] at this
        cases this
  simp [lookupSlot, key]

/-! ### witnesses: the code as found violates the property -/

/-- module m0 / subroutine pa declares type ta / sibling subroutine pb has `type(ta) :: v1` -/
def wSibling : Scope :=
  .mk "m0".toList 0 false [] [] []
    (.cons (.mk "pa".toList 1 false [] [⟨.ty, "ta".toList, 3⟩] [] .nil)
      (.cons (.mk "pb".toList 2 false [] [] [⟨0, .ty, .late, "ta".toList⟩] .nil) .nil))

/-- **no_sibling_leak_witness**: the type local to `pa` is stored in the slot of its
    sibling `pb`, where Fortran sees no `ta` at all. -/
theorem no_sibling_leak_witness :
    (corrUnit asIs [] wSibling).map (·.2) = [some 3] ∧
      (specScope [] [] wSibling).map (·.2) = [none] ∧
      (corrUnit repaired [] wSibling).map (·.2) = [none] := by decide

/-- module m0 has `type(ta) :: v1` (slot 0) and contains subroutine pa which declares ta -/
def wChild : Scope :=
  .mk "m0".toList 0 false [] [] [⟨0, .ty, .late, "ta".toList⟩]
    (.cons (.mk "pa".toList 1 false [] [⟨.ty, "ta".toList, 2⟩] [] .nil) .nil)

/-- **child_leak_witness**: a declaration local to a nested (child) scope is visible
    to the variables of its host. -/
theorem child_leak_witness :
    (corrUnit asIs [] wChild).map (·.2) = [some 2] ∧ (specScope [] [] wChild).map (·.2) = [none] := by
  decide

/-- module m0 contains pa and pb; pb has an internal procedure pa and `procedure(pa), pointer :: v1` -/
def wShadow : Scope :=
  .mk "m0".toList 0 false [] [] []
    (.cons (.mk "pa".toList 1 false [] [] [] .nil)
      (.cons (.mk "pb".toList 2 false [] [] [⟨0, .pa, .late, "pa".toList⟩]
        (.cons (.mk "pa".toList 3 false [] [] [] .nil) .nil)) .nil))

/-- **inner_shadows_host_witness**: the host's procedure `pa` (1) is stored where
    Fortran designates the internal procedure `pa` (3). -/
theorem inner_shadows_host_witness :
    (corrUnit asIs [] wShadow).map (·.2) = [some 1] ∧
      (specScope [] [] wShadow).map (·.2) = [some 3] ∧
      (corrUnit repaired [] wShadow).map (·.2) = [some 3] := by decide

/-- module m0 contains pa and pb; pb declares an abstract interface pa and `procedure(pa), pointer :: v1` -/
def wProto : Scope :=
  .mk "m0".toList 0 false [] [] []
    (.cons (.mk "pa".toList 1 false [] [] [] .nil)
      (.cons (.mk "pb".toList 2 false [] [⟨.ab, "pa".toList, 3⟩] [⟨0, .pa, .late, "pa".toList⟩] .nil) .nil))

/-- **proto_before_absint_witness**: `all_procs` is consulted before
    `all_absinterfaces`, so the host's procedure wins over the abstract interface
    declared in the referencing scope - in both variants (the candidate repair does
    not cover this class; it is the class `treeOK` excludes). -/
theorem proto_before_absint_witness :
    (corrUnit asIs [] wProto).map (·.2) = [some 1] ∧
      (corrUnit repaired [] wProto).map (·.2) = [some 1] ∧
      (specScope [] [] wProto).map (·.2) = [some 3] ∧ treeOK [] [] wProto = false := by decide

/-- non-vacuity of `treeOK` / `quietKids`: the other witnesses satisfy the exclusions
    they are not about -/
example : treeOK [] [] wSibling = true ∧ treeOK [] [] wShadow = true := by decide
example : (match wShadow with | .mk _ _ _ _ _ _ ks => quietKids ks) = true := by decide

/-! ### BLOCK constructs: declarations local to a child scope are invisible

  FORD has no object for a BLOCK; its parser files a statement met inside a BLOCK in the lists of
  the enclosing unit unless the dispatcher branch is guarded by `blocklevel == 0`
  (`flatten reg`, FordModel/ScopeBlock.lean).  Specification: a reference outside a BLOCK denotes
  what it denotes in the program without its BLOCK constructs (`specBScope`). -/

/-- **block_local_invisible.**  When the dispatcher files neither USE statements nor derived types
    nor interface blocks of a BLOCK in the enclosing unit, then - for every variant, any nesting of
    procedures and of BLOCKs, any reuse of names, any host tables - every reference slot holds
    exactly what it holds in the program without its BLOCK constructs, and no block-local
    declaration becomes an entity of the enclosing unit. -/
theorem block_local_invisible (v : Variant) (env : ModEnv) (hostP a t : Table) (reg : BlockReg) (s : BScope)
    (hu : reg.use = false) (ht : reg.ty = false) (hi : reg.ifc = false) :
    corr v env hostP a t (flatten reg s) = corr v env hostP a t (eraseBlocks s) ∧ registered reg s = [] := by
  rw [flatten_none reg hu ht hi s]
  exact ⟨rfl, registered_none reg ht hi s⟩

/-- **resolution_correct_blocks.**  Variant `repaired` with every dispatcher branch guarded: all
    slots of a unit with BLOCK constructs (any depth) = the specification, in which a BLOCK is a
    child scope whose frame is on no reference's chain. -/
theorem resolution_correct_blocks (env : ModEnv) (s : BScope) (ok : treeOK env [] (eraseBlocks s) = true) :
    corrUnit repaired env (flatten BlockReg.none s) = specBScope env [] s := by
  rw [flatten_none BlockReg.none rfl rfl rfl s]
  exact resolution_correct env (eraseBlocks s) ok

/-- **block_local_invisible_partial** (code as found: the USE branch has no guard, whatever `use`
    is): as long as no BLOCK of the tree contains a USE statement, BLOCK constructs are
    unobservable - block-local derived types, interfaces and abstract interfaces shadow nothing and
    resolve nothing outside the BLOCK. -/
theorem block_local_invisible_partial (v : Variant) (env : ModEnv) (hostP a t : Table) (use : Bool) (s : BScope)
    (h : noBlockUse s = true) :
    corr v env hostP a t (flatten ⟨use, false, false⟩ s) = corr v env hostP a t (eraseBlocks s) ∧
      registered ⟨use, false, false⟩ s = [] := by
  rw [flatten_noBlockUse ⟨use, false, false⟩ rfl rfl s h]
  exact ⟨rfl, registered_none ⟨use, false, false⟩ rfl rfl s⟩

/-- module m0 declares type ta (1).  Module m1 contains subroutine pa with `type(ta) :: v` (slot 0),
    a BLOCK with `use m0`, and an internal subroutine pb with `type(ta) :: w` (slot 1). -/
def wBlockUse : List (Bool × BScope) :=
  [(true, .mk ['m','0'] 0 false [] [⟨.ty, ['t','a'], 1⟩] [] .nil .nil),
   (true, .mk ['m','1'] 2 false [] [] [] .nil
      (.cons (.mk ['p','a'] 3 false [] [] [⟨0, .ty, .late, ['t','a']⟩]
        (.cons (.mk [⟨['m','0'], false, []⟩] [] .nil) .nil)
        (.cons (.mk ['p','b'] 4 false [] [] [⟨1, .ty, .late, ['T','a']⟩] .nil .nil) .nil)) .nil))]

/-- **block_use_leak_witness**: the code as found links both references to m0's type although `ta`
    is use-associated inside the BLOCK only (Fortran: no visible declaration => text); with the USE
    branch guarded the model equals the specification. -/
theorem block_use_leak_witness :
    (corrBProject repaired BlockReg.asFound wBlockUse).map (·.2) = [some 1, some 1] ∧
      (specBProject wBlockUse).map (·.2) = [none, none] ∧
      (corrBProject repaired BlockReg.none wBlockUse).map (·.2) = [none, none] := by decide

/-- module m1 declares type ta (1) and contains subroutine pa with `type(ta) :: x` (slot 0),
    `type(tb) :: y` (slot 2), a BLOCK declaring its own types ta (5) and - in a nested BLOCK - tb (6),
    and an internal subroutine pb with `type(ta) :: w` (slot 1). -/
def wBlockType : List (Bool × BScope) :=
  [(true, .mk ['m','1'] 2 false [] [⟨.ty, ['t','a'], 1⟩] [] .nil
      (.cons (.mk ['p','a'] 3 false [] [] [⟨0, .ty, .late, ['t','a']⟩, ⟨2, .ty, .late, ['t','b']⟩]
        (.cons (.mk [] [⟨.ty, ['T','A'], 5⟩] (.cons (.mk [] [⟨.ty, ['t','b'], 6⟩] .nil) .nil)) .nil)
        (.cons (.mk ['p','b'] 4 false [] [] [⟨1, .ty, .late, ['t','a']⟩] .nil .nil) .nil)) .nil))]

/-- **block_type_leak_witness**: the guard of the derived-type branch is load-bearing - a dispatcher
    that files block-local type definitions in the enclosing procedure (`ty := true`) lets the BLOCK's
    `ta` shadow the module's in the procedure and in its internal procedure, and links `tb`, which
    has no visible declaration; the guarded dispatcher gives the specification. -/
theorem block_type_leak_witness :
    (corrBProject repaired ⟨false, true, false⟩ wBlockType).map (·.2) = [some 5, some 5, some 6] ∧
      (wBlockType.flatMap fun x => registered ⟨false, true, false⟩ x.2) = [5, 6] ∧
      (specBProject wBlockType).map (·.2) = [some 1, some 1, none] ∧
      (corrBProject repaired BlockReg.asFound wBlockType).map (·.2) = [some 1, some 1, none] := by decide

/-- non-vacuity of `noBlockUse`: the second witness has BLOCKs (nested) but no USE in them; the first has -/
example : (wBlockType.all fun x => noBlockUse x.2) = true ∧ (wBlockUse.all fun x => noBlockUse x.2) = false := by
  decide

/-! ### local procedure-like entities: dummy procedures, interface bodies

  A dummy procedure declared by an interface body, and an interface body inside a generic
  interface, are entities of the scope that contains the interface block: `FortranCodeUnit._cleanup`
  enters them into `all_procs` (model: a `.pr` declaration), and `FortranProcedure._cleanup`, which
  turns the interface body of a dummy procedure into the argument object, leaves that entry alone. -/

/-- **local_entity_shadows_host.**  Whatever the frame of a unit - its own declarations (nested
    procedures, interface bodies, dummy procedures declared by an interface body, generic
    interfaces) and its USE statements - has under a name decides every procedure reference of
    that name in the unit, whatever the host's table contains under it (repaired merge order). -/
theorem local_entity_shadows_host (env : ModEnv) (hostP a t : Table) (n : Str) (e : Ent) (f : Bool)
    (uses : List Use) (decls : List Decl) (slots : List Slot) (kids : Kids) (i : Nat) (ph : Phase) (r : Str) (x : Ent)
    (h : tget (frameOf env (.mk n e f uses decls slots kids)).p (lower r) = some x) :
    lookupSlot (unitTabs repaired env hostP a t uses decls kids) ⟨i, .pr, ph, r⟩ = some x ∧
      lookupSlot (unitTabs repaired env hostP a t uses decls kids) ⟨i, .pa, ph, r⟩ = some x := by
  have key : tget (unitTabs repaired env hostP a t uses decls kids).p (lower r) = some x := by
    simp only [unitTabs, repaired, Bool.false_eq_true, ↓reduceIte, applyUses_append, tget_append]
    simp only [frameOf] at h
    rw [h]
  simp [lookupSlot, key]

/-- module m0 contains subroutine pa (1) and subroutine pb(pa) (2) whose dummy procedure pa (3) is
    declared by an interface body; `procedure(pa)` is referenced in pb (slot 0), in pb's internal
    procedure pc (slot 1) and in pb's sibling pd (slot 2). -/
def wDummy : Scope :=
  .mk ['m','0'] 0 false [] [] []
    (.cons (.mk ['p','a'] 1 false [] [] [] .nil)
      (.cons (.mk ['p','b'] 2 false [] [⟨.pr, ['P','A'], 3⟩] [⟨0, .pa, .late, ['p','a']⟩]
        (.cons (.mk ['p','c'] 4 false [] [] [⟨1, .pa, .late, ['P','a']⟩] .nil) .nil))
        (.cons (.mk ['p','d'] 5 false [] [] [⟨2, .pa, .late, ['p','a']⟩] .nil) .nil)))

/-- **dummy_procedure_shadows_host_witness**: inside pb and its internal procedure the name denotes
    the dummy procedure (3), in the sibling the module procedure (1); model (either merge order
    would differ: see `inner_shadows_host_witness`) = specification.  Without the table entry of the
    dummy procedure both references would fall through to the host's procedure. -/
theorem dummy_procedure_shadows_host_witness :
    (corrUnit repaired [] wDummy).map (·.2) = [some 3, some 3, some 1] ∧
      (specScope [] [] wDummy).map (·.2) = [some 3, some 3, some 1] ∧
      (corrUnit asIs [] wDummy).map (·.2) = [some 1, some 1, some 1] := by decide

/-! ### type-bound procedures

  `FortranBoundProcedure.correlate` looks the names of a binding statement up in a table that
  depends on the kind of the statement (`bindTableOf`): generic -> the bindings of the type,
  specific -> the procedures of the scope, deferred -> nowhere. -/

/-- **deferred_binding_stays_text.**  The name of a deferred binding is looked up in no table: its
    slot keeps the name whatever procedures of that name the scope, its hosts or the used modules
    have - in the model and in the specification (a deferred binding has no implementation in
    its type; a binding name is local to the type). -/
theorem deferred_binding_stays_text (tb : Tabs) (ch : List Frame) (i : Nat) (ph : Phase) (n : Str) :
    bindTableOf false true = .nowhere ∧
      lookupSlot tb ⟨i, bindSlotKind true, ph, n⟩ = none ∧
      specLookup ch ⟨i, bindSlotKind true, ph, n⟩ = none := by
  simp [bindTableOf, bindSlotKind, lookupSlot, specLookup]

/-- the other two kinds: the target of a specific binding is a procedure of the scope (slot kind
    `pr`, resolved by `corr`), the specifics of a generic binding are bindings of the type -/
theorem binding_tables (d : Bool) :
    bindTableOf false false = .scopeProcs ∧ bindSlotKind false = .pr ∧ bindTableOf true d = .typeBindings := by
  cases d <;> simp [bindTableOf, bindSlotKind]

/-- **generic_specifics_correct.**  When an inherited generic binding has a list of specifics of
    its own (`shared = false`), then for every sequence of derived types correlated parents first
    - any depth of extension, any overriding, any reuse of binding names, whatever is correlated
    before or after - every specific of every generic binding holds exactly what Fortran
    designates: the type's own binding of that name, else the binding inherited from the nearest
    ancestor that declares one, else the name stays text.  The only hypothesis is that the list
    cells are distinct (`Nodup` of the slot ids). -/
theorem generic_specifics_correct (pre : List TypeRec) (r : TypeRec) (post : List TypeRec) (c : Nat × Str)
    (hc : c ∈ r.gens) (nd : (recIds (pre ++ r :: post)).Nodup) :
    cellGet (runTypes false [] [] (pre ++ r :: post)) c.1 = specGeneric pre.reverse r c.2 := by
  have := runTypes_spec pre r post c hc [] [] [] StoreOK.nil (fun _ _ => rfl) nd
  simpa using this

/-- **generic_specifics_partial** (code as found: the inherited copy shares the parent's list):
    without type extension - no type of the sequence has a resolved parent type - sharing is
    unobservable: every cell holds what it holds with lists of their own. -/
theorem generic_specifics_partial (rs : List TypeRec) (h : ∀ r ∈ rs, r.parent = none) :
    runTypes true [] [] rs = runTypes false [] [] rs :=
  runTypes_noParent true rs [] [] h

/-- type ta (1) has the binding pa (10) and `generic :: g => pa` (cell 0); its extension tb (2)
    overrides pa (11); tc (3) extends tb and has `generic :: h => pa` (cell 1). -/
def wGeneric : List TypeRec :=
  [⟨1, none, [(['p','a'], 10)], [(0, ['P','a'])], []⟩, ⟨2, some 1, [(['p','a'], 11)], [], []⟩,
   ⟨3, some 2, [], [(1, ['p','a'])], []⟩]

/-- **generic_specifics_witness**: the code as found leaves tb's overriding binding (11) in the
    list of ta's generic binding, where Fortran designates ta's own binding (10); tc's generic
    binding names the inherited binding of tb (11) in both variants; with lists of their own the
    model equals the specification. -/
theorem generic_specifics_witness :
    genericRes true wGeneric = [(0, some 11), (1, some 11)] ∧
      genericRes false wGeneric = [(0, some 10), (1, some 11)] ∧
      specGenericRes [] wGeneric = [(0, some 10), (1, some 11)] := by decide

/-! ### submodules

  A submodule is a scope nested in its parent (the submodule `parent` of the ancestor module in
  `submodule (anc:parent) name`, else the ancestor module); a separate module procedure implements
  the module procedure interface it accesses from an ancestor (FordModel/ScopeSub.lean). -/

/-- **submodule_resolution_correct.**  When a submodule's local declarations are merged OVER the
    tables of its parent (`ancOverLocal = false`) and these represent the chain `ch` of the parent's
    frames, then every reference slot of the submodule and of all scopes nested in it holds what the
    specification designates with `ch` as host chain, every separate module procedure is paired
    with the interface the innermost host frame has under its name (else its own), and the tables the submodule
    leaves to ITS submodules represent the chain extended by its own frame - so the statement
    carries over to submodules of any depth. -/
theorem submodule_resolution_correct (env : ModEnv) (host : Tabs) (ch : List Frame)
    (h : Rep host.p host.a host.t ch) (s : Scope) (ok : treeOK env ch s = true)
    (pairable : List Ent) (pairs : List (Nat × Str)) :
    (corrSub repaired false env host s).2 = specScope env ch s ∧
      pairSlots pairable host (scopeDecls s) (scopeKids s) pairs =
        specPairs pairable ch (localProcs (scopeDecls s) (scopeKids s)) pairs ∧
      Rep (corrSub repaired false env host s).1.p (corrSub repaired false env host s).1.a
        (corrSub repaired false env host s).1.t (frameOf env s :: ch) :=
  ⟨(corrSub_repaired env host ch h s ok).1, pairSlots_spec pairable host ch h _ _ pairs,
   (corrSub_repaired env host ch h s ok).2⟩

/-- **submodule_local_shadows_partial** (code as found: `all_X.update(parent.all_X)`): overwriting
    the local declarations with the parent's and merging them over the parent's answer every
    lookup alike as long as no name the submodule declares is a key of the parent's table of the
    same kind (table level, like `inner_shadows_host_partial`). -/
theorem submodule_local_shadows_partial (env : ModEnv) (host : Tabs) (uses : List Use) (decls : List Decl) (kids : Kids)
    (hp : ∀ k ∈ localProcs decls kids, tget host.p k.1 = none)
    (ha : ∀ k ∈ declsOf .ab decls, tget host.a k.1 = none)
    (ht : ∀ k ∈ declsOf .ty decls, tget host.t k.1 = none) (s : Slot) :
    lookupSlot (subTabs true env host uses decls kids) s = lookupSlot (subTabs false env host uses decls kids) s := by
  rw [subTabs_split true, subTabs_split false]
  simp only [lookupSlot, ↓reduceIte, Bool.false_eq_true, tget_append (applyUses env uses ⟨[], [], []⟩).p,
    tget_append (applyUses env uses ⟨[], [], []⟩).a, tget_append (applyUses env uses ⟨[], [], []⟩).t,
    tget_append_comm _ _ hp, tget_append_comm _ _ ha, tget_append_comm _ _ ht]

/-- module m0 declares type ta (1) and subroutine pc (2); its submodule s1 (10) declares its own
    ta (3) and pc (4) and refers to `type(ta)` (slot 0) and `procedure(pc)` (slot 1); slots 20, 21
    are its references to the ancestor module and the parent submodule. -/
def wSubLocal : List (UKind × Scope) :=
  [(.mod, .mk ['m','0'] 0 false [] [⟨.ty, ['t','a'], 1⟩] [] (.cons (.mk ['p','c'] 2 false [] [] [] .nil) .nil)),
   (.sub ⟨['M','0'], none, 20, 21, []⟩,
     .mk ['s','1'] 10 false [] [⟨.ty, ['T','a'], 3⟩]
       [⟨0, .ty, .late, ['t','a']⟩, ⟨1, .pa, .late, ['p','c']⟩] (.cons (.mk ['p','c'] 4 false [] [] [] .nil) .nil))]

/-- **submodule_local_shadowed_witness**: the code as found links both references to the ancestor
    module's entities (1, 2) where Fortran designates the submodule's own (3, 4); merged the other
    way round the model equals the specification. -/
theorem submodule_local_shadowed_witness :
    (corrProjectS repaired SVariant.asFound [] [10] PState.empty wSubLocal).map (·.2) = [some 0, none, some 1, some 2] ∧
      (corrProjectS repaired SVariant.repaired [] [10] PState.empty wSubLocal).map (·.2) = [some 0, none, some 3, some 4] ∧
      (specProjectS [] SpecState.empty wSubLocal).map (·.2) = [some 0, none, some 3, some 4] := by decide

/-- modules m0 (type ta = 1) and m1 each have a submodule s1 (10 resp. 11); `submodule (m1:s1) s3`
    (12) refers to `type(ta)` (slot 0); slots 20-25 are the ancestor / parent references. -/
def wSubParent : List (UKind × Scope) :=
  [(.mod, .mk ['m','0'] 0 false [] [⟨.ty, ['t','a'], 1⟩] [] .nil),
   (.mod, .mk ['m','1'] 2 false [] [] [] .nil),
   (.sub ⟨['m','0'], none, 20, 21, []⟩, .mk ['s','1'] 10 false [] [] [] .nil),
   (.sub ⟨['m','1'], none, 22, 23, []⟩, .mk ['s','1'] 11 false [] [] [] .nil),
   (.sub ⟨['m','1'], some ['S','1'], 24, 25, []⟩, .mk ['s','3'] 12 false [] [] [⟨0, .ty, .late, ['t','a']⟩] .nil)]

/-- **submodule_parent_by_name_witness**: looking the parent up by its name alone in the project's
    list (here m0's s1 comes first) makes m0's submodule the parent of `m1:s1`'s child and links
    `type(ta)` to m0's type, although neither m1 nor its s1 has a `ta`; looked up by ancestor
    module and name, the parent is m1's s1 (11) and the reference stays text = specification. -/
theorem submodule_parent_by_name_witness :
    ((corrProjectS repaired ⟨false, true⟩ [] [10, 11, 12] PState.empty wSubParent).map (·.2)).drop 4 =
        [some 2, some 10, some 1] ∧
      ((corrProjectS repaired ⟨false, false⟩ [] [10, 11, 12] PState.empty wSubParent).map (·.2)).drop 4 =
        [some 2, some 11, none] ∧
      ((specProjectS [] SpecState.empty wSubParent).map (·.2)).drop 4 = [some 2, some 11, none] := by decide

/-- **projects_without_submodules**: on a project that has no submodule the project-level model with
    submodules is the model `corrProject` the theorems above speak about (every variant of the two
    submodule switches). -/
theorem projects_without_submodules (v : Variant) (sv : SVariant) (pairable order : List Ent)
    (us : List (UKind × Scope)) (h : ∀ u ∈ us, kindIsSub u.1 = false) :
    corrProjectS v sv pairable order PState.empty us = corrProject v [] (us.map fun u => (kindIsMod u.1, u.2)) :=
  corrProjectS_plain v sv pairable order us h PState.empty

/-! ### tie to the code: decision tables probed on the working tree (generated)

Every table of `Generated/C07.lean` but `nameTableOps` is OBSERVED: `translate/c07.py` runs the
implementation under test on small witness projects and records what it did.  The theorems below say
that these decisions are the ones the model makes. -/

/-- the recursion visits functions, then subroutines, then (after the nested units) the interfaces
    and the variables; derived types are correlated before the recursion - the order the
    model's `corr` uses (`Phase.early` / funcs / subs / `Phase.late`). -/
theorem recursion_order_generated :
    Ford.C07Gen.correlateRecursion.take 2 = ["functions", "subroutines"] ∧
      Ford.C07Gen.correlateRecursion.idxOf "subroutines" < Ford.C07Gen.correlateRecursion.idxOf "variables" ∧
      Ford.C07Gen.correlateRecursion.idxOf "subroutines" < Ford.C07Gen.correlateRecursion.idxOf "interfaces" ∧
      "variables" ∈ Ford.C07Gen.correlateRecursion ∧ "interfaces" ∈ Ford.C07Gen.correlateRecursion ∧
      Ford.C07Gen.typesBeforeRecursion = true := by decide

/-- the three host tables reach a nested unit in one of the shapes the model has a
    variant for -/
theorem host_tables_generated :
    (Ford.C07Gen.hostTables.map (·.1) = ["all_procs", "all_absinterfaces", "all_types"]) ∧
      (Ford.C07Gen.hostTables.lookup "all_procs" = some "update" ∨
        Ford.C07Gen.hostTables.lookup "all_procs" = some "merge-local-over-host") ∧
      (Ford.C07Gen.hostTables.lookup "all_types" = some "alias" ∨ Ford.C07Gen.hostTables.lookup "all_types" = some "copy") ∧
      Ford.C07Gen.hostTables.lookup "all_absinterfaces" = Ford.C07Gen.hostTables.lookup "all_types" := by
  decide

/-- **used_objects_generated.**  The model's `importTable` (+ the lookup rule of the slot kind) reproduces
    `FortranModule.get_used_entities` as the working tree runs it: for each of the probed USE statements -
    no list, renames without ONLY, ONLY lists with and without renames, any letter case and layout - and
    every candidate name (the module's names, the local names of the renames), the entity FORD links a
    `type(name)` / `procedure(name)` reference of the using unit to is the one the model computes from
    the statement; in particular a renamed entity is found under its local name and NOT under its
    original one, and a name that is not on an ONLY list is not found.  All three forms are probed. -/
theorem used_objects_generated :
    (∀ p ∈ Ford.C07Gen.useProbes, ∀ q ∈ p.2.2,
      lookupSlot
        ⟨importTable Ford.C07Gen.usePubProcs ⟨[], p.1, p.2.1⟩, importTable Ford.C07Gen.usePubAbs ⟨[], p.1, p.2.1⟩,
         importTable Ford.C07Gen.usePubTypes ⟨[], p.1, p.2.1⟩⟩
        ⟨0, if q.1 then .ty else .pa, .late, q.2.1⟩ = q.2.2) ∧
      (Ford.C07Gen.useProbes.any fun p => !p.1 && p.2.1.isEmpty) = true ∧
      (Ford.C07Gen.useProbes.any fun p => !p.1 && !p.2.1.isEmpty) = true ∧
      (Ford.C07Gen.useProbes.any fun p => p.1 && p.2.1.any fun lr => lr.1 != lr.2) = true ∧
      (Ford.C07Gen.useProbes.all fun p => p.2.2.length == 9) = true := by decide

/-- BLOCK constructs as the working tree parses them (probed): derived-type definitions, interface
    blocks, abstract interfaces, enumerations, variable declarations and attribute statements inside a
    BLOCK are NOT filed in the enclosing unit; nested and labelled BLOCKs are counted (a unit closes at
    its own END statement, a declaration after the END of a nested BLOCK is still inside the outer
    one) - so the registration behaviour of the working tree files no block-local declaration. -/
theorem block_guards_generated :
    Ford.C07Gen.blockFiled.lookup "type" = some false ∧
      Ford.C07Gen.blockFiled.lookup "interface" = some false ∧
      Ford.C07Gen.blockFiled.lookup "absinterface" = some false ∧
      Ford.C07Gen.blockFiled.lookup "enum" = some false ∧
      Ford.C07Gen.blockFiled.lookup "variable" = some false ∧
      Ford.C07Gen.blockFiled.lookup "attribute" = some false ∧
      (Ford.C07Gen.blockFiled.lookup "use").isSome = true ∧
      Ford.C07Gen.blockNesting.length = 3 ∧ (Ford.C07Gen.blockNesting.all (·.2)) = true ∧
      (regOfTable Ford.C07Gen.blockFiled).ty = false ∧
      (regOfTable Ford.C07Gen.blockFiled).ifc = false := by decide

/-- **blocks_invisible_generated.**  For the parser of the working tree: a program whose BLOCK
    constructs contain no USE statement is parsed into the object tree of the program without its
    BLOCKs (hence resolves every reference alike, in every variant); if a USE inside a BLOCK is not
    filed in the enclosing unit either, this holds for every program. -/
theorem blocks_invisible_generated (s : BScope) :
    (noBlockUse s = true →
      flatten (regOfTable Ford.C07Gen.blockFiled) s = eraseBlocks s) ∧
    ((regOfTable Ford.C07Gen.blockFiled).use = false →
      flatten (regOfTable Ford.C07Gen.blockFiled) s = eraseBlocks s) := by
  have ht : (regOfTable Ford.C07Gen.blockFiled).ty = false := by decide
  have hi : (regOfTable Ford.C07Gen.blockFiled).ifc = false := by decide
  exact ⟨fun h => flatten_noBlockUse _ ht hi s h, fun hu => flatten_none _ hu ht hi s⟩

/-- `FortranBoundProcedure.correlate` as the working tree runs it (probed on a witness that declares
    the name as a derived type, a procedure, an abstract interface and a binding of the type, in all 16
    combinations): the name on a SPECIFIC binding statement is looked up among the procedures of the
    scope only, the name of a DEFERRED binding nowhere, the specifics of a GENERIC binding among the
    bindings of the type only - the three answers of the model's `bindTableOf` -; the interface of a
    deferred binding among the procedures, then the abstract interfaces (slot kind `pa`). -/
theorem bound_procedure_lookup_generated :
    (bindTableOf false false = .scopeProcs ∧
        Ford.C07Gen.slotLookups.lookup "binding target" = some ["all_procs"]) ∧
      (bindTableOf false true = .nowhere ∧
        Ford.C07Gen.slotLookups.lookup "deferred binding name" = some []) ∧
      (bindTableOf true false = .typeBindings ∧ bindTableOf true true = .typeBindings ∧
        Ford.C07Gen.slotLookups.lookup "generic binding specific" = some ["bindings"]) ∧
      Ford.C07Gen.slotLookups.lookup "deferred binding interface" = some ["all_procs", "all_absinterfaces"] := by
  decide

/-- the name tables are bound or edited only where the model builds them (read from both source
    files, normalised to a set of (table, bind / write / remove) per function - whatever the
    statements are called, however many there are): the units build them - `_cleanup` of the code
    unit `all_procs` (model: `localProcs`; a module adds its procedure pointers), `correlate` of the
    code unit all three - and NO other `_cleanup` touches a table - in particular
    `FortranProcedure._cleanup`, which makes the interface body of a dummy procedure the argument
    object, keeps its entry -; the reference owners only bind their parent's tables (they never
    write into one); nothing is ever removed from a table. -/
theorem name_tables_generated :
    Ford.C07Gen.nameTableSites =
        ["FortranCodeUnit._common_initialize", "FortranCodeUnit._cleanup", "FortranCodeUnit.correlate",
         "FortranModule._cleanup", "FortranType.correlate", "FortranInterface.correlate",
         "FortranFinalProc.correlate", "FortranBoundProcedure.correlate", "FortranBlockData.correlate"] ∧
      (Ford.C07Gen.nameTableOps.all fun o => o.2.2 == "bind" || o.2.2 == "write") = true ∧
      ((Ford.C07Gen.nameTableOps.filter fun o =>
          ["FortranType.correlate", "FortranInterface.correlate", "FortranFinalProc.correlate",
           "FortranBoundProcedure.correlate"].contains o.1).all fun o => o.2.2 == "bind") = true ∧
      ((Ford.C07Gen.nameTableOps.filter fun o =>
          ["FortranCodeUnit._common_initialize", "FortranCodeUnit._cleanup", "FortranModule._cleanup"].contains o.1).all
          fun o => o.2.1 == "all_procs") = true ∧
      ((Ford.C07Gen.nameTableOps.filter fun o => o.1 == "FortranCodeUnit.correlate").map (·.2.1)).eraseDups =
        ["all_absinterfaces", "all_procs", "all_types"] := by
  decide

/-- `FortranType.correlate` as the working tree runs it (probed: `ta` with bindings pa, pz and the
    generic g1 => pa, `tb` extends `ta` and overrides pa): `boundprocs` of the extension is the
    inherited bindings followed by the own ones, and the inherited copy of the generic binding either
    keeps the parent's list of specifics - then the PARENT's generic is linked to the extension's
    binding (code as found, model `shared = true`) - or has a list of its own and the parent's generic
    stays with the parent's binding (`shared = false`); the extension's copy names the extension's
    binding in both.  The two shapes the model has. -/
theorem inherited_generic_generated :
    Ford.C07Gen.boundprocsOrder = ["pz", "g1", "pa"] ∧
      ((Ford.C07Gen.inheritedGenericShared = true ∧ Ford.C07Gen.inheritedGenericWitness = ("tb", "tb")) ∨
        (Ford.C07Gen.inheritedGenericShared = false ∧ Ford.C07Gen.inheritedGenericWitness = ("ta", "tb"))) := by
  decide

/-- submodules as the working tree correlates them (probed on a witness with two modules that each
    have a submodule `s1`): the parent of `submodule (m1:s1) s3` is found either by its name alone (code
    as found, model `parentByName`: m0's `s1`, and a name only that one can see gets linked) or by
    ancestor module and name (the name stays text); a submodule's own type / procedure either loses
    against the same-named one of its ancestor module (code as found, model `ancOverLocal`) or shadows
    it - both kinds alike -, and a separate module procedure whose name both its parent submodule and
    the ancestor module declare an interface for is paired accordingly (with the ancestor module's
    resp. with the innermost one, the parent submodule's; model `pairLookup`); the entities of the
    parent submodule, and through it of the ancestor module, are visible (model `hostTabs`). -/
theorem submodule_lookup_generated :
    Ford.C07Gen.submoduleProbes.length = 7 ∧
      (((Ford.C07Gen.submoduleProbes.map (·.2)).take 2 = ["ancestor", "ancestor"] ∧
          (Ford.C07Gen.submoduleProbes.map (·.2)).drop 6 = ["ancestor module's"]) ∨
        ((Ford.C07Gen.submoduleProbes.map (·.2)).take 2 = ["local", "local"] ∧
          (Ford.C07Gen.submoduleProbes.map (·.2)).drop 6 = ["parent submodule's"])) ∧
      ((((Ford.C07Gen.submoduleProbes.map (·.2)).drop 2).take 2 = ["by name", "linked"]) ∨
        (((Ford.C07Gen.submoduleProbes.map (·.2)).drop 2).take 2 = ["same ancestor", "text"])) ∧
      ((Ford.C07Gen.submoduleProbes.map (·.2)).drop 4).take 2 = ["linked", "linked"] := by
  decide

/-- the name spaces each kind of reference is looked up in, in priority order, as the working tree
    does it (probed, see `bound_procedure_lookup_generated`), are those of the model's slot kinds:
    `ty` (parent type, components, variables, arguments of type(...) / class(...)) = the types only;
    `pa` (procedure(...) of components, variables, results) = the procedures, then the abstract
    interfaces; `pr` (finaliser, constructor, specific procedure of a generic interface) = the
    procedures only; and a reference is found whatever its letter case. -/
theorem slot_lookups_generated :
    (["parent type", "component type", "variable type", "variable class", "argument type"].all fun k =>
        Ford.C07Gen.slotLookups.lookup k == some ["all_types"]) = true ∧
      (["component procedure", "variable procedure", "result procedure"].all fun k =>
        Ford.C07Gen.slotLookups.lookup k == some ["all_procs", "all_absinterfaces"]) = true ∧
      (["finaliser", "constructor", "generic interface specific"].all fun k =>
        Ford.C07Gen.slotLookups.lookup k == some ["all_procs"]) = true ∧
      Ford.C07Gen.lookupsIgnoreCase = true := by
  decide

/-! ### Round 6: PRIVATE type-bound procedures are inherited -/

/-- **generic_specifics_private_partial** (code as found: an extension skips the PRIVATE bindings of
    its parent).  When no type of the sequence has a PRIVATE binding (decidable), skipping them is
    unobservable: the model of the code as found is the model that inherits every binding - the one
    `generic_specifics_correct` is about -, for shared and for own lists of specifics, any number of
    types, any inheritance. -/
theorem generic_specifics_private_partial (sh : Bool) (rs : List TypeRec) (h : ∀ r ∈ rs, r.privs = []) :
    runTypesD true sh [] [] rs = runTypes sh [] [] rs :=
  runTypesD_noPrivs sh rs [] [] h (fun _ _ hs => by simp [storeGet] at hs)

/-- the switch off is the model without it (ties `runTypesD false` to the theorems about `runTypes`) -/
theorem generic_specifics_inherit_all (sh : Bool) (rs : List TypeRec) (st : TStore) (cells : Cells) :
    runTypesD false sh st cells rs = runTypes sh st cells rs :=
  runTypesD_false sh rs st cells

/-- `type ta` (1) with `procedure, private :: pa` (10) and a public `pb` (12); `type, extends(ta) :: tb`
    (2) in the same module with `generic :: g => pa, pb` (slots 0, 1); `type, extends(tb) :: tc` (3)
    overrides nothing and has `generic :: h => pa` (slot 2). -/
def wPrivate : List TypeRec :=
  [⟨1, none, [(['p','b'], 12), (['p','a'], 10)], [], [10]⟩,
   ⟨2, some 1, [], [(0, ['p','a']), (1, ['P','b'])], []⟩,
   ⟨3, some 2, [], [(2, ['p','a'])], []⟩]

/-- **generic_specifics_private_witness**: the code as found does not hand ta's PRIVATE binding `pa`
    down to its extensions, so the specific `pa` of tb's and tc's generic bindings stays text although
    the binding is inherited (F2018 7.5.7.2) and, in the module that defines ta, accessible; the public
    `pb` is found.  Inheriting every binding, the model equals the specification. -/
theorem generic_specifics_private_witness :
    genericResD true false wPrivate = [(0, none), (1, some 12), (2, none)] ∧
      genericResD false false wPrivate = [(0, some 10), (1, some 12), (2, some 10)] ∧
      specGenericRes [] wPrivate = [(0, some 10), (1, some 12), (2, some 10)] := by decide

/-- **private_binding_generated** (regenerated table): on the translator's witness (the Fortran text of
    `wPrivate`) the working tree leaves in the three specifics what the model computes - as found
    (PRIVATE bindings skipped) or with the repair (every binding inherited = the specification). -/
theorem private_binding_generated :
    Ford.C07Gen.privateProbe = genericResD true false wPrivate ∨
      Ford.C07Gen.privateProbe = genericResD false false wPrivate := by decide

/-! ### Round 6: accessibility - a USE statement sees exactly the PUBLIC identifiers of a module -/

section Access
open Ford.ScopeAccess

/-- **accessibility_is_fortran** ("use-associated" means: accessible).  The accessibility FORD has
    settled for a declared entity at the moment the module's public tables are derived is the one
    Fortran gives its identifier: the access statement that names it, else the access attribute of
    the derived type of that name (so the generic interface named like a type - its user-defined
    constructor - follows the type), else the module's default.  For every module, any number of
    declarations and statements; hypotheses = the module is Fortran: an identifier is named by at most
    one access statement, only type declarations carry an access attribute, type names are distinct,
    a procedure or abstract interface is not named like a type. -/
theorem accessibility_is_fortran (m : AModule) (d : ADecl) (hS : stmtsOnce m.stmts = true)
    (hA : d.kind ≠ .ty → d.attr = none)
    (hT : d.kind = .ty → typeNamed m.decls (lower d.name) = some d)
    (hP : (d.kind = .pr ∨ d.kind = .ab) → typeNamed m.decls (lower d.name) = none) :
    finalPerm asBuilt m d = accOf m (lower d.name) := by
  have hl := lastPerm_eq_firstPerm m.stmts (lower d.name) hS
  cases hk : d.kind with
  | ty =>
    have h1 := hT hk
    simp [finalPerm, hk, declPerm, accOf, hl, h1]
    cases firstPerm m.stmts (lower d.name) <;> simp
  | gi =>
    have ha := hA (by simp [hk])
    cases ht : typeNamed m.decls (lower d.name) with
    | none =>
      simp [finalPerm, asBuilt, hk, ht, declPerm, accOf, hl, ha]
      cases firstPerm m.stmts (lower d.name) <;> simp
    | some t =>
      have h3 := typeNamed_some _ _ _ ht
      simp [finalPerm, asBuilt, hk, ht, declPerm, accOf, hl, h3.2.2]
      cases firstPerm m.stmts (lower d.name) <;> simp
  | pr =>
    have ha := hA (by simp [hk])
    have h1 := hP (Or.inl hk)
    simp [finalPerm, hk, declPerm, accOf, hl, h1, ha]
    cases firstPerm m.stmts (lower d.name) <;> simp
  | ab =>
    have ha := hA (by simp [hk])
    have h1 := hP (Or.inr hk)
    simp [finalPerm, hk, declPerm, accOf, hl, h1, ha]
    cases firstPerm m.stmts (lower d.name) <;> simp

/-- **constructor_shares_type_accessibility** ("a structure constructor ... denotes the entity that
    Fortran's scoping rules designate"): when the public tables are derived, the generic interface
    named like a derived type of the module has that type's accessibility - whatever was written on
    the type statement, in access statements, or inherited from the module's default. -/
theorem constructor_shares_type_accessibility (m : AModule) (g t : ADecl) (hg : g.kind = .gi)
    (ht : typeNamed m.decls (lower g.name) = some t) :
    finalPerm asBuilt m g = finalPerm asBuilt m t := by
  have h3 := typeNamed_some _ _ _ ht
  simp [finalPerm, asBuilt, hg, ht, h3.2.1]

/-- **private_entities_not_exported** ("declarations ... invisible", "a name with no visible
    declaration stays unresolved"): every entry of a public table FORD derives from a module's own
    declarations is a declared entity of that kind whose accessibility is PUBLIC at that moment -
    nothing PRIVATE is handed to a USE statement (any variant, any module). -/
theorem private_entities_not_exported (v : AVariant) (m : AModule) (k : DK) (x : Str × Ent)
    (h : x ∈ localPubK v m k m.decls) :
    ∃ d ∈ m.decls, d.kind = k ∧ finalPerm v m d = .pub ∧ x = (lower d.name, d.ent) :=
  localPubK_sound v m k m.decls x h

/-- **public_entities_exported**: and every declared entity that is PUBLIC is in the public table of
    its kind under its lower-cased name. -/
theorem public_entities_exported (v : AVariant) (m : AModule) (d : ADecl) (hm : d ∈ m.decls)
    (hp : finalPerm v m d = .pub) :
    (lower d.name, d.ent) ∈ localPubK v m d.kind m.decls :=
  localPubK_complete v m m.decls d hm hp

/-- **reexport_follows_default**: what a module passes on of the entities it use-associates itself:
    under the name `n` exactly what it imported, if the module's default is PUBLIC or `n` is on its
    public list; nothing otherwise (a default-PRIVATE module hides what it uses unless a PUBLIC
    statement names it). -/
theorem reexport_follows_default (m : AModule) (tb : Table) (n : Str) :
    tget (filterTable (shouldBePublic m) tb) n =
      if m.dflt = .pub ∨ n ∈ publicList m then tget tb n else none := by
  rw [filterTable_get]
  simp [shouldBePublic]

/-- **exports_are_accessible_frame** ("a declaration ... wins over use-associated ... ones" presupposes
    what is use-associated): for every module that is Fortran - any number of declarations, access
    statements and USE statements (with ONLY lists and renames), any modules before it - the public
    tables FORD builds (`_cleanup`: accessibility from default / attribute / statements, constructor
    follows its type, `filter_public`; `correlate`: `pub_*.update(filter_public(imported))`) answer
    every lookup exactly like the specification: the identifiers visible at the module's top level
    (declared or use-associated) that Fortran makes PUBLIC there.  Hypotheses = validity of the
    module: at most one access statement per identifier, access attributes on type declarations only,
    distinct type names, no procedure named like a type, a PRIVATE statement names declared
    identifiers only (`privatesDeclared`; the excluded class is C06-private-imported-reexported), no
    declared identifier is also use-associated. -/
theorem exports_are_accessible_frame (env : ModEnv) (m : AModule)
    (hS : stmtsOnce m.stmts = true) (hV : privatesDeclared m = true)
    (hA : ∀ d ∈ m.decls, d.kind ≠ .ty → d.attr = none)
    (hT : ∀ d ∈ m.decls, d.kind = .ty → typeNamed m.decls (lower d.name) = some d)
    (hP : ∀ d ∈ m.decls, (d.kind = .pr ∨ d.kind = .ab) → typeNamed m.decls (lower d.name) = none)
    (hC : ∀ u ∈ m.uses, ∀ x, findMod env (lower u.mod) = some x → ∀ n, declared m.decls n = true →
      tget (importTable x.p u) n = none ∧ tget (importTable x.a u) n = none ∧ tget (importTable x.t u) n = none)
    (n : Str) :
    tget (exportsA asBuilt env m).p n = tget (specExportsA env m).p n ∧
      tget (exportsA asBuilt env m).a n = tget (specExportsA env m).a n ∧
      tget (exportsA asBuilt env m).t n = tget (specExportsA env m).t n := by
  have hfin : ∀ d ∈ m.decls, finalPerm asBuilt m d = accOf m (lower d.name) :=
    fun d hd => accessibility_is_fortran m d hS (hA d hd) (hT d hd) (hP d hd)
  have base : SameF m
      ⟨localPubK asBuilt m .gi m.decls ++ localPubK asBuilt m .pr m.decls, localPubK asBuilt m .ab m.decls,
        localPubK asBuilt m .ty m.decls⟩
      ⟨localAllK .gi m.decls ++ localAllK .pr m.decls, localAllK .ab m.decls, localAllK .ty m.decls⟩ := by
    intro k
    simp [localPubK_filter asBuilt m _ m.decls hfin, filterTable_append]
  have hC' : ∀ u ∈ m.uses, ∀ x, findMod env (lower u.mod) = some x → ∀ k,
      (tget (importTable x.p u) k ≠ none ∨ tget (importTable x.a u) k ≠ none ∨ tget (importTable x.t u) k ≠ none) →
        shouldBePublic m k = accessible m k := by
    intro u hu x hx k hk
    cases hd : declared m.decls k with
    | false => exact shouldBePublic_undeclared m k hV hd
    | true =>
      have h3 := hC u hu x hx k hd
      simp [h3.1, h3.2.1, h3.2.2] at hk
  exact reexports_same m env m.uses _ _ base hC' n

/-- default-PRIVATE module: `type, public :: tb` (1) with constructor `interface tb` (2), `public :: pa`,
    procedures pa (3), pb (4), type ta (5) -/
def wAcc : AModule :=
  ⟨['m','0'], .priv, [(.pub, ['P','a'])], [],
   [⟨.ty, ['t','b'], 1, some .pub⟩, ⟨.gi, ['T','b'], 2, none⟩, ⟨.pr, ['p','a'], 3, none⟩, ⟨.pr, ['p','b'], 4, none⟩,
    ⟨.ty, ['t','a'], 5, none⟩], []⟩

/-- non-vacuity of `exports_are_accessible_frame`: its hypotheses hold for `wAcc`, whose public tables
    hold the constructor of the PUBLIC type and the procedure named PUBLIC, and nothing else -/
example : (∀ n, tget (exportsA asBuilt [] wAcc).p n = tget (specExportsA [] wAcc).p n) ∧
    (exportsA asBuilt [] wAcc).p = [(['t','b'], 2), (['p','a'], 3)] ∧
    (exportsA asBuilt [] wAcc).t = [(['t','b'], 1)] :=
  ⟨fun n => (exports_are_accessible_frame [] wAcc (by decide) (by decide) (by decide) (by decide) (by decide)
      (by intro u hu; simp [wAcc] at hu) n).1, by decide, by decide⟩

/-- m0: `type, private :: ta` (1) with the constructor idiom `interface ta` (2), default PUBLIC;
    m1 uses m0 and declares its own `type ta` (3): slot 0 = constructor of m1's ta, slot 1 =
    `procedure(ta)`; m2 uses m0 and declares `type ta` (4) with its own `interface ta` (5): slot 2 =
    constructor of m2's ta. -/
def wCtor : List AModule :=
  [⟨['m','0'], .pub, [], [], [⟨.ty, ['t','a'], 1, some .priv⟩, ⟨.gi, ['T','a'], 2, none⟩], []⟩,
   ⟨['m','1'], .pub, [], [⟨['m','0'], false, []⟩], [⟨.ty, ['t','a'], 3, none⟩],
    [⟨0, .pr, .early, ['t','a']⟩, ⟨1, .pa, .early, ['T','A']⟩]⟩,
   ⟨['m','2'], .pub, [], [⟨['M','0'], false, []⟩], [⟨.ty, ['t','a'], 4, none⟩, ⟨.gi, ['t','a'], 5, none⟩],
    [⟨2, .pr, .early, ['t','a']⟩]⟩]

/-- non-vacuity with use association: m1 of `wCtor` (own `type ta`, `use m0` where m0 hides its `ta`)
    satisfies the hypotheses against m0's public tables; its own `ta` is exported, m0's is not -/
example : (∀ n, tget (exportsA asBuilt [(['m','0'], exportsA asBuilt [] wCtor[0])] wCtor[1]).t n =
      tget (specExportsA [(['m','0'], exportsA asBuilt [] wCtor[0])] wCtor[1]).t n) ∧
    (exportsA asBuilt [(['m','0'], exportsA asBuilt [] wCtor[0])] wCtor[1]).t = [(['t','a'], 3)] ∧
    (exportsA asBuilt [(['m','0'], exportsA asBuilt [] wCtor[0])] wCtor[1]).p = [] :=
  ⟨fun n => (exports_are_accessible_frame _ wCtor[1] (by decide) (by decide) (by decide) (by decide) (by decide)
      (by
        intro u hu x hx k _
        have hu' : u = ⟨['m','0'], false, []⟩ := by simpa [wCtor] using hu
        subst hu'
        have hx' : x = exportsA asBuilt [] wCtor[0] := by
          have : findMod [(['m','0'], exportsA asBuilt [] wCtor[0])] (lower ['m','0']) =
              some (exportsA asBuilt [] wCtor[0]) := by rfl
          rw [this] at hx
          exact (Option.some.inj hx).symm
        subst hx'
        have e : exportsA asBuilt [] wCtor[0] = ⟨[], [], []⟩ := by rfl
        rw [e]
        simp [importTable, tget]) n).2.2, by decide, by decide⟩

/-- **constructor_sync_late_witness**: the order of the two steps is load-bearing.  If the
    constructor gets its type's accessibility only after the public tables were derived, the
    interface of the PRIVATE type is exported, becomes the "constructor" of the using modules' own
    types `ta` (slots 0, 2) and the target of `procedure(ta)` (slot 1); settled before, nothing of
    m0 is visible: no constructor / text / m2's own interface = the specification. -/
theorem constructor_sync_late_witness :
    (corrProjectA syncLate [] wCtor).map (·.2) = [some 2, some 2, some 2] ∧
      (corrProjectA asBuilt [] wCtor).map (·.2) = [none, none, some 5] ∧
      (specProjectA [] wCtor).map (·.2) = [none, none, some 5] := by decide

/-- **access_generated** (regenerated table): on the translator's witness project (a default-PUBLIC
    and a default-PRIVATE module with the constructor idiom with and without access attribute on the
    type, access statements, users of both, a default-PRIVATE re-exporter with a PUBLIC statement, a
    module declaring a type of a hidden name) the implementation under test stores in every
    reference slot, and holds in every public table under every candidate name, exactly what the
    model computes - and that is what the specification designates. -/
theorem access_generated :
    (corrProjectA asBuilt [] (Ford.C07Gen.accessWitness.map ofProbe)).map (fun r => (r.1.id, r.2)) =
        Ford.C07Gen.accessSlots ∧
      exportsAnswer (exportsProjectA asBuilt [] (Ford.C07Gen.accessWitness.map ofProbe))
        Ford.C07Gen.accessExported = true ∧
      (specProjectA [] (Ford.C07Gen.accessWitness.map ofProbe)).map (fun r => (r.1.id, r.2)) =
        Ford.C07Gen.accessSlots := by decide

/-- non-vacuity: the hypotheses of `accessibility_is_fortran` hold for both declarations of the
    witness module m0, and the two accessibilities are PRIVATE -/
example : stmtsOnce ([] : List (Perm × Str)) = true ∧
    typeNamed [⟨.ty, ['t','a'], 1, some .priv⟩, ⟨.gi, ['T','a'], 2, none⟩] ['t','a'] =
      some ⟨.ty, ['t','a'], 1, some .priv⟩ := by decide

end Access

end Ford.C07
