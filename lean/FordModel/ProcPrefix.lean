/-
  C18 - the prefix of a procedure statement (`pure elemental integer function f(x)`):
  `ford/sourceform.py: _list_of_procedure_attributes` and what `FortranFunction._initialize`
  makes of the text that is left over (the type of the result).  Mirrors the code *as it is*.

  The code walks over a table of prefix keywords (regenerated into
  `FordModel/Generated/C18.lean: procPrefixes`, in source order).  For each keyword, in table
  order, it tests whether the keyword occurs in the (lower-cased) prefix, records it and deletes it:

  * variant "substring" (the code as it is): `if attribute in attribute_string` +
    `re.sub(attribute, "", attribute_string)` - a Python *substring* test.  The order of the table is
    load-bearing (a keyword that is part of another one - `pure` / `impure`, `recursive` /
    `non_recursive` - must come after the longer one), and a keyword inside the type specification
    (`type(module_data) function f()`) is taken for a prefix too.
  * variant "word" (fixes/C18-prefix-keyword-inside-type-spec.diff): the prefix is split at the blanks
    outside parentheses (`ford.utils.paren_split(" ", ...)`) and a keyword is a prefix only when it is one
    of these words.

  Which variant the code has is decided by the translator (`Generated.C18.prefixByWord`).
-/
import FordModel.Basic.Chars
import FordModel.Basic.Split
import FordModel.TypeSpec
namespace Ford.ProcPrefix

/-- `k in s` (Python substring test) -/
def isInfix (k : Str) : Str → Bool
  | [] => k.isEmpty
  | c :: cs => startsWith (c :: cs) k || isInfix k cs

/-- `re.sub(k, "", s)` for a keyword `k` (letters and `_` only, so the pattern is literal; `k` and `s`
    lower-case, so IGNORECASE changes nothing): the leftmost non-overlapping occurrences are deleted.
    `skip` = characters of the occurrence being deleted that are still to drop. -/
def removeGo (k : Str) : Nat → Str → Str
  | _, [] => []
  | skip + 1, _ :: cs => removeGo k skip cs
  | 0, c :: cs =>
    if startsWith (c :: cs) k then removeGo k (k.length - 1) cs else c :: removeGo k 0 cs

def removeAll (k s : Str) : Str := removeGo k 0 s

/-- the loop of `_list_of_procedure_attributes`, substring variant: (attributes found, what is left) -/
def attrsGo : List Str → Str → List Str × Str
  | [], s => ([], s)
  | k :: ks, s =>
    if isInfix k s then
      let r := attrsGo ks (removeAll k s)
      (k :: r.1, r.2)
    else attrsGo ks s

def dropBlanks (s : Str) : Str := s.filter (· != ' ')

/-- `_list_of_procedure_attributes(attribute_string)`, substring variant -/
def listProcAttrs (table : List Str) (s : Str) : List Str × Str :=
  if s.isEmpty then ([], [])
  else
    let r := attrsGo table (lower s)
    (r.1, dropBlanks r.2)

/-- the loop, word variant: `if attribute in words` + `words = [w for w in words if w != attribute]` -/
def attrsWordsGo : List Str → List Str → List Str × List Str
  | [], ws => ([], ws)
  | k :: ks, ws =>
    if ws.contains k then
      let r := attrsWordsGo ks (ws.filter (· != k))
      (k :: r.1, r.2)
    else attrsWordsGo ks ws

/-- `.replace("\t", " ")` -/
def tabsToBlanks (s : Str) : Str := s.map (fun c => if c == '\t' then ' ' else c)

/-- `_list_of_procedure_attributes(attribute_string)`, word variant -/
def listProcAttrsW (table : List Str) (s : Str) : List Str × Str :=
  if s.isEmpty then ([], [])
  else
    let r := attrsWordsGo table (parenSplit ' ' (tabsToBlanks (lower s)))
    (r.1, dropBlanks r.2.flatten)

/-- the function of the code, by variant -/
def procAttrs (byWord : Bool) (table : List Str) (s : Str) : List Str × Str :=
  if byWord then listProcAttrsW table s else listProcAttrs table s

/-- Is the table in an order in which the substring variant can work: every keyword is a non-empty
    word without blanks, and no keyword occurs inside a keyword that is tried *later* (the longer of
    two nested keywords must be found - and deleted - first).  In particular no keyword is listed twice. -/
def orderSound : List Str → Bool
  | [] => true
  | k :: ks => !k.isEmpty && !k.contains ' ' && ks.all (fun k' => !isInfix k k') && orderSound ks

/-- no keyword of the table occurs in `w` -/
def noKeyword (table : List Str) (w : Str) : Bool := table.all (fun k => !isInfix k w)

/-- specification side: a chunk of the prefix as the programmer writes it - parentheses and brackets balanced
    and no blank outside them (`elemental`, `real(kind = 8)`, `type(module_data)`) -/
def chunkOk : Str → Int → Int → Bool
  | [], lv, bl => lv == 0 && bl == 0
  | c :: r, lv, bl =>
    if c == '(' then chunkOk r (lv + 1) bl
    else if c == ')' then chunkOk r (lv - 1) bl
    else if c == '[' then chunkOk r lv (bl + 1)
    else if c == ']' then chunkOk r lv (bl - 1)
    else if c == ' ' && lv == 0 && bl == 0 then false
    else chunkOk r lv bl

/-- `str.split(",")` -/
def splitCommas : Str → List Str
  | [] => [[]]
  | c :: cs =>
    if c == ',' then [] :: splitCommas cs
    else
      match splitCommas cs with
      | [] => [[c]]
      | p :: ps => (c :: p) :: ps

/-- `_procedure_initialize`: `[arg for arg in SPLIT_RE.split(arguments[1:-1].strip()) if arg]` with
    SPLIT_RE = `\s*,\s*`; `arguments` is the parenthesised list as matched by SUBROUTINE_RE / FUNCTION_RE -/
def procArgs (arguments : Str) : List Str :=
  ((splitCommas (strip ((arguments.drop 1).dropLast))).map strip).filter (fun a => !a.isEmpty)

/-- specification side: an argument name as it is written: not empty, no comma, no white space -/
def argOk (n : Str) : Bool := !n.isEmpty && n.all (fun c => c != ',' && !isSpace c)

/-- `FortranFunction._initialize`: the type of the result as far as the FUNCTION statement gives it:
    `parse_type` of what `_list_of_procedure_attributes` left over (`none`: nothing left or a ValueError,
    which is suppressed - the result is then looked for among the declarations of the body, or implicitly
    typed).  `error`: an exception that is not suppressed / an input `TypeSpec.parseType` does not model. -/
def resultTypeOf (byWord : Bool) (table : List Str) (s : Str) : Except TypeSpec.TErr (Option TypeSpec.Parsed) :=
  match TypeSpec.parseType (procAttrs byWord table s).2 with
  | .ok p => .ok (some p)
  | .error .invalidDecl => .ok none
  | .error .badType => .ok none
  | .error .badProto => .ok none
  | .error .tooMany => .ok none
  | .error e => .error e

end Ford.ProcPrefix
