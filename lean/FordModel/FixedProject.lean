/-
  C14, round 6: *with which configuration* a source file of a project - and every file it
  INCLUDEs - is read.

  * `ford/__init__.py: main` 387-406: with `preprocess: false` the list of preprocessed
    extensions is emptied (`effectiveFpp`).
  * `ford/fortran_project.py: Project.__init__ / _fortran_file`: a file is parsed when its
    extension is in `extensions + fixed_extensions`; it is run through the preprocessor iff its
    extension is in `fpp_extensions`; it is read in fixed form iff its extension is in
    `fixed_extensions` (`fileCfg`).
  * `ford/sourceform.py: FortranSourceFile.__init__`: the reader gets `fixed`, the *setting*
    `fixed_length_limit` (whatever the form, whether preprocessed or not) and the preprocessor.
  * `ford/reader.py: FortranReader.__init__`: the line source is the preprocessor's output when a
    preprocessor is given, else the file; then, for `fixed`, `convertToFree(..., length_limit)`
    (`readerView`).
  * `ford/reader.py: FortranReader.include`: the nested reader gets `self.fixed`,
    `self.length_limit` and *no* preprocessor (`includeCfg`).

  The external preprocessor itself is a parameter (`pp : List Str → List Str`, any function).
-/
import FordModel.Fixed
import FordModel.Reader
import FordModel.Include
import FordModel.FixedTree
namespace Ford.Fixed
open Ford

/-- the three constructor arguments of `FortranReader` that decide how the text of a file is
    turned into free-form lines -/
structure ReaderCfg where
  fixed : Bool
  lim : Bool
  pp : Bool
deriving DecidableEq, Repr

/-- what `Project` looks at (the lists after `ProjectSettings.__post_init__`) -/
structure ProjSettings where
  extensions : List Str
  fixedExtensions : List Str
  fppExtensions : List Str
  /-- `fixed_length_limit` -/
  lengthLimit : Bool

/-- `ford.main`: `if not proj_data.preprocess: proj_data.fpp_extensions = []` -/
def effectiveFpp (preprocess : Bool) (fpp : List Str) : List Str := if preprocess then fpp else []

/-- `Project.__init__` + `_fortran_file` + `FortranSourceFile.__init__`: the configuration of the
    reader of a file with extension `ext`; `none` = not parsed as Fortran. -/
def fileCfg (s : ProjSettings) (ext : Str) : Option ReaderCfg :=
  match sourceForm s.extensions s.fixedExtensions ext with
  | none => none
  | some fx => some { fixed := fx, lim := s.lengthLimit, pp := s.fppExtensions.contains ext }

/-- `FortranReader.include`: the nested reader (`self.fixed, self.length_limit`, no preprocessor) -/
def includeCfg (c : ReaderCfg) : ReaderCfg := { c with pp := false }

/-- `FortranReader.__init__`: the lines the reader iterates over -/
def readerView (v : Variant) (c : ReaderCfg) (pp : List Str → List Str) (lines : List Str) : List Str :=
  let src := if c.pp then pp lines else lines
  if c.fixed then fixedView v c.lim src else freeView src

/-- `list(FortranReader(main, …, fixed, length_limit, preprocessor))` over the files `fs`:
    the main file with the configuration `c`, every included file (at every depth: the nested
    reader's own `include` passes its own `self.…` on) with `includeCfg c`. -/
def readProjectFile (ic : Include.Cfg) (v : Variant) (c : ReaderCfg) (m : Marks)
    (pp : List Str → List Str) (fs : Include.FS) (depth : Nat) (main : List Str) :
    Except Include.IErr (List Str) :=
  Include.readFS ic m (fs.map fun f => (f.1, readerView v (includeCfg c) pp f.2)) depth
    (readerView v c pp main)

end Ford.Fixed
