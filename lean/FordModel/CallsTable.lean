/- The mechanism of `Calls.lean` instantiated with the tables generated from the source. -/
import FordModel.Calls
import FordModel.CallsScope
import FordModel.Generated.C08
namespace Ford.Calls

/-- `INTRINSICS` as the model's strings -/
def intr : List Str := Generated.C08.intrinsics.map String.toList

/-- the recorded call chains of a unit whose body consists of `lines` -/
def recorded (lines : List Str) : List Chain := (runUnit Generated.C08.guards Generated.C08.cascade intr lines).calls

def recordedOf (lines : List String) : List (List String) :=
  (recorded (lines.map String.toList)).map (fun c => c.map String.ofList)

/-- is branch `(name, guard)` listed before the CALL branch? -/
def precedesCall : List (String × String) → String → String → Bool
  | [], _, _ => false
  | (n, g) :: rest, name, guard =>
    if n == "CALL_RE|SUBCALL_RE" then false
    else if n == name && g == guard then true
    else precedesCall rest name guard

/-- is branch `(name, guard)` listed before every branch whose name is in `stops`? -/
def precedesAll (stops : List String) : List (String × String) → String → String → Bool
  | [], _, _ => false
  | (n, g) :: rest, name, guard =>
    if stops.contains n then false
    else if n == name && g == guard then true
    else precedesAll stops rest name guard

/-- lower-case names of `unit.variables` after `_cleanup`, with the generated EXTERNAL filter -/
def scopeNames (u : Scope.Unit) : List Str := Scope.scopeVarNames Generated.C08.scopeFilter u

/-- the name tables of the unit's scope as `get_label_item` sees them -/
def scopeTab (h : Scope.Host) (u : Scope.Unit) : String → List Str := Scope.layer h u (scopeNames u)

/-- the chains of length 1 that `correlate` keeps, over the generated filter, merge order and
    removed classes -/
def keptCalls (h : Scope.Host) (u : Scope.Unit) (calls : List Chain) : List Str :=
  Scope.resolveScope Generated.C08.labelOrder Generated.C08.removedKinds (scopeTab h u) calls

end Ford.Calls
