/-
  Basic character-level helpers shared by every model.
  Strings are `List Char` in the models (proof-friendly); the driver converts.
  Import-free on purpose (the driver is a compiled executable).
-/
namespace Ford

abbrev Str := List Char

/-- Python `str.strip()` whitespace, restricted to ASCII (the harness only
    generates ASCII). -/
def isSpace (c : Char) : Bool :=
  c == ' ' || c == '\t' || c == '\n' || c == '\r' || c == '\x0b' || c == '\x0c'

def isQuote (c : Char) : Bool := c == '\'' || c == '"'

def lstrip : Str → Str
  | [] => []
  | c :: cs => if isSpace c then lstrip cs else c :: cs

def rstrip (s : Str) : Str := (lstrip s.reverse).reverse

def strip (s : Str) : Str := rstrip (lstrip s)

def isBlank (s : Str) : Bool := s.all isSpace

/-- ASCII lower-casing (Python `str.lower()` on ASCII input). -/
def lowerChar (c : Char) : Char :=
  if 'A' ≤ c ∧ c ≤ 'Z' then Char.ofNat (c.toNat + 32) else c

def lower (s : Str) : Str := s.map lowerChar

def isAlpha (c : Char) : Bool := ('a' ≤ c ∧ c ≤ 'z') || ('A' ≤ c ∧ c ≤ 'Z')
def isDigit (c : Char) : Bool := '0' ≤ c ∧ c ≤ '9'
/-- `\w` of Python's `re` on ASCII input. -/
def isWord (c : Char) : Bool := isAlpha c || isDigit c || c == '_'

/-- `s.startswith(p)` -/
def startsWith : Str → Str → Bool
  | _, [] => true
  | [], _ :: _ => false
  | c :: cs, p :: ps => c == p && startsWith cs ps

/-- join with a separator character -/
def joinSep (sep : Char) : List Str → Str
  | [] => []
  | [x] => x
  | x :: y :: r => x ++ sep :: joinSep sep (y :: r)

/-- join with a separator string -/
def joinStr (sep : Str) : List Str → Str
  | [] => []
  | [x] => x
  | x :: y :: r => x ++ sep ++ joinStr sep (y :: r)

theorem lstrip_blank_nil (s : Str) (h : isBlank s = true) : lstrip s = [] := by
  induction s with
  | nil => rfl
  | cons c cs ih =>
    simp [isBlank] at h
    simp [lstrip, h.1]
    exact ih (by simp [isBlank]; exact h.2)

theorem lstrip_idem (s : Str) : lstrip (lstrip s) = lstrip s := by
  induction s with
  | nil => rfl
  | cons c cs ih =>
    by_cases hc : isSpace c = true
    · simp [lstrip, hc, ih]
    · simp [lstrip, hc]

theorem lstrip_of_not_space (c : Char) (cs : Str) (h : isSpace c = false) :
    lstrip (c :: cs) = c :: cs := by simp [lstrip, h]

end Ford
