/-
  Mirrors of ford/utils.py: quote_split, paren_split, strip_paren.
-/
import FordModel.Basic.Chars
namespace Ford

/-- `ford.utils.quote_split(sep, string)`.
    `sq` mirrors the Python variable `squote` (which, confusingly, is set by a
    *double* quote character) and `dq` mirrors `dquote`.  `cur` is the piece
    being accumulated, reversed.  The two-character look-ahead of the Python
    (`string[i+1]`) is the second element of the pattern. -/
def qsplitAux (sep : Char) : Str → Bool → Bool → Str → List Str
  | [], _, _, cur => [cur.reverse]
  | [c], sq, dq, cur =>
    if c == '"' && !dq then [(c :: cur).reverse]
    else if c == '\'' && !sq then [(c :: cur).reverse]
    else if c == sep && !dq && !sq then [cur.reverse, []]
    else [(c :: cur).reverse]
  | c :: d :: rest, sq, dq, cur =>
    if c == '"' && !dq then
      if !sq then qsplitAux sep (d :: rest) true dq (c :: cur)
      else if d == '"' then qsplitAux sep rest sq dq (d :: c :: cur)
      else qsplitAux sep (d :: rest) false dq (c :: cur)
    else if c == '\'' && !sq then
      if !dq then qsplitAux sep (d :: rest) sq true (c :: cur)
      else if d == '\'' then qsplitAux sep rest sq dq (d :: c :: cur)
      else qsplitAux sep (d :: rest) sq false (c :: cur)
    else if c == sep && !dq && !sq then
      cur.reverse :: qsplitAux sep (d :: rest) sq dq []
    else qsplitAux sep (d :: rest) sq dq (c :: cur)

def quoteSplit (sep : Char) (s : Str) : List Str := qsplitAux sep s false false []

/-- `ford.utils.paren_split(sep, string)`; levels are `Int` because the Python
    lets them go negative. -/
def psplitAux (sep : Char) : Str → Int → Int → Str → List Str
  | [], _, _, cur => [cur.reverse]
  | c :: rest, lv, bl, cur =>
    if c == '(' then psplitAux sep rest (lv + 1) bl (c :: cur)
    else if c == ')' then psplitAux sep rest (lv - 1) bl (c :: cur)
    else if c == '[' then psplitAux sep rest lv (bl + 1) (c :: cur)
    else if c == ']' then psplitAux sep rest lv (bl - 1) (c :: cur)
    else if c == sep && lv == 0 && bl == 0 then cur.reverse :: psplitAux sep rest lv bl []
    else psplitAux sep rest lv bl (c :: cur)

def parenSplit (sep : Char) (s : Str) : List Str := psplitAux sep s 0 0 []

/-- `ford.utils.strip_paren(line, retlevel)` -/
def stripParenAux (ret : Int) : Str → Int → Str → List Str → List Str
  | [], _, cur, acc => if cur.isEmpty then acc.reverse else (cur.reverse :: acc).reverse
  | c :: rest, lv, cur, acc =>
    if c == '(' then
      let cur' := if lv == ret || lv + 1 == ret then c :: cur else cur
      stripParenAux ret rest (lv + 1) cur' acc
    else if c == ')' then
      let cur' := if lv == ret || lv - 1 == ret then c :: cur else cur
      if lv == ret then stripParenAux ret rest (lv - 1) [] (cur'.reverse :: acc)
      else stripParenAux ret rest (lv - 1) cur' acc
    else if lv == ret then stripParenAux ret rest lv (c :: cur) acc
    else stripParenAux ret rest lv cur acc

def stripParen (s : Str) (ret : Nat) : List Str := stripParenAux ret s 0 [] []

end Ford
