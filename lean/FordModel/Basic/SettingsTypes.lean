/-
  Value and type vocabulary of the settings model (C15).  Kept apart from
  `Settings.lean` so that the translator-generated schema
  (`Generated/C15.lean`) can be stated in it.
-/
import FordModel.Basic.Chars
namespace Ford

/-- `ford.settings.ExtraFileType` -/
structure Eft where
  ext : Str
  comment : Str
  lexer : Option Str
  deriving DecidableEq, Repr

/-- Python values that can be an element of a list / a value of a dict in a
    settings object. `tbl` is a TOML table inside an array of tables. -/
inductive Atom
  | str (s : Str)
  | path (p : Str)
  | int (i : Int)
  | bool (b : Bool)
  | tbl (kvs : List (Str × Str))
  | eft (e : Eft)
  deriving DecidableEq, Repr

/-- Python values held by a settings field (or given for it in a file / on the command line). -/
inductive PyVal
  | none
  | atom (a : Atom)
  | list (xs : List Atom)
  | dict (kvs : List (Str × Atom))
  deriving DecidableEq, Repr

/-- The declared type of a `ProjectSettings` field, as far as `convert_setting`,
    `__post_init__` and `normalise_paths` distinguish types. -/
inductive Tag
  | bool | int | str | optStr | path | optPath
  | listStr | listPath | dictStr | dictEft | plainList
  | noInit   -- `bool = field(init=False)`
  | other    -- a declared type the model does not know (breaks `schema_supported`)
  deriving DecidableEq, Repr

/-- argparse actions used by `get_command_line_arguments` -/
inductive CliKind
  | append | store | storeTrue | storeFalse | otherAction
  deriving DecidableEq, Repr

/-- What `normalise_paths` assigns to a path option when its "is this still the default?" test
    (`if self.<field> == <SENTINEL>:`) succeeds. -/
inductive SentinelRepl
  | packageFile   -- `Path(__file__).parent / <SENTINEL>`: the file of that name shipped inside the `ford` package
  | projectDir    -- `self.directory`: the directory of the project file
  deriving DecidableEq, Repr

/-- Which directory an attempt of `load_settings` to find the manifest (`load_toml_settings(<dir>)`) looks in. -/
inductive LookupDir
  | projectDir   -- the directory of the project file (`os.path.dirname` of the path given on the command line)
  | cwd          -- the working directory FORD was started in
  deriving DecidableEq, Repr

end Ford
