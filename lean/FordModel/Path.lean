/-
  C09 — paths as segment lists: `os.path.normpath`, `os.path.relpath` and the
  resolution of a relative URL against the directory of the page that carries it.

  All paths are absolute and given by their segments below the root `/`
  (the harness only ever feeds absolute POSIX paths).  Import-free (driver).
-/
import FordModel.Basic.Chars
namespace Ford.Path

abbrev Seg := Str

def up : Seg := ['.', '.']
def cur : Seg := ['.']

/-- One step of `os.path.normpath` over the segments of an absolute path; the
    stack holds the segments kept so far, innermost first.  `..` at the root is
    dropped (`normpath('/..') == '/'`). -/
def normStep (st : List Seg) (s : Seg) : List Seg :=
  if s = [] then st
  else if s = cur then st
  else if s = up then st.tail
  else s :: st

/-- `os.path.normpath` of an absolute path (segments below the root). -/
def norm (p : List Seg) : List Seg := (p.foldl normStep []).reverse

/-- A segment `normpath` keeps as it is. -/
def NormalSeg (s : Seg) : Prop := s ≠ [] ∧ s ≠ cur ∧ s ≠ up

instance (s : Seg) : Decidable (NormalSeg s) := by unfold NormalSeg; infer_instance

/-- A normal path: what `normpath`/`resolve()` return. -/
def Normal (p : List Seg) : Prop := ∀ s ∈ p, NormalSeg s

instance (p : List Seg) : Decidable (Normal p) := by unfold Normal; infer_instance

def ups (n : Nat) : List Seg := List.replicate n up

/-- `os.path.relpath(target, start)` on *normal* absolute paths: strip the common
    prefix, climb out of what is left of `start`, descend into what is left of
    `target` (CPython `posixpath.relpath`: `[pardir] * (len(start_list) - i) + path_list[i:]`). -/
def relpath : List Seg → List Seg → List Seg
  | t :: ts, s :: ss => if t = s then relpath ts ss else ups (ss.length + 1) ++ (t :: ts)
  | ts, [] => ts
  | [], s :: ss => ups (ss.length + 1)

/-- `os.path.relpath` as Python calls it: both arguments go through
    `abspath` (= `normpath` for absolute input) first, and an empty result is `.`. -/
def relpathPy (target start : List Seg) : List Seg :=
  let r := relpath (norm target) (norm start)
  if r = [] then [cur] else r

/-- Resolve the relative reference `rel` found on a page whose directory is
    `dir` (RFC 3986 section 5.2 for path-only references = `normpath(join(dir, rel))`). -/
def resolve (dir rel : List Seg) : List Seg := norm (dir ++ rel)

/-- split at `/` -/
def splitSlash (s : Str) : List Seg :=
  let rec go : Str → Str → List Seg
    | [], acc => [acc.reverse]
    | c :: cs, acc => if c = '/' then acc.reverse :: go cs [] else go cs (c :: acc)
  go s []

/-- a relative reference as text -/
def render (p : List Seg) : Str := joinSep '/' p

/-- an absolute path as text -/
def renderAbs (p : List Seg) : Str := '/' :: joinSep '/' p

/-- number of directories between the root and the file -/
def depth (file : List Seg) : Nat := file.length - 1

def dirOf (file : List Seg) : List Seg := file.dropLast

end Ford.Path
