/-
  C04 - what Fortran says (F2018 8.5.2, 8.6.1, 7.5.4.8, 7.5.5 p.3), written
  without reference to FORD's mechanism.  FORD reports one value per entity,
  so accessibility and PROTECTED are folded: a private entity is `private`
  (PROTECTED is irrelevant outside the module), an accessible PROTECTED
  variable is `protected`, anything else accessible is `public`.
-/
import FordModel.Access
namespace Ford.Access

def accessWord : Attr → Option Perm
  | .acc .pub => some .pub
  | .acc .priv => some .priv
  | _ => none

/-- the access-spec among the attributes of a declaration, if any -/
def explicitOf (attrs : List Attr) : Option Perm := attrs.findSome? accessWord

/-- all `(name, attribute)` pairs of the attribute statements of a specification part -/
def stmtEntries : List Stmt → List (Str × Attr)
  | [] => []
  | .access a ns :: r => ns.map (fun n => (n, a)) ++ stmtEntries r
  | _ :: r => stmtEntries r

/-- the access statement naming `n`, if any -/
def stmtAccess (stmts : List Stmt) (n : Str) : Option Perm :=
  (stmtEntries stmts).findSome? (fun x => if x.1 = n then accessWord x.2 else none)

def hasProtected (stmts : List Stmt) (attrs : List Attr) (n : Str) : Bool :=
  attrs.contains (.acc .prot) || (stmtEntries stmts).contains (n, .acc .prot)

/-- default accessibility of a module: PRIVATE iff a bare `private` statement
    stands anywhere in its specification part -/
def defaultAccess (stmts : List Stmt) : Perm :=
  if stmts.contains (.bare .priv) then .priv else .pub

/-- accessibility of a module entity declared with attributes `attrs` under the name `n` -/
def fortranAccess (stmts : List Stmt) (attrs : List Attr) (n : Str) : Perm :=
  match ((explicitOf attrs).orElse (fun _ => stmtAccess stmts n)).getD (defaultAccess stmts) with
  | .priv => .priv
  | _ => if hasProtected stmts attrs n then .prot else .pub

/-- component part / binding part of a derived-type definition -/
def compPart (body : List TStmt) : List TStmt := body.takeWhile (· ≠ .contains)
def bindPart (body : List TStmt) : List TStmt := ((body.dropWhile (· ≠ .contains)).drop 1).takeWhile (· ≠ .contains)

def partDefault (part : List TStmt) : Perm := if part.contains (.bare .priv) then .priv else .pub

/-- components: the component's access-spec, else PRIVATE iff the component part has a `private` statement -/
def componentAccess (body : List TStmt) (attrs : List Attr) : Perm :=
  (explicitOf attrs).getD (partDefault (compPart body))

/-- bindings: the binding's access-spec, else PRIVATE iff the binding part has a `private` statement -/
def bindingAccess (body : List TStmt) (attrs : List Attr) : Perm :=
  (explicitOf attrs).getD (partDefault (bindPart body))


/-! ### vocabulary of the theorem statements -/

/-- what a statement declares: (entity list, name, attribute words of the declaration) -/
def declares : Stmt → List (Cat × Str × List Attr)
  | .var ns as => ns.map (fun n => (.var, n, as))
  | .typeDef n as _ => [(.type, n, as)]
  | .iface .generic n _ _ => [(.iface, n, [])]
  | .iface .abstract _ ps _ => ps.map (fun q => (.absIface, q, []))
  | .iface .plain _ ps _ => ps.map (fun q => (.iface, q, []))
  | .proc f n => [(if f then .func else .sub, n, [])]
  | _ => []

def isProc : Stmt → Bool
  | .proc _ _ => true
  | _ => false

/-- the attribute words the attribute statements of `stmts` give to the name `n` -/
def stmtWords (stmts : List Stmt) (n : Str) : List Attr :=
  ((stmtEntries stmts).filter (fun x => x.1 = n)).map (·.2)

/-- Fortran C815/C869 etc.: every declared name is declared once -/
def NamesOnce (stmts : List Stmt) : Prop := ((stmts.flatMap declares).map (fun x => x.2.1)).Nodup

/-- an entity is given an access-spec at most once (attribute or statement) -/
def OneAccessSpec (stmts : List Stmt) (attrs : List Attr) (n : Str) : Prop :=
  ((attrs ++ stmtWords stmts n).filterMap accessWord).length ≤ 1

/-- at most one kind of bare access statement, and it is `public` or `private` -/
def BareLegal (stmts : List Stmt) : Prop :=
  Stmt.bare .prot ∉ stmts ∧ (Stmt.bare .pub ∈ stmts → Stmt.bare .priv ∉ stmts)

/-- The class of the known defect "late bare private": the entity has no access-spec of its own and a bare
    `private` statement stands after its declaration. -/
def LateDefault (stmts post : List Stmt) (attrs : List Attr) (n : Str) : Prop :=
  Stmt.bare .priv ∈ post ∧ explicitOf attrs = none ∧ stmtAccess stmts n = none

instance (stmts post : List Stmt) (attrs : List Attr) (n : Str) : Decidable (LateDefault stmts post attrs n) := by
  unfold LateDefault; infer_instance

/-- a submodule contains no access statement and no access attribute (C869, C817) -/
def AccessFree : List Stmt → Prop
  | [] => True
  | .bare _ :: _ => False
  | .access (.acc _) _ :: _ => False
  | .var _ as :: r => (∀ a ∈ as, a = Attr.other) ∧ AccessFree r
  | .typeDef _ as _ :: r => (∀ a ∈ as, a = Attr.other) ∧ AccessFree r
  | _ :: r => AccessFree r

end Ford.Access
