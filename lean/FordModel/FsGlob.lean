/-
  C19 - "is this path inside that directory" as the code decides it, on path *strings* whose
  directory names are arbitrary (every character except `/`).

  Mirrors, as the code is:
    fnmatch.fnmatch / fnmatch.translate (CPython 3.12, POSIX: `normcase` is the identity)
        `*` any run of characters (also `/`), `?` one character, `[seq]` / `[!seq]` a character
        class with ranges, a `[` that is never closed is a literal `[`
    ford/fortran_project.py  find_all_files 103-107
        for exclude_dir in settings.exclude_dir:
            src_files = {src for src in src_files if not fnmatch(str(src), f"{exclude_dir}/*")}
        (the output directory is the last entry of `exclude_dir`: settings.py 241, __init__.py 361)
    ford/__init__.py  parse_arguments 368-374   (the refusal; component-wise, `Fs.refuses`)

  `Generated.C19.excludeOutputByPath` (observed by a probe of the real `find_all_files`) says whether
  files below the output directory are *also* dropped by location (`output_dir in src.parents`,
  = fixes/C19-output-exclude-glob.diff) - the code as found only has the pattern test.
-/
import FordModel.Fs
namespace Ford.FsGlob
open Ford Ford.Fs

/-! ### fnmatch -/

inductive Tok
  | lit (c : Char)
  | any
  | star
  | cls (neg : Bool) (body : Str)
  deriving DecidableEq, Repr

/-- scanning state inside the body of a bracket expression (ranges are taken greedily, left to right:
    `a-b` is a range when a character follows the `-`) -/
inductive CS
  | none
  | one (a : Char)
  | dash (a : Char)

/-- is `c` in the set a bracket body denotes -/
def classHas (c : Char) : CS → Str → Bool
  | .none, [] => false
  | .one a, [] => a == c
  | .dash a, [] => a == c || c == '-'
  | .none, x :: r => classHas c (.one x) r
  | .one a, x :: r => if x = '-' then classHas c (.dash a) r else (a == c) || classHas c (.one x) r
  | .dash a, x :: r => (decide (a ≤ c) && decide (c ≤ x)) || classHas c .none r

/-- does the bracket expression opened just before `r` get closed: after an optional `!` and an
    optional `]` (a `]` in first position is a member) there is a `]` -/
def closes (r : Str) : Bool :=
  let r1 := match r with | '!' :: t => t | _ => r
  let r2 := match r1 with | ']' :: t => t | _ => r1
  r2.contains ']'

inductive TS
  | top
  | open0
  | open1
  | inCls (neg : Bool) (bodyRev : Str)

/-- `fnmatch.translate`, as a token list -/
def tokAux : TS → Str → List Tok
  | .top, [] => []
  | .top, c :: r =>
    if c = '*' then .star :: tokAux .top r
    else if c = '?' then .any :: tokAux .top r
    else if c = '[' ∧ closes r = true then tokAux .open0 r
    else .lit c :: tokAux .top r
  | .open0, c :: r => if c = '!' then tokAux .open1 r else tokAux (.inCls false [c]) r
  | .open1, c :: r => tokAux (.inCls true [c]) r
  | .inCls neg b, c :: r =>
    if c = ']' then .cls neg b.reverse :: tokAux .top r else tokAux (.inCls neg (c :: b)) r
  | .open0, [] => []
  | .open1, [] => []
  | .inCls _ _, [] => []

def tokenize (pat : Str) : List Tok := tokAux .top pat

def tokMatch : Tok → Char → Bool
  | .lit a, c => a == c
  | .any, _ => true
  | .cls neg b, c => classHas c .none b != neg
  | .star, _ => false

/-- some suffix of `s` is accepted by `k` -/
def starAny (k : Str → Bool) : Str → Bool
  | [] => k []
  | c :: r => k (c :: r) || starAny k r

def globT : List Tok → Str → Bool
  | [], s => s.isEmpty
  | .star :: p, s => starAny (globT p) s
  | .lit _ :: _, [] => false
  | .any :: _, [] => false
  | .cls _ _ :: _, [] => false
  | .lit a :: p, c :: s => (a == c) && globT p s
  | .any :: p, _ :: s => globT p s
  | .cls neg b :: p, c :: s => (classHas c .none b != neg) && globT p s

/-- `fnmatch.fnmatch(name, pat)` -/
def fnmatch (name pat : Str) : Bool := globT (tokenize pat) name

/-- a character `fnmatch` gives a meaning to -/
def isMeta (c : Char) : Bool := c == '*' || c == '?' || c == '['

/-- a path string without pattern characters -/
def plain (s : Str) : Bool := s.all (fun c => !isMeta c)

/-! ### the source search's exclusion of directories -/

/-- `fnmatch(str(src), f"{exclude_dir}/*")` -/
def excludedBy (dir file : Str) : Bool := fnmatch file (dir ++ ['/', '*'])

/-- the loop of `find_all_files` over `settings.exclude_dir` -/
def dropExcluded : List Str → List Str → List Str
  | [], files => files
  | d :: ds, files => dropExcluded ds (files.filter (fun f => !excludedBy d f))

/-- `output_dir in src.parents` on the strings of absolute, normalised paths: strictly below -/
def belowStr (dir file : Str) : Bool :=
  (parents (norm (splitSlash file))).contains (norm (splitSlash dir))

/-- what `find_all_files` keeps of the files found below the source directories: the user's
    `exclude_dir` entries and then the output directory are applied as patterns; with the repair the
    output directory is in addition applied as a location -/
def keepSources (byPath : Bool) (userExcl : List Str) (out : Str) (files : List Str) : List Str :=
  let kept := dropExcluded (userExcl ++ [out]) files
  if byPath then kept.filter (fun f => !belowStr out f) else kept

/-- the code under test -/
def keepSourcesGen (userExcl : List Str) (out : Str) (files : List Str) : List Str :=
  keepSources Generated.C19.excludeOutputByPath userExcl out files

/-- the refusal of `parse_arguments` on path strings (absolute, as `normalise_paths` leaves them):
    `output_dir in (srcdir, *srcdir.parents)` - pathlib compares component lists -/
def refusesStr (out : Str) (srcs : List Str) : Bool :=
  srcs.any (fun s =>
    let d := norm (splitSlash s)
    (d :: parents d).contains (norm (splitSlash out)))

/-- the same decision taken with the source search's pattern test (what a shared "is under" helper
    built on `fnmatch` computes: `fnmatch(f"{src}/", f"{out}/*")`) - only for the witness theorem -/
def refusesGlob (out : Str) (srcs : List Str) : Bool :=
  srcs.any (fun s => fnmatch (s ++ ['/']) (out ++ ['/', '*']))

end Ford.FsGlob
