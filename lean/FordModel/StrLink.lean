/-
  C09 — the link form of `FortranBase.__str__` versus the pages that are written.

  `__str__` prints `<a href='{full_url}'>{name}</a>` when the entity has a URL and
  its `visible` flag is on, else the bare name.  Templates print entities (and
  their parents / ancestors) through this method (`{{ x.parent | relurl }}`,
  breadcrumbs, tables), so the flag is the only thing that keeps a link to a page
  away when that page is not written.  For most entities `visible` is computed
  while parsing; for the classes that are constructed directly (own `__init__`)
  it is a function of the settings, which is what this file models:

    visInit    class ↦ condition on the project shape under which a freshly
               constructed instance has `visible = True`
    listClass  project list ↦ class of its members (annotations of `Project`)

  and the pages come from `entity_list_page_map` (Nav.Tables.pageMap).
  The tables are regenerated from the source (Generated/C09.lean).
  Import-free (driver).
-/
import FordModel.Nav
import FordModel.Url
namespace Ford.StrLink
open Ford.Nav Ford.Url

structure Tables where
  /-- classes with their own constructor: condition for `self.visible` after `__init__` -/
  visInit : List (Str × Cond)
  /-- `self.<list>: List[<class>] = []` in `Project.__init__` -/
  listClass : List (Str × Str)
  /-- the default of `getattr(self, "visible", <default>)` in `__str__` -/
  defaultVisible : Bool

/-- Upper bound of `visible` for instances of `cls`: the static rule when the class
    has one, otherwise "may be visible" (computed during parsing, not modelled). -/
def visCond (T : Tables) (cls : Str) : Cond := (lookup cls T.visInit).getD .tt

/-- `getattr(self, "visible", default)`; `flag` is the attribute's run-time value for
    classes without a static rule (`none`: the attribute does not exist). -/
def visible (T : Tables) (sh : Shape) (n : Node) (flag : Option Bool) : Bool :=
  match lookup n.cls T.visInit with
  | some c => eval sh c
  | none => flag.getD T.defaultVisible

/-- does `FortranBase.__str__` print the `<a href=…>` form? -/
def strEmitsLink (U : Url.Tables) (T : Tables) (sh : Shape) (chain : List Node) (flag : Option Bool) : Bool :=
  match chain with
  | [] => false
  | n :: _ => (getUrl U chain).isSome && visible T sh n flag

/-- the condition under which `Documentation.__init__` makes pages for the members of `project.<l>` -/
def pageCond (N : Nav.Tables) (l : Str) : Cond :=
  disj ((N.pageMap.filter (coversList N l)).map (·.2))

/-- are the pages of the members of `project.<l>` written? -/
def pageWritten (N : Nav.Tables) (sh : Shape) (l : Str) : Bool :=
  N.pageMap.any fun e => coversList N l e && eval sh e.2

/-- can an instance of `cls` be the `parent` of an entity that owns a page?
    (the `isinstance(self.parent, …)` tuple of `get_dir`) -/
def isParentClass (U : Url.Tables) (cls : Str) : Bool :=
  (mroOf U cls).any fun c => U.dirParent.contains c

/-- obligation for one project list: whenever a member may print its link, its page is written -/
def listOk (N : Nav.Tables) (T : Tables) (e : Str × Str) : Bool :=
  valid (imp (.and N.mainPre (visCond T e.2)) (pageCond N e.1))

/-- the project lists whose members are printed as somebody's parent -/
def parentLists (U : Url.Tables) (T : Tables) : List (Str × Str) :=
  T.listClass.filter fun e => isParentClass U e.2

end Ford.StrLink
