/-
  C17 - specification-side vocabulary: what the property statement says about a page
  directory, written without looking at the mechanism (no sorting, merging or look-ups),
  and the per-name reading of the `for name in mergedfilelist` loop.
-/
import FordModel.PageTree
namespace Ford.PT
open Ford Ford.Gen.C17

/-! ## per-name reading of the loop of `get_page_tree` -/

/-- the page that the loop appends for `n`, if any -/
def pageAt (v : Variant) (pc : Option (List Str)) (rs : List (Str × Bool × Res)) (n : Str) : Option Node :=
  if skipName n then none else
  match lookupRes n rs with
  | some (isDir, .page nd) => if isDir && pcContains v pc n then none else some nd
  | _ => none

/-- `n` is recorded in `node.files` -/
def fileAt (v : Variant) (pc : Option (List Str)) (rs : List (Str × Bool × Res)) (n : Str) : Bool :=
  if skipName n then false else
  match lookupRes n rs with
  | some (isDir, .file) => !(isDir && pcContains v pc n)
  | _ => false

/-- processing `n` raises -/
def abortAt (v : Variant) (pc : Option (List Str)) (loc : PathS) (rs : List (Str × Bool × Res)) (n : Str) :
    Option PathS :=
  if skipName n then none else
  match lookupRes n rs with
  | none => (match v.mo with | .raises => some (loc ++ [n]) | .skips => none)
  | some (isDir, .abort p) => if isDir && pcContains v pc n then none else some p
  | _ => none

/-! ## what the property statement expects -/

/-- "at the same relative path": `<stem>.html` next to where `<stem>.md` was -/
def specHtml (n : Str) : Str := n.take (n.length - mdSuffix.length) ++ ".html".toList

def titled (m : Meta) : Bool := m.title.isSome

/-- a directory is a sub-tree iff it has a titled index.md -/
def indexed (cs : List Entry) : Bool := (indexMeta cs).isSome

mutual
/-- pages expected from entry `e` of an indexed directory at `loc` (visibility of `e` itself is
    decided by the caller) -/
def expEntry (loc : PathS) : Entry → List PathS
  | .file n m => if isMd n && titled m then [loc ++ [specHtml n]] else []
  | .dir n cs => if indexed cs then (loc ++ [n, specHtml indexName]) :: expEntries (loc ++ [n]) cs else []
/-- pages expected from the entries of a directory: every visible entry other than index.md -/
def expEntries (loc : PathS) : List Entry → List PathS
  | [] => []
  | e :: es => (if skipName e.name || e.name == indexName then [] else expEntry loc e) ++ expEntries loc es
end

/-- pages expected from the page directory `cs` -/
def expPages (cs : List Entry) : List PathS :=
  if indexed cs then [specHtml indexName] :: expEntries [] cs else []

/-! ### the same expectation, told from the side of the source files -/

/-- "at the same relative path": the page of the Markdown file at `src` (relative to the page
    directory) is `<stem>.html` in the same place -/
def pageOf (src : PathS) : PathS := src.dropLast ++ (src.getLast?.map specHtml).toList

mutual
/-- the titled Markdown files below entry `e` of an indexed directory at `loc` that the statement
    turns into pages (paths relative to the page directory) -/
def srcEntry (loc : PathS) : Entry → List PathS
  | .file n m => if isMd n && titled m then [loc ++ [n]] else []
  | .dir n cs => if indexed cs then (loc ++ [n, indexName]) :: srcEntries (loc ++ [n]) cs else []
def srcEntries (loc : PathS) : List Entry → List PathS
  | [] => []
  | e :: es => (if skipName e.name || e.name == indexName then [] else srcEntry loc e) ++ srcEntries loc es
end

/-- all titled Markdown files of the page directory `cs` that the statement turns into pages:
    index.md of every directory reached through titled index.md files, and every visible titled
    `*.md` in such a directory -/
def titledFiles (cs : List Entry) : List PathS :=
  if indexed cs then [indexName] :: srcEntries [] cs else []

/-- paths of all pages of a result -/
def resPaths : Res → List PathS
  | .page nd => (preorder nd).map Node.path
  | _ => []

/-! ## well-formedness of inputs (what a file system guarantees) and defect classes -/

mutual
/-- entry names are distinct within every directory -/
def wfEntry : Entry → Bool
  | .file _ _ => true
  | .dir _ cs => decide (names cs).Nodup && wfEntries cs
def wfEntries : List Entry → Bool
  | [] => true
  | e :: es => wfEntry e && wfEntries es
end

mutual
/-- no page file has a dotted stem (`v1.2.md`), the class of C17-dotted-stem-truncated -/
def plainStems : Entry → Bool
  | .file n _ => !isMd n || htmlName n == specHtml n
  | .dir _ cs => plainStemsL cs
def plainStemsL : List Entry → Bool
  | [] => true
  | e :: es => plainStems e && plainStemsL es
end

mutual
/-- no directory is skipped by the `copy_subdir` test: `pc` is the list the test consults for the
    entries of the directory (the grandparent's `copy_subdir`), the class of
    C17-copy-subdir-checked-on-grandparent -/
def gpFree (v : Variant) (pc own : Option (List Str)) : Entry → Bool
  | .file _ _ => true
  | .dir n cs => !pcContains v pc n &&
      gpFreeL v own (match indexMeta cs with | some (m, _) => some m.copySub | none => none) cs
def gpFreeL (v : Variant) (pc own : Option (List Str)) : List Entry → Bool
  | [] => true
  | e :: es => gpFree v pc own e && gpFreeL v pc own es
end

mutual
/-- every `ordered_subpage` item of every index.md names an entry of its directory (or is index.md,
    or a hidden/backup name), the class of C17-missing-ordered-subpage-aborts -/
def orderedOk : Entry → Bool
  | .file _ _ => true
  | .dir _ cs =>
    (match indexMeta cs with
     | some (m, _) => m.ordered.all (fun o => o == indexName || skipName o || (names cs).contains o)
     | none => true) && orderedOkL cs
def orderedOkL : List Entry → Bool
  | [] => true
  | e :: es => orderedOk e && orderedOkL es
end

/-! ## the page directory under the project's encoding -/

mutual
/-- the page directory as the property statement reads it for a project whose `encoding` is `enc`:
    *every* file, at every depth, is a file in that encoding (a file that is not decodable in it has
    no title to show) -/
def viewE (enc : Str) : RawEntry → Entry
  | .file n w m => .file n (readMeta enc w m)
  | .dir n cs => .dir n (viewL enc cs)
def viewL (enc : Str) : List RawEntry → List Entry
  | [] => []
  | e :: es => viewE enc e :: viewL enc es
end

mutual
/-- the directory with every file decoded correctly (what its author wrote) -/
def plainE : RawEntry → Entry
  | .file n _ m => .file n m
  | .dir n cs => .dir n (plainL cs)
def plainL : List RawEntry → List Entry
  | [] => []
  | e :: es => plainE e :: plainL es
end

mutual
/-- every file is pure ASCII or written in `enc` -/
def writtenIn (enc : Str) : RawEntry → Bool
  | .file _ w _ => readable enc w
  | .dir _ cs => writtenInL enc cs
def writtenInL (enc : Str) : List RawEntry → Bool
  | [] => true
  | e :: es => writtenIn enc e && writtenInL enc es
end

/-! ## the page directory under the project's `copy_subdir` -/

mutual
/-- the documented rule ("first priority is the option in the file, if it is not set fall back to the project
    setting") applied to every page at every depth -/
def withProjE (pcs : List Str) : Entry → Entry
  | .file n m => .file n { m with copySub := effCopy pcs m.copySub }
  | .dir n cs => .dir n (withProjL pcs cs)
def withProjL (pcs : List Str) : List Entry → List Entry
  | [] => []
  | e :: es => withProjE pcs e :: withProjL pcs es
end

/-! ## "other files and `copy_subdir` directories are copied next to their pages" -/

/-- the directories that the list `items` of a page in the directory `sibs` (at `loc`) names, with everything in
    them, placed next to the page; a name that is no directory there contributes nothing -/
def copyAssets (loc : PathS) (sibs : List Entry) : List Str → List (PathS × Bool)
  | [] => []
  | it :: r =>
    (match findEntry it sibs with
     | some (.dir n cs) => (listAll (.dir n cs)).map (fun p => (loc ++ p.1, p.2))
     | _ => []) ++ copyAssets loc sibs r

mutual
/-- what the statement expects next to the page(s) made from the visible entry `e` of the indexed directory
    `sibs` at `loc`, for a project whose `copy_subdir` is `pcs`: a titled page brings the directories of its own
    `copy_subdir` (or, if it has none, the project's), any other file is copied itself, an indexed directory is a
    sub-tree with its own assets -/
def expAssetsE (pcs : List Str) (loc : PathS) (sibs : List Entry) : Entry → List (PathS × Bool)
  | .file n m =>
    if isMd n then (if titled m then copyAssets loc sibs (effCopy pcs m.copySub) else [])
    else [(loc ++ [n], false)]
  | .dir n cs => if indexed cs then expAssetsL pcs (loc ++ [n]) cs cs else []
def expAssetsL (pcs : List Str) (loc : PathS) (sibs : List Entry) : List Entry → List (PathS × Bool)
  | [] => []
  | e :: es => (if skipName e.name then [] else expAssetsE pcs loc sibs e) ++ expAssetsL pcs loc sibs es
end

/-- everything the statement expects below `<output>/page` besides the pages themselves -/
def expAssets (pcs : List Str) (cs : List Entry) : List (PathS × Bool) :=
  if indexed cs then expAssetsL pcs [] cs cs else []

/-- the paths that exist in an output state -/
def paths (st : List (PathS × Bool)) : List PathS := st.map Prod.fst

end Ford.PT
