/-
  C11, round 6 - where `FordLinkProcessor` stands among Python-Markdown's inline patterns
  (`FordLinkExtension.extendMarkdown`: `md.inlinePatterns.register(..., "ford_links", 174)`) and what
  that position means for a text with code spans.  Python-Markdown applies the inline patterns in
  registry order (descending priority), each one to the whole text; what a pattern matched is put away
  behind a placeholder that the later patterns cannot look into.  The registry itself is a table read
  from a live `MetaMarkdown` on every run (`Generated.C11.inlinePatterns`); the cutting of a text at
  its code spans is Python-Markdown's `BACKTICK_RE` and is an input of this model (`Piece`).
-/
import FordModel.LinkWarn
namespace Ford.Links
open Ford

/-- `a` is applied before `b`: both are registered and `a` comes first in the order of application -/
def appliedBefore (reg : List (String × Nat)) (a b : String) : Bool :=
  match reg.findIdx? (fun x => x.1 == a), reg.findIdx? (fun x => x.1 == b) with
  | some i, some j => decide (i < j)
  | _, _ => false

/-- the registry is listed in the order of application: priorities never increase -/
def descending : List (String × Nat) → Bool
  | a :: b :: rest => decide (b.2 ≤ a.2) && descending (b :: rest)
  | _ => true

/-- a one-paragraph text cut at its code spans -/
inductive Piece where
  | code (s : Str)    -- the content of a code span (between the backticks)
  | plain (s : Str)   -- running text
  deriving Repr, DecidableEq, Inhabited

inductive OutPiece where
  | code (s : Str)                -- `<code>s</code>`, the content as written
  | codeSegs (l : List OutSeg)    -- `<code>` whose content had its references converted
  | segs (l : List OutSeg)        -- running text with its references converted
  deriving Repr, DecidableEq, Inhabited

/-- the inline pass over such a text.  `shielded` = the code-span pattern is applied before the link
    pattern: the spans are behind placeholders when the link pattern runs, it sees the running text
    only.  Otherwise the link pattern sees (and converts) the references inside the spans too. -/
def convertPieces (shielded : Bool) (cfg : NameCfg) (env : Env) (P : Project) (ctx : Option Nat) (path : Option Path) :
    List Piece → Except Err (List OutPiece)
  | [] => .ok []
  | .code s :: rest =>
    if shielded then
      match convertPieces shielded cfg env P ctx path rest with
      | .ok l => .ok (.code s :: l)
      | .error e => .error e
    else
      match convertText cfg env P ctx path s with
      | .error e => .error e
      | .ok o =>
        match convertPieces shielded cfg env P ctx path rest with
        | .ok l => .ok (.codeSegs o :: l)
        | .error e => .error e
  | .plain s :: rest =>
    match convertText cfg env P ctx path s with
    | .error e => .error e
    | .ok o =>
      match convertPieces shielded cfg env P ctx path rest with
      | .ok l => .ok (.segs o :: l)
      | .error e => .error e

/-- the warnings printed meanwhile (left to right; the first exception ends the conversion) -/
def warnPieces (shielded : Bool) (cfg : NameCfg) (env : Env) (P : Project) (ctx : Option Nat) (path : Option Path) :
    List Piece → List Warn
  | [] => []
  | .code s :: rest =>
    if shielded then warnPieces shielded cfg env P ctx path rest
    else
      match (convertTextW cfg env P ctx path s).1 with
      | .error _ => (convertTextW cfg env P ctx path s).2
      | .ok _ => (convertTextW cfg env P ctx path s).2 ++ warnPieces shielded cfg env P ctx path rest
  | .plain s :: rest =>
    match (convertTextW cfg env P ctx path s).1 with
    | .error _ => (convertTextW cfg env P ctx path s).2
    | .ok _ => (convertTextW cfg env P ctx path s).2 ++ warnPieces shielded cfg env P ctx path rest

/-- what a piece must have become when the property holds -/
def PieceOk (cfg : NameCfg) (env : Env) (P : Project) (ctx : Option Nat) (path : Option Path) : Piece → OutPiece → Prop
  | .code s, o => o = .code s
  | .plain s, o => ∃ l, convertText cfg env P ctx path s = .ok l ∧ o = .segs l

/-- piece by piece, in order, nothing added or lost -/
def PiecesOk (cfg : NameCfg) (env : Env) (P : Project) (ctx : Option Nat) (path : Option Path) :
    List Piece → List OutPiece → Prop
  | [], [] => True
  | p :: ps, o :: os => PieceOk cfg env P ctx path p o ∧ PiecesOk cfg env P ctx path ps os
  | _, _ => False

theorem convertPieces_shielded (cfg : NameCfg) (env : Env) (P : Project) (ctx : Option Nat) (path : Option Path)
    (pieces : List Piece) (out : List OutPiece)
    (h : convertPieces true cfg env P ctx path pieces = .ok out) :
    PiecesOk cfg env P ctx path pieces out := by
  induction pieces generalizing out with
  | nil =>
    simp [convertPieces] at h
    subst h
    trivial
  | cons p rest ih =>
    cases p with
    | code s =>
      simp only [convertPieces, if_true] at h
      cases hr : convertPieces true cfg env P ctx path rest with
      | error e => simp [hr] at h
      | ok l =>
        simp [hr] at h
        subst h
        exact ⟨rfl, ih l hr⟩
    | plain s =>
      simp only [convertPieces] at h
      cases ht : convertText cfg env P ctx path s with
      | error e => simp [ht] at h
      | ok o =>
        cases hr : convertPieces true cfg env P ctx path rest with
        | error e => simp [ht, hr] at h
        | ok l =>
          simp [ht, hr] at h
          subst h
          exact ⟨⟨o, ht, rfl⟩, ih l hr⟩

/-- with the spans shielded the warnings are those of the running text only -/
theorem warnPieces_shielded_code (cfg : NameCfg) (env : Env) (P : Project) (ctx : Option Nat) (path : Option Path)
    (s : Str) (rest : List Piece) :
    warnPieces true cfg env P ctx path (.code s :: rest) = warnPieces true cfg env P ctx path rest := by
  simp [warnPieces]

/-- the position read from the live registry: is the code-span pattern (`backtick`) applied before
    FORD's link pattern? -/
def codeShielded : Bool :=
  appliedBefore Generated.C11.inlinePatterns "backtick" Generated.C11.linkPatternName

end Ford.Links
