/-
  Vocabulary for the statements about literal masking (FordModel/Mask.lean):
  a statement seen as plain text pieces and character literals, the same
  statement with placeholders, and a text with placeholders put back.
  Import-free on purpose.
-/
import FordModel.Mask
namespace Ford.Mask

/-- a Fortran character literal: its delimiter and its value -/
structure Lit where
  q : Char
  content : Str
  deriving DecidableEq, Repr

/-- the delimiter is written twice inside the literal -/
def esc (q : Char) : Str → Str
  | [] => []
  | c :: cs => if c == q then q :: q :: esc q cs else c :: esc q cs

/-- the literal as written in the source -/
def Lit.text (l : Lit) : Str := l.q :: (esc l.q l.content ++ [l.q])

def noQuote (s : Str) : Bool := s.all (fun c => !isQuote c)

/-- the statement `p₁ l₁ p₂ l₂ … pₙ lₙ tail` -/
def render : List (Str × Lit) → Str → Str
  | [], tail => tail
  | (p, l) :: r, tail => p ++ (l.text ++ render r tail)

/-- the same statement with the literals replaced by `"k"`, `"k+1"`, … -/
def renderMasked : Nat → List (Str × Lit) → Str → Str
  | _, [], tail => tail
  | k, (p, _) :: r, tail => p ++ (ph k ++ renderMasked (k + 1) r tail)

/-- the literals of the statement as written, in order -/
def litTexts (segs : List (Str × Lit)) : List Str := segs.map (fun x => x.2.text)

/-- plain pieces contain no quote character, delimiters are quote characters, and two literals are
    separated by at least one character (as in every Fortran statement) -/
def wfSegs : Bool → List (Str × Lit) → Bool
  | _, [] => true
  | first, (p, l) :: r => noQuote p && (first || !p.isEmpty) && isQuote l.q && wfSegs false r

/-- a text `p₁ "k₁" p₂ "k₂" … tail` with placeholders -/
def renderPh : List (Str × Nat) → Str → Str
  | [], tail => tail
  | (p, k) :: r, tail => p ++ (ph k ++ renderPh r tail)

/-- the same text with every placeholder `"k"` replaced by `g strs[k]` -/
def renderBack (g : Str → Str) (strs : List Str) : List (Str × Nat) → Str → Str
  | [], tail => tail
  | (p, k) :: r, tail => p ++ (g (strs.getD k []) ++ renderBack g strs r tail)

/-- plain pieces contain no quote character, every index is below `n`, two placeholders are separated -/
def wfItems (n : Nat) : Bool → List (Str × Nat) → Bool
  | _, [] => true
  | first, (p, k) :: r => noQuote p && (first || !p.isEmpty) && decide (k < n) && wfItems n false r

/-- the statement with `g` applied to every literal as written -/
def renderG (g : Str → Str) : List (Str × Lit) → Str → Str
  | [], tail => tail
  | (p, l) :: r, tail => p ++ (g l.text ++ renderG g r tail)

/-- the placeholders the masking loop leaves in `p₁ l₁ p₂ l₂ …`, numbered from `k` -/
def itemsOf : Nat → List (Str × Lit) → List (Str × Nat)
  | _, [] => []
  | k, (p, _) :: r => (p, k) :: itemsOf (k + 1) r

/-- what `QUOTES_RE` can see of a character -/
def qclass (c : Char) : Nat := if c == '"' then 1 else if c == '\'' then 2 else 0

/-- the transformation applied to a captured literal neither adds, removes nor moves quote characters
    (true of the identity and of the no-break-space substitution) -/
def QuoteNeutral (g : Str → Str) : Prop := ∀ s, (g s).map qclass = s.map qclass

end Ford.Mask
