/-
  C10 — model of the naming mechanism of FORD *as the code is*:

    * `NameSelector.get_name`      (ford/sourceform.py)  → `getName`, `trace`
    * `FortranBase.anchor`         (urllib `quote`)       → `quote`, `anchorOf`
    * `FortranBase.get_dir` + the three overrides         → `dirOf`
    * `FortranBase.get_url`, `DocPage.outfile`            → `urlOf`, `outfileOf`
    * the flat `src/` copy in `Documentation.writeout`    → `copySrc`

  The symbol-replacement dict of `get_name` is *not* written here: it is the
  generated constant `Ford.Generated.C10.symbolTable` (translate/c10.py); the
  functions below take the table as a parameter.

  `Variant.asIs` is the unchanged code (uses are counted under the raw name,
  the stem is built from the lower-cased name); `Variant.repaired` is the
  candidate fix (count under the lower-cased name).  The harness decides at run
  time which one the working tree corresponds to.
-/
import FordModel.Basic.Chars
namespace Ford.Names
open Ford

inductive Variant
  | asIs
  | repaired
deriving DecidableEq, Repr

/-- Association list lookup, first match wins (Python dict with "newest entry
    prepended"). -/
def assoc {α β : Type} [DecidableEq α] (k : α) : List (α × β) → Option β
  | [] => none
  | (a, b) :: t => if k = a then some b else assoc k t

/-! ### stem construction -/

/-- The replacement dict of `get_name`: every symbol is one character (the
    translator refuses anything else). -/
abbrev SymTable := List (Char × Str)

/-- `s.replace(c, rep)` for a one-character `c`. -/
def replaceChar (c : Char) (rep : Str) : Str → Str
  | [] => []
  | x :: xs => if x = c then rep ++ replaceChar c rep xs else x :: replaceChar c rep xs

/-- The `for symbol, replacement in {...}.items(): name = name.replace(...)` loop
    (sequential, in dict order). -/
def replaceAll : SymTable → Str → Str
  | [], s => s
  | (c, rep) :: t, s => replaceAll t (replaceChar c rep s)

def digitChar (n : Nat) : Char := Char.ofNat (48 + n)

def decAux : Nat → Nat → Str → Str
  | 0, _, acc => acc
  | fuel + 1, n, acc =>
    if n < 10 then digitChar n :: acc else decAux fuel (n / 10) (digitChar (n % 10) :: acc)

/-- Python `str(n)` for a natural number. -/
def decimal (n : Nat) : Str := decAux (n + 1) n []

/-- The literals of `get_name` that the translator extracts from the source. -/
structure Cfg where
  table : SymTable
  sep : Char
  unnamed : Str

/-- lower-case, replace symbols, empty ⇒ `__unnamed__` (lines 3181-3190). -/
def baseOf (T : Cfg) (name : Str) : Str :=
  match replaceAll T.table (lower name) with
  | [] => T.unnamed
  | c :: cs => c :: cs

/-- `if num > 1: name = name + "~" + str(num)` -/
def stemOf (T : Cfg) (name : Str) (num : Nat) : Str :=
  if num > 1 then baseOf T name ++ T.sep :: decimal num else baseOf T name

/-! ### legal names (hypothesis of the theorems; decidable) -/

/-- `baseOf` depends on the name only through its lower-cased form. -/
def baseL (T : Cfg) (l : Str) : Str :=
  match replaceAll T.table l with
  | [] => T.unnamed
  | c :: cs => c :: cs

/-- Lower-cased spellings of the legal entity names that contain characters FORD
    replaces: Fortran's intrinsic operator generic specs (all of them are listed,
    with and without a replaced symbol), defined assignment, and the placeholder
    FORD itself gives an unnamed block data unit. -/
def opNames : List Str :=
  ["operator(+)", "operator(-)", "operator(*)", "operator(/)", "operator(**)", "operator(//)",
   "operator(==)", "operator(/=)", "operator(<)", "operator(<=)", "operator(>)", "operator(>=)",
   "assignment(=)", "<em>unnamed</em>"].map String.toList

/-- Names without any replaced symbol and without the suffix separator, other
    than the reserved stem of unnamed entities and the images of `opNames`:
    Fortran identifiers in any letter case, `operator(.name.)`, the empty name,
    file names such as `a.f90`. -/
def Plain (T : Cfg) (S : List Str) (n : Str) : Prop :=
  (∀ p ∈ T.table, p.1 ∉ lower n) ∧ T.sep ∉ lower n ∧ lower n ≠ T.unnamed ∧ lower n ∉ S.map (baseL T)

def Legal (T : Cfg) (S : List Str) (n : Str) : Prop := Plain T S n ∨ lower n ∈ S

instance (T : Cfg) (S : List Str) (n : Str) : Decidable (Plain T S n) := by
  unfold Plain; infer_instance

instance (T : Cfg) (S : List Str) (n : Str) : Decidable (Legal T S n) := by
  unfold Legal; infer_instance

/-- A Fortran name: a letter followed by letters, digits and underscores. -/
def isIdent : Str → Bool
  | [] => false
  | c :: cs => isAlpha c && cs.all isWord

/-- all characters are ASCII (the model's `lower` and `quote` are the ASCII ones) -/
def Ascii (s : Str) : Prop := ∀ c ∈ s, c.toNat < 128

/-! ### the selector state -/

/-- One call `namelist.get_name(item)`: the identity of `item` (the key of
    `_items`), `item.get_dir()` and `item.name` at the time of the call. -/
structure Req where
  id : Nat
  dir : Option Str
  name : Str
deriving DecidableEq, Repr

/-- `_items` and `_counts` (flattened to one map keyed by (dir, counted name)). -/
structure NS where
  items : List (Nat × Str) := []
  counts : List ((Option Str × Str) × Nat) := []

/-- The name a use is counted under: line 3176 uses `item.name` as is. -/
def keyOf : Variant → Str → Str
  | .asIs, n => n
  | .repaired, n => lower n

def cnt (ns : NS) (k : Option Str × Str) : Nat := (assoc k ns.counts).getD 0

def getName (T : Cfg) (v : Variant) (ns : NS) (r : Req) : Str × NS :=
  match assoc r.id ns.items with
  | some s => (s, ns)
  | none =>
    let k := (r.dir, keyOf v r.name)
    let num := cnt ns k + 1
    let stem := stemOf T r.name num
    (stem, { items := (r.id, stem) :: ns.items, counts := (k, num) :: ns.counts })

/-- All answers of a request sequence, paired with the requests. -/
def trace (T : Cfg) (v : Variant) : NS → List Req → List (Req × Str)
  | _, [] => []
  | ns, r :: rs => (r, (getName T v ns r).1) :: trace T v (getName T v ns r).2 rs

def final (T : Cfg) (v : Variant) : NS → List Req → NS
  | ns, [] => ns
  | ns, r :: rs => final T v (getName T v ns r).2 rs

/-! ### anchors: `f"{obj}-{quote(ident)}"` -/

/-- `urllib.parse.quote` always-safe set plus the default `safe="/"`. -/
def quoteSafe (c : Char) : Bool :=
  isAlpha c || isDigit c || c = '_' || c = '.' || c = '-' || c = '~' || c = '/'

def hexDigit (n : Nat) : Char :=
  if n < 10 then Char.ofNat (48 + n) else Char.ofNat (55 + n)

def quoteChar (c : Char) : Str :=
  if quoteSafe c then [c] else ['%', hexDigit (c.toNat / 16), hexDigit (c.toNat % 16)]

/-- `urllib.parse.quote(s)` on ASCII input. -/
def quote : Str → Str
  | [] => []
  | c :: cs => quoteChar c ++ quote cs

def anchorOf (obj stem : Str) : Str := obj ++ '-' :: quote stem

/-! ### `get_dir` -/

inductive Kind
  | sourcefile | genericsource | program | module | submodule | blockdata | namelist
  | type | interface | modprocinterface | subroutine | function | modprocimpl
  | variable | boundproc | common | enum | finalproc | modprocref
deriving DecidableEq, Repr

/-- `self.obj` -/
def objOf : Kind → Str
  | .sourcefile => "sourcefile".toList
  | .genericsource => "sourcefile".toList
  | .program => "program".toList
  | .module => "module".toList
  | .submodule => "submodule".toList
  | .blockdata => "blockdata".toList
  | .namelist => "namelist".toList
  | .type => "type".toList
  | .interface => "interface".toList
  | .modprocinterface => "interface".toList
  | .subroutine => "proc".toList
  | .function => "proc".toList
  | .modprocimpl => "proc".toList
  | .variable => "variable".toList
  | .boundproc => "boundprocedure".toList
  | .common => "common".toList
  | .enum => "enum".toList
  | .finalproc => "finalproc".toList
  | .modprocref => "moduleprocedure".toList

/-- first `isinstance` tuple of `FortranBase.get_dir` (with subclasses) -/
def alwaysPage : Kind → Bool
  | .sourcefile | .program | .module | .submodule | .genericsource | .blockdata | .namelist => true
  | _ => false

/-- second tuple -/
def condPage : Kind → Bool
  | .type | .interface | .modprocinterface | .subroutine | .function | .modprocimpl => true
  | _ => false

/-- third tuple (class of the parent) -/
def pageParent : Option Kind → Bool
  | some .sourcefile | some .program | some .module | some .submodule | some .blockdata => true
  | _ => false

def isProcKind : Kind → Bool
  | .subroutine | .function => true
  | _ => false

def isInterfaceKind : Kind → Bool
  | .interface | .modprocinterface => true
  | _ => false

def parentIsInterface : Option Kind → Bool
  | some p => isInterfaceKind p
  | none => false

/-- `FortranProcedure.is_interface_procedure`: `ident` of such a procedure is the
    stem of its (non-generic) interface, and its directory is `interface`. -/
def identBorrows (k : Kind) (parent : Option Kind) (parentGeneric : Bool) : Bool :=
  isProcKind k && parentIsInterface parent && !parentGeneric

/-- `get_dir()` including the overrides in `FortranSubmodule`, `FortranProcedure`
    (`is_interface_procedure`) and `FortranInterface` (unnamed ⇒ no page).
    `parentGeneric` is `parent.generic` when the parent is an interface,
    `named` is `bool(self.name)`. -/
def dirOf (k : Kind) (parent : Option Kind) (parentGeneric named : Bool) : Option Str :=
  if k = .submodule then some "module".toList
  else if identBorrows k parent parentGeneric then some "interface".toList
  else if isInterfaceKind k && !named then none
  else if alwaysPage k || (condPage k && pageParent parent) then some (objOf k)
  else none

/-! ### URL and output file -/

def htmlExt : Str := ".html".toList

/-- `f"{loc}/{self.ident}.html"` -/
def urlOf (dir stem : Str) : Str := dir ++ '/' :: (stem ++ htmlExt)

/-- `out_dir / get_dir() / (ident + ".html")`, relative to the output directory,
    as the path pathlib builds: the second operand is split at `/`. -/
def splitSlashAux : Str → Str → List Str
  | [], cur => [cur.reverse]
  | c :: cs, cur => if c = '/' then cur.reverse :: splitSlashAux cs [] else splitSlashAux cs (c :: cur)

def splitSlash (s : Str) : List Str := splitSlashAux s []

def outfileOf (dir stem : Str) : List Str := dir :: splitSlash (stem ++ htmlExt)

/-! ### the flat `src/` copy -/

/-- `src.name`: last component of the path of a source file -/
def basename (path : Str) : Str := (path.reverse.takeWhile (fun c => c != '/')).reverse

/-- `shutil.copy(src.path, out_dir / "src" / src.name)` for every file `(path, content)`,
    in order: the directory `src/` as a map name → content, later copies overwrite. -/
def copySrc : List (Str × Str) → List (Str × Str) → List (Str × Str)
  | fs, [] => fs
  | fs, (path, content) :: rest => copySrc ((basename path, content) :: fs) rest

/-- what `src/<name>` serves after the run -/
def served (files : List (Str × Str)) (name : Str) : Option Str :=
  assoc name (copySrc [] files)

/-- the "Source File" link of an entity defined in `path`: `src/{{ entity.filename }}` -/
def srcLink (path : Str) : Str := basename path

end Ford.Names
