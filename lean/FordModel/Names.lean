/-
  C10 — model of the naming mechanism of FORD *as the code is*:

    * `NameSelector.get_name`      (ford/sourceform.py)  → `getName`, `trace`
    * `FortranBase.anchor`         (urllib `quote`)       → `quote`, `anchorOf`
    * `FortranBase.get_dir` + the three overrides         → `dirOf`
    * `FortranBase.get_url`, `DocPage.outfile`            → `urlOf`, `outfileOf`
    * the flat `src/` copy in `Documentation.writeout`    → `copySrc`

  The symbol-replacement dict of `get_name` is *not* written here: it is the
  generated constant `Ford.Generated.C10.symbolTable` (translate/c10.py); the
  functions below take the table as a parameter.

  `Variant.asIs` is the unchanged code (uses are counted under the raw name,
  the stem is built from the lower-cased name); `Variant.repaired` is the
  candidate fix (count under the lower-cased name).  The harness decides at run
  time which one the working tree corresponds to.
-/
import FordModel.Basic.Chars
import FordModel.Generated.C10
namespace Ford.Names
open Ford

/-- `(nm! "abc")` is the literal `['a', 'b', 'c']` (string literals are byte arrays in this Lean
    version; unfolding `String.toList` on them inside `simp`/unification is slow) -/
macro "nm! " s:str : term => do
  let elems := s.getString.toList.toArray.map fun c => Lean.Syntax.mkCharLit c
  `([$elems,*])

inductive Variant
  | asIs
  | repaired
deriving DecidableEq, Repr

/-- Association list lookup, first match wins (Python dict with "newest entry
    prepended"). -/
def assoc {α β : Type} [DecidableEq α] (k : α) : List (α × β) → Option β
  | [] => none
  | (a, b) :: t => if k = a then some b else assoc k t

/-! ### stem construction -/

/-- The replacement dict of `get_name`: every symbol is one character (the
    translator refuses anything else). -/
abbrev SymTable := List (Char × Str)

/-- `s.replace(c, rep)` for a one-character `c`. -/
def replaceChar (c : Char) (rep : Str) : Str → Str
  | [] => []
  | x :: xs => if x = c then rep ++ replaceChar c rep xs else x :: replaceChar c rep xs

/-- The `for symbol, replacement in {...}.items(): name = name.replace(...)` loop
    (sequential, in dict order). -/
def replaceAll : SymTable → Str → Str
  | [], s => s
  | (c, rep) :: t, s => replaceAll t (replaceChar c rep s)

def digitChar (n : Nat) : Char := Char.ofNat (48 + n)

def decAux : Nat → Nat → Str → Str
  | 0, _, acc => acc
  | fuel + 1, n, acc =>
    if n < 10 then digitChar n :: acc else decAux fuel (n / 10) (digitChar (n % 10) :: acc)

/-- Python `str(n)` for a natural number. -/
def decimal (n : Nat) : Str := decAux (n + 1) n []

/-- The literals of `get_name` that the translator extracts from the source. -/
structure Cfg where
  table : SymTable
  sep : Char
  unnamed : Str

/-- lower-case, replace symbols, empty ⇒ `__unnamed__` (lines 3181-3190). -/
def baseOf (T : Cfg) (name : Str) : Str :=
  match replaceAll T.table (lower name) with
  | [] => T.unnamed
  | c :: cs => c :: cs

/-- `if num > 1: name = name + "~" + str(num)` -/
def stemOf (T : Cfg) (name : Str) (num : Nat) : Str :=
  if num > 1 then baseOf T name ++ T.sep :: decimal num else baseOf T name

/-! ### legal names (hypothesis of the theorems; decidable) -/

/-- `baseOf` depends on the name only through its lower-cased form. -/
def baseL (T : Cfg) (l : Str) : Str :=
  match replaceAll T.table l with
  | [] => T.unnamed
  | c :: cs => c :: cs

/-- Lower-cased spellings of the legal entity names that contain characters FORD
    replaces: Fortran's intrinsic operator generic specs (all of them are listed,
    with and without a replaced symbol), defined assignment, and the placeholder
    FORD itself gives an unnamed block data unit. -/
def opNames : List Str :=
  ["operator(+)", "operator(-)", "operator(*)", "operator(/)", "operator(**)", "operator(//)",
   "operator(==)", "operator(/=)", "operator(<)", "operator(<=)", "operator(>)", "operator(>=)",
   "assignment(=)", "<em>unnamed</em>"].map String.toList

/-! #### generic specs written with blanks

  FORD keeps the name of a generic interface exactly as written (`INTERFACE_RE`
  captures `.+`): `interface operator (+)`, `interface operator( < )`,
  `interface assignment ( = )` are entities called `operator (+)`, `operator( < )`,
  `assignment ( = )` - different names (different pages) for FORD.  Fortran allows
  any number of blanks between the tokens `operator`, `(`, the operator, `)`. -/

def blanks (n : Nat) : Str := List.replicate n ' '

/-- keyword and operator token of the generic specs of `opNames` -/
def opCores : List (Str × Str) :=
  [(nm! "operator", nm! "+"), (nm! "operator", nm! "-"), (nm! "operator", nm! "*"), (nm! "operator", nm! "/"),
   (nm! "operator", nm! "**"), (nm! "operator", nm! "//"), (nm! "operator", nm! "=="), (nm! "operator", nm! "/="),
   (nm! "operator", nm! "<"), (nm! "operator", nm! "<="), (nm! "operator", nm! ">"), (nm! "operator", nm! ">="),
   (nm! "assignment", nm! "=")]

/-- `kw ( op )` with `a` blanks after the keyword and `b`, `c` blanks inside the parentheses -/
def spellOp (p : Str × Str) (a b c : Nat) : Str :=
  p.1 ++ (blanks a ++ '(' :: (blanks b ++ (p.2 ++ (blanks c ++ [')']))))

/-- split before the first blank or `(` -/
def kwSplit : Str → Str × Str
  | [] => ([], [])
  | c :: cs => if c = ' ' ∨ c = '(' then ([], c :: cs) else (c :: (kwSplit cs).1, (kwSplit cs).2)

/-- number of leading blanks, and the rest -/
def skipBlanks : Str → Nat × Str
  | [] => (0, [])
  | c :: cs => if c = ' ' then ((skipBlanks cs).1 + 1, (skipBlanks cs).2) else (0, c :: cs)

/-- read a string as `kw blanks ( blanks op blanks )`: ((kw, op), a, b, c) -/
def parseSp (n : Str) : Option ((Str × Str) × Nat × Nat × Nat) :=
  let k := kwSplit n
  let r1 := skipBlanks k.2
  match r1.2 with
  | [] => none
  | o :: r2 =>
    if o = '(' then
      let r3 := skipBlanks r2
      match r3.2.reverse with
      | [] => none
      | d :: r4 =>
        if d = ')' then
          let r5 := skipBlanks r4
          some ((k.1, r5.2.reverse), r1.1, r3.1, r5.1)
        else none
    else none

/-- a (lower-cased) name is one of the generic specs of `opCores`, written with any blanks
    between its tokens -/
def OpSpelled (l : Str) : Prop :=
  match parseSp l with
  | some (p, a, b, c) => p ∈ opCores ∧ l = spellOp p a b c
  | none => False

instance (l : Str) : Decidable (OpSpelled l) := by
  unfold OpSpelled; split <;> infer_instance

/-- what the symbol replacement makes of keyword and operator token -/
def coreImg (T : Cfg) (p : Str × Str) : Str × Str := (replaceAll T.table p.1, replaceAll T.table p.2)

/-- a string is not what the replacement makes of a generic spec of `opCores` (in any spacing) -/
def NotOpImage (T : Cfg) (l : Str) : Prop :=
  match parseSp l with
  | some (q, _) => q ∉ opCores.map (coreImg T)
  | none => True

instance (T : Cfg) (l : Str) : Decidable (NotOpImage T l) := by
  unfold NotOpImage; split <;> infer_instance

/-- Names without any replaced symbol and without the suffix separator, other
    than the reserved stem of unnamed entities and the images of `opNames` and of the
    blank-separated generic specs: Fortran identifiers in any letter case,
    `operator(.name.)`, `operator ( + )`, the empty name, file names such as `a.f90`
    or `my mod.f90`. -/
def Plain (T : Cfg) (S : List Str) (n : Str) : Prop :=
  (∀ p ∈ T.table, p.1 ∉ lower n) ∧ T.sep ∉ lower n ∧ lower n ≠ T.unnamed ∧ lower n ∉ S.map (baseL T)
    ∧ NotOpImage T (lower n)

/-- The names a Fortran project can give to FORD: plain names, the listed special
    names, and `operator`/`assignment` generic specs in any spacing. -/
def Legal (T : Cfg) (S : List Str) (n : Str) : Prop := Plain T S n ∨ lower n ∈ S ∨ OpSpelled (lower n)

instance (T : Cfg) (S : List Str) (n : Str) : Decidable (Plain T S n) := by
  unfold Plain; infer_instance

instance (T : Cfg) (S : List Str) (n : Str) : Decidable (Legal T S n) := by
  unfold Legal; infer_instance

/-- A Fortran name: a letter followed by letters, digits and underscores. -/
def isIdent : Str → Bool
  | [] => false
  | c :: cs => isAlpha c && cs.all isWord

/-- all characters are ASCII (the model's `lower` and `quote` are the ASCII ones) -/
def Ascii (s : Str) : Prop := ∀ c ∈ s, c.toNat < 128

/-! ### the selector state -/

/-- One call `namelist.get_name(item)`: the identity of `item` (the key of
    `_items`), `item.get_dir()` and `item.name` at the time of the call. -/
structure Req where
  id : Nat
  dir : Option Str
  name : Str
deriving DecidableEq, Repr

/-- `_items` and `_counts` (flattened to one map keyed by (dir, counted name)). -/
structure NS where
  items : List (Nat × Str) := []
  counts : List ((Option Str × Str) × Nat) := []

/-- The name a use is counted under: line 3176 uses `item.name` as is. -/
def keyOf : Variant → Str → Str
  | .asIs, n => n
  | .repaired, n => lower n

def cnt (ns : NS) (k : Option Str × Str) : Nat := (assoc k ns.counts).getD 0

def getName (T : Cfg) (v : Variant) (ns : NS) (r : Req) : Str × NS :=
  match assoc r.id ns.items with
  | some s => (s, ns)
  | none =>
    let k := (r.dir, keyOf v r.name)
    let num := cnt ns k + 1
    let stem := stemOf T r.name num
    (stem, { items := (r.id, stem) :: ns.items, counts := (k, num) :: ns.counts })

/-- All answers of a request sequence, paired with the requests. -/
def trace (T : Cfg) (v : Variant) : NS → List Req → List (Req × Str)
  | _, [] => []
  | ns, r :: rs => (r, (getName T v ns r).1) :: trace T v (getName T v ns r).2 rs

def final (T : Cfg) (v : Variant) : NS → List Req → NS
  | ns, [] => ns
  | ns, r :: rs => final T v (getName T v ns r).2 rs

/-! ### anchors: `f"{obj}-{quote(ident)}"` -/

/-- `urllib.parse.quote` always-safe set plus the default `safe="/"`. -/
def quoteSafe (c : Char) : Bool :=
  isAlpha c || isDigit c || c = '_' || c = '.' || c = '-' || c = '~' || c = '/'

def hexDigit (n : Nat) : Char :=
  if n < 10 then Char.ofNat (48 + n) else Char.ofNat (55 + n)

def quoteChar (c : Char) : Str :=
  if quoteSafe c then [c] else ['%', hexDigit (c.toNat / 16), hexDigit (c.toNat % 16)]

/-- `urllib.parse.quote(s)` on ASCII input. -/
def quote : Str → Str
  | [] => []
  | c :: cs => quoteChar c ++ quote cs

def anchorOf (obj stem : Str) : Str := obj ++ '-' :: quote stem

/-! ### `get_dir` -/

inductive Kind
  | sourcefile | genericsource | program | module | submodule | blockdata | namelist
  | type | interface | modprocinterface | subroutine | function | modprocimpl
  | variable | boundproc | common | enum | finalproc | modprocref
deriving DecidableEq, Repr

/-- `self.obj` -/
def objOf : Kind → Str
  | .sourcefile => "sourcefile".toList
  | .genericsource => "sourcefile".toList
  | .program => "program".toList
  | .module => "module".toList
  | .submodule => "submodule".toList
  | .blockdata => "blockdata".toList
  | .namelist => "namelist".toList
  | .type => "type".toList
  | .interface => "interface".toList
  | .modprocinterface => "interface".toList
  | .subroutine => "proc".toList
  | .function => "proc".toList
  | .modprocimpl => "proc".toList
  | .variable => "variable".toList
  | .boundproc => "boundprocedure".toList
  | .common => "common".toList
  | .enum => "enum".toList
  | .finalproc => "finalproc".toList
  | .modprocref => "moduleprocedure".toList

/-- first `isinstance` tuple of `FortranBase.get_dir` (with subclasses) -/
def alwaysPage : Kind → Bool
  | .sourcefile | .program | .module | .submodule | .genericsource | .blockdata | .namelist => true
  | _ => false

/-- second tuple -/
def condPage : Kind → Bool
  | .type | .interface | .modprocinterface | .subroutine | .function | .modprocimpl => true
  | _ => false

/-- third tuple (class of the parent) -/
def pageParent : Option Kind → Bool
  | some .sourcefile | some .program | some .module | some .submodule | some .blockdata => true
  | _ => false

def isProcKind : Kind → Bool
  | .subroutine | .function => true
  | _ => false

def isInterfaceKind : Kind → Bool
  | .interface | .modprocinterface => true
  | _ => false

def parentIsInterface : Option Kind → Bool
  | some p => isInterfaceKind p
  | none => false

/-- `FortranProcedure.is_interface_procedure` (the condition itself is *generated* from the
    source, `Generated.C10.isInterfaceProcedure`): `ident` of such a procedure is the
    stem of its parent interface, and its directory is `interface`. -/
def identBorrows (k : Kind) (parent : Option Kind) (parentGeneric : Bool) : Bool :=
  isProcKind k && Ford.Generated.C10.isInterfaceProcedure (parentIsInterface parent) parentGeneric

/-- `get_dir()` including the overrides in `FortranSubmodule`, `FortranProcedure`
    (`is_interface_procedure`) and `FortranInterface` (unnamed ⇒ no page).
    `parentGeneric` is `parent.generic` when the parent is an interface,
    `named` is `bool(self.name)`. -/
def dirOf (k : Kind) (parent : Option Kind) (parentGeneric named : Bool) : Option Str :=
  if k = .submodule then some "module".toList
  else if identBorrows k parent parentGeneric then some "interface".toList
  else if isInterfaceKind k && !named then none
  else if alwaysPage k || (condPage k && pageParent parent) then some (objOf k)
  else none

/-! ### interface blocks: which interface entities exist, and with which children -/

/-- One `interface` block as written: named? `abstract`? and the procedure bodies
    (subroutine/function interface bodies, by identity) it contains. -/
structure Block where
  named : Bool
  abstract : Bool
  bodies : List Nat
deriving DecidableEq, Repr

/-- The interface entities FORD keeps for one block, as (`generic`, procedure children):
    `FortranInterface._initialize` sets `generic = bool(name)` and raises for a generic
    abstract block; `_cleanup` leaves a generic block alone (one entity, all bodies are
    its children) and replaces every other block by one `FortranModuleProcedureInterface`
    per body (`generic = False`, the body becomes the only child: `procedure.parent = self`). -/
def ifaceEntities (b : Block) : List (Bool × List Nat) :=
  if b.named && b.abstract then []
  else if b.named then [(true, b.bodies)]
  else b.bodies.map (fun p => (false, [p]))

/-! ### URL and output file -/

def htmlExt : Str := ".html".toList

/-- `f"{loc}/{self.ident}.html"` -/
def urlOf (dir stem : Str) : Str := dir ++ '/' :: (stem ++ htmlExt)

/-- `out_dir / get_dir() / (ident + ".html")`, relative to the output directory,
    as the path pathlib builds: the second operand is split at `/`. -/
def splitSlashAux : Str → Str → List Str
  | [], cur => [cur.reverse]
  | c :: cs, cur => if c = '/' then cur.reverse :: splitSlashAux cs [] else splitSlashAux cs (c :: cur)

def splitSlash (s : Str) : List Str := splitSlashAux s []

def outfileOf (dir stem : Str) : List Str := dir :: splitSlash (stem ++ htmlExt)

/-! ### the flat `src/` copy -/

/-- `src.name`: last component of the path of a source file -/
def basename (path : Str) : Str := (path.reverse.takeWhile (fun c => c != '/')).reverse

/-- `shutil.copy(src.path, out_dir / "src" / src.name)` for every file `(path, content)`,
    in order: the directory `src/` as a map name → content, later copies overwrite. -/
def copySrc : List (Str × Str) → List (Str × Str) → List (Str × Str)
  | fs, [] => fs
  | fs, (path, content) :: rest => copySrc ((basename path, content) :: fs) rest

/-- what `src/<name>` serves after the run -/
def served (files : List (Str × Str)) (name : Str) : Option Str :=
  assoc name (copySrc [] files)

/-- the "Source File" link of an entity defined in `path`: `src/{{ entity.filename }}` -/
def srcLink (path : Str) : Str := basename path

end Ford.Names
