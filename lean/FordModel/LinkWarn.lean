/-
  C11, round 6 - the warnings of `FordLinkProcessor.convert_link` (ford/_markdown.py), as the code is:
  the two `warn(...)` calls (the item part was not found and the component's page is linked
  instead; nothing was found and the name is rendered as plain text), the text they quote
  (`m.group()` = the reference as written, the names), `warn_prefix` (the documented entity's
  `filename:name`, else the path of the page being converted relative to the working directory,
  else nothing) and the order in which the warnings of a whole text are printed (one conversion =
  the references from left to right, the first exception ends it).  The functions are stateless:
  what is printed for a reference depends on the project, the context and the reference only -
  never on what was converted before.
-/
import FordModel.Links
import FordModel.LinkSyntax
namespace Ford.Links
open Ford

/-- one call of `warn(...)` inside `convert_link` (without the prefix) -/
inductive Warn where
  /-- `Could not substitute link {m.group()}, "{child}" not found in "{parent}", linking to page for "{parent}" instead` -/
  | childNotFound (link child parent : Str)
  /-- `Could not substitute link {m.group()}, '{name}' not found` -/
  | notFound (link name : Str)
  deriving Repr, DecidableEq, Inhabited

/-- the reference the warning quotes -/
def Warn.link : Warn → Str
  | .childNotFound l _ _ => l
  | .notFound l _ => l

/-- the message text after the prefix -/
def Warn.body : Warn → Str
  | .childNotFound l c p =>
    "Could not substitute link ".toList ++ l ++ ", \"".toList ++ c ++ "\" not found in \"".toList ++ p ++
      "\", linking to page for \"".toList ++ p ++ "\" instead".toList
  | .notFound l n =>
    "Could not substitute link ".toList ++ l ++ ", '".toList ++ n ++ "' not found".toList

/-- the lookup of `convert_link` together with what it prints: the cascade of `lookup`, with the
    `warn` calls where the code has them (the first one *before* the second `Project.find`) -/
def lookupW (P : Project) (ctx : Option Nat) (r : Ref) : Except Err (Option Nat) × List Warn :=
  let loc : Except Err (Option Nat) :=
    match ctx.bind P.get with
    | none => .ok none
    | some c => localLookup P c r
  match loc with
  | .error e => (.error e, [])
  | .ok (some i) => (.ok (some i), [])
  | .ok none =>
    match projectFind P r.name r.kind r.child r.childKind with
    | .error e => (.error e, [])
    | .ok (some i) => (.ok (some i), [])
    | .ok none =>
      match r.child with
      | some ch =>
        (match projectFind P r.name r.kind none none with
         | .error e => (.error e, [.childNotFound r.render ch r.name])
         | .ok (some i) => (.ok (some i), [.childNotFound r.render ch r.name])
         | .ok none => (.ok none, [.childNotFound r.render ch r.name, .notFound r.render r.name]))
      | none => (.ok none, [.notFound r.render r.name])

/-- the rest of `convert_link`: what is rendered for a lookup result -/
def outOf (env : Env) (P : Project) (ctx : Option Nat) (path : Option Path) (r : Ref) :
    Except Err (Option Nat) → Out
  | .error e => .err e
  | .ok none => .text r.name
  | .ok (some id) =>
    match P.get id with
    | none => .text r.name
    | some e =>
      match hrefOf env (currentPath env P ctx path) e with
      | .error x => .err x
      | .ok h => .link e.name h

/-- `convert_link`: the element it returns and the warnings it prints (in order) -/
def convertLinkW (env : Env) (P : Project) (ctx : Option Nat) (path : Option Path) (r : Ref) : Out × List Warn :=
  (outOf env P ctx path r (lookupW P ctx r).1, (lookupW P ctx r).2)

/-- `FordLinkProcessor.warn_prefix` -/
def warnPrefix (env : Env) (P : Project) (ctx : Option Nat) (path : Option Path) : Str :=
  match ctx.bind P.get with
  | some c => "In '".toList ++ c.filename ++ ':' :: c.name ++ "': ".toList
  | none =>
    match path with
    | some p => "In file '".toList ++ joinSep '/' (relpath p env.cwd) ++ "': ".toList
    | none => []

/-- the message handed to `warn` -/
def Warn.message (env : Env) (P : Project) (ctx : Option Nat) (path : Option Path) (w : Warn) : Str :=
  warnPrefix env P ctx path ++ w.body

/-- the warnings printed while one text is converted: reference by reference, from left to right;
    an exception ends the conversion (what was printed before stays printed) -/
def warnSegs (env : Env) (P : Project) (ctx : Option Nat) (path : Option Path) : List Seg → List Warn
  | [] => []
  | .plain _ :: rest => warnSegs env P ctx path rest
  | .ref r :: rest =>
    match (convertLinkW env P ctx path r).1 with
    | .err _ => (convertLinkW env P ctx path r).2
    | _ => (convertLinkW env P ctx path r).2 ++ warnSegs env P ctx path rest

/-- `MetaMarkdown.convert(text, context, path)`: the converted pieces and the warnings printed -/
def convertTextW (cfg : NameCfg) (env : Env) (P : Project) (ctx : Option Nat) (path : Option Path) (text : Str) :
    Except Err (List OutSeg) × List Warn :=
  (convertText cfg env P ctx path text, warnSegs env P ctx path (segments cfg text))

/-- a run: conversions one after the other on the same Markdown object (project file, every entity,
    every static page); what is printed is the concatenation - there is no memory between them -/
def runWarnings (cfg : NameCfg) (env : Env) (P : Project) : List (Option Nat × Option Path × Str) → List Str
  | [] => []
  | (ctx, path, text) :: rest =>
    (convertTextW cfg env P ctx path text).2.map (Warn.message env P ctx path) ++ runWarnings cfg env P rest

end Ford.Links
