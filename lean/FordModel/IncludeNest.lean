/-
  Model of `FortranReader.include` (ford/reader.py) as it is: what the reader of a source file
  delivers when the file has INCLUDE lines, and what it raises.

      while len(self.pending) > 0 and self.INCLUDE_RE.match(self.pending[0]):
          curpending = self.pending.pop(0)
          name = curpending[7:].strip()[1:-1]
          for b in [os.path.dirname(self.name)] + self.inc_dirs:
              pname = os.path.abspath(os.path.expanduser(os.path.join(b, name)))
              if os.path.isfile(pname): name = pname; break
          else:
              msg = f'Can not find include file "{name}"'
              if name.endswith(".h"): warn(msg); self.pending = [curpending] + self.pending; return
              raise FileNotFoundError(msg)
          included = list(FortranReader(name, ...same marks, form, inc_dirs, encoding...))
          self.pending = included + self.pending
          if len(included) > 0: return

  * the include file is read **completely** by a *nested* reader object (a new `FortranReader`,
    whose `self.name` is the include file): whatever that reader raises comes out of the outer
    reader's `__next__`, i.e. out of the constructor of the source file that is being parsed; an
    error text that says "In file ..." names the include file, not the source file.
  * the name is looked for in the directory of the file that holds the INCLUDE line (the nested
    reader's own file for a nested INCLUDE), then in `inc_dirs`, in that order.
  * a file that is not found raises, except when its name ends in `.h`: a warning, and the line is
    handed on as an ordinary statement.
  * nothing bounds the nesting but Python's recursion limit: a file that includes itself ends in
    `RecursionError` (an `Exception`) after `depth` nested readers.
  * neither the reader object nor its class keeps anything from one file to the next (table
    `Gen.leftBehind`, theorem `rejected_files_leave_no_process_state`): `readFile` is a function
    of the files on disk alone.

  One file's own lines -> its logical items is the reader model of C02 (`readAll`); here a file is
  given by the items its own reader makes of it (`FileBody`).  FordModel/Include.lean (property C02)
  models the `pending` queue and the two call sites of `include()` over a *flat* file system where
  every name is found; this model is about the other half - directories and the search order, the
  failures (missing, undecodable, refused line, recursion), which file an error names, and that a
  failure of a nested reader is a failure of the file that is being parsed.
-/
import FordModel.ProjectLoop
namespace Ford.IncludeNest
open Ford

/-! ### paths -/

def splitSlash : Str → Str → List Str
  | [], cur => [cur.reverse]
  | c :: cs, cur => if c == '/' then cur.reverse :: splitSlash cs [] else splitSlash cs (c :: cur)

/-- `os.path.normpath` on the components of an absolute path: `.` and empty components dropped,
    `..` removes the component before it (at the root: nothing) -/
def normComps : List Str → List Str → List Str
  | [], acc => acc.reverse
  | c :: cs, acc =>
    if c.isEmpty || c == ['.'] then normComps cs acc
    else if c == ['.', '.'] then normComps cs acc.tail
    else normComps cs (c :: acc)

abbrev Path := List Str      -- components of an absolute, normalised path

def dirOf (p : Path) : Path := p.dropLast

/-- `abspath(join(dir, name))`; an absolute `name` replaces `dir` -/
def joinPath (dir : Path) (name : Str) : Path :=
  match name with
  | '/' :: _ => normComps (splitSlash name []) []
  | _ => normComps (dir ++ splitSlash name []) []

/-! ### the INCLUDE line -/

def lowerC (c : Char) : Char := if 'A' ≤ c && c ≤ 'Z' then Char.ofNat (c.toNat + 32) else c
def isWs (c : Char) : Bool := c == ' ' || c == '\t'

/-- `INCLUDE_RE.match`: `include\s*(?=['"])`, ignoring case -/
def isIncludeLine (s : Str) : Bool :=
  (s.take 7).map lowerC == "include".toList &&
    (match (s.drop 7).dropWhile isWs with
     | c :: _ => c == '\'' || c == '"'
     | [] => false)

def strip (s : Str) : Str := ((s.dropWhile isWs).reverse.dropWhile isWs).reverse

/-- `curpending[7:].strip()[1:-1]` -/
def includeName (s : Str) : Str := ((strip (s.drop 7)).drop 1).dropLast

def endsWithH (s : Str) : Bool := s.reverse.take 2 == ['h', '.']

/-! ### the files -/

/-- what a file's own reader makes of it -/
inductive FileBody
  | undecodable
  /-- the items delivered before the reader raises on a line it refuses -/
  | refusedAfter (items : List Str)
  | items (items : List Str)
  deriving Repr, DecidableEq

abbrev Fs := List (Path × FileBody)

def Fs.get (fs : Fs) (p : Path) : Option FileBody := (fs.find? (fun f => f.1 == p)).map (·.2)

inductive IncErr
  | missing (name : Str)          -- FileNotFoundError('Can not find include file "name"')
  | undecodable (file : Path)     -- UnicodeDecodeError while the nested reader reads `file`
  | refused (file : Path)         -- ValueError / RuntimeError of the reader of `file` ("In file <file> ...")
  | recursion                     -- RecursionError
  deriving Repr, DecidableEq

/-- the first of `dirname(includer)`, `inc_dirs...` in which `name` is a file -/
def resolve (fs : Fs) (name : Str) : List Path → Option Path
  | [] => none
  | d :: ds => if (fs.get (joinPath d name)).isSome then some (joinPath d name) else resolve fs name ds

/-- the items of one file with every INCLUDE line replaced by what `rec` (a nested reader) delivers
    for the file it names; `here` = the file these items belong to -/
def expandWith (fs : Fs) (incDirs : List Path) (rec : Path → Except IncErr (List Str)) (here : Path) :
    List Str → Except IncErr (List Str)
  | [] => .ok []
  | s :: rest =>
    if isIncludeLine s then
      match resolve fs (includeName s) (dirOf here :: incDirs) with
      | none =>
        if endsWithH (includeName s) then
          match expandWith fs incDirs rec here rest with
          | .ok r => .ok (s :: r)
          | .error e => .error e
        else .error (.missing (includeName s))
      | some p =>
        match rec p with
        | .error e => .error e
        | .ok inc =>
          match expandWith fs incDirs rec here rest with
          | .ok r => .ok (inc ++ r)
          | .error e => .error e
    else
      match expandWith fs incDirs rec here rest with
      | .ok r => .ok (s :: r)
      | .error e => .error e

/-- `list(FortranReader(file))` with at most `depth` readers nested (Python's recursion limit) -/
def readFile (fs : Fs) (incDirs : List Path) : Nat → Path → Except IncErr (List Str)
  | 0, _ => .error .recursion
  | d + 1, p =>
    match fs.get p with
    | none => .error (.missing (p.getLastD []))
    | some .undecodable => .error (.undecodable p)
    | some (.refusedAfter its) =>
      -- the items before the refused line are expanded first: an INCLUDE among them may raise earlier
      match expandWith fs incDirs (readFile fs incDirs d) p its with
      | .ok _ => .error (.refused p)
      | .error e => .error e
    | some (.items its) => expandWith fs incDirs (readFile fs incDirs d) p its

/-- the file an error text names, when it names one -/
def IncErr.file : IncErr → Option Path
  | .undecodable f => some f
  | .refused f => some f
  | _ => none

/-- a file none of whose items is an INCLUDE line -/
def noInclude (its : List Str) : Bool := its.all (fun s => !isIncludeLine s)

/-- the items, when the reading comes through -/
def itemsOf : Except IncErr (List Str) → Option (List Str)
  | .ok its => some its
  | .error _ => none

/-- the exception, when it does not -/
def errOf : Except IncErr (List Str) → Option IncErr
  | .ok _ => none
  | .error e => some e

/-- the source file as the per-file loop sees it (`Src` of FordModel/ProjectLoop.lean), given what its reader -
    nested readers included - delivers; `classify` = the recognisers of the statement cascade -/
def srcOfRead (classify : List Str → List Stmt) : Except IncErr (List Str) → Src
  | .error (.undecodable _) => .undecodable
  | .error _ => .readerError
  | .ok items => .stmts (classify items)

end Ford.IncludeNest
