/-
  C13 — model of the labels of composition edges (ford/graphs.py, `TypeNode.__init__` and the
  `add_node` of `TypeGraph` / `InheritsGraph` / `InheritedByGraph`), as the code is.

  The loop of `TypeNode.__init__` over `obj.local_variables` keeps two dicts:

      if self in node.comp_of:  node.comp_of[self] += ", " + var.name   else: node.comp_of[self] = var.name
      if node in self.comp_types: self.comp_types[node] += ", " + var.name else: self.comp_types[node] = var.name

  and `add_node` writes `node.comp_types[c]` (`node.comp_of[c]` in the "inherited by" graph) as the label
  of the dashed edge.  A label is modelled as the list of the *positions* of the components it names (their
  index in `Ent.comps`, the derived-type components in declaration order); the harness turns it into
  `", ".join(names)`.  A Python dict is an insertion-ordered association list.
-/
import FordModel.Graph
namespace Ford.Graph

abbrev LabelDict := List (Node × List Nat)

/-- `if k in d: d[k] += ", " + name  else: d[k] = name` -/
def labelAdd : LabelDict → Node → Nat → LabelDict
  | [], k, i => [(k, [i])]
  | (k', l) :: r, k, i => if k' = k then (k', l ++ [i]) :: r else (k', l) :: labelAdd r k i

/-- `d[k]` (the empty label when `k` is no key) -/
def labelOf : LabelDict → Node → List Nat
  | [], _ => []
  | (k', l) :: r, k => if k' = k then l else labelOf r k

/-- the loop over the derived-type components from position `i` on, `self.comp_types` side -/
def compLoop : List Node → Nat → LabelDict → LabelDict
  | [], _, d => d
  | t :: r, i, d => compLoop r (i + 1) (labelAdd d t i)

/-- the same loop seen from the node of the component type `t`: the entry `t.comp_of[self]` -/
def compOfLoop (t : Node) : List Node → Nat → List Nat → List Nat
  | [], _, l => l
  | p :: r, i, l => compOfLoop t r (i + 1) (if p = t then l ++ [i] else l)

/-- `self.comp_types` after the constructor of the node of `a` (in insertion order: the order in which
    `add_node` writes the composition edges of `a`) -/
def compTypes (tab : Table) (a : Node) : LabelDict :=
  if (ent tab a).kind == .type && !(ent tab a).extUrl then compLoop (ent tab a).comps 0 [] else []

/-- `t.comp_of[a]` after the constructor of the node of `a` -/
def compOf (tab : Table) (t a : Node) : List Nat :=
  if (ent tab a).kind == .type && !(ent tab a).extUrl then compOfLoop t (ent tab a).comps 0 [] else []

/-- label of an edge of a type graph / "inherits" graph (`_dashed_edge(node, c, colour, node.comp_types[c])`,
    `_solid_edge` has none) -/
def edgeLabel (tab : Table) (e : Edge) : List Nat :=
  match e.style with
  | .dashed => labelOf (compTypes tab e.tail) e.head
  | .solid => []

/-- label of an edge of an "inherited by" graph (`_dashed_edge(c, node, colour, node.comp_of[c])`) -/
def edgeLabelBy (tab : Table) (e : Edge) : List Nat :=
  match e.style with
  | .dashed => compOf tab e.head e.tail
  | .solid => []

/-- positions `≥ i` at which `t` occurs (the specification the loops are compared with) -/
def posFrom : List Node → Nat → Node → List Nat
  | [], _, _ => []
  | p :: r, i, t => (if p = t then [i] else []) ++ posFrom r (i + 1) t

/-! ## Node labels of procedures (`ProcNode.__init__`, `show_proc_parent`)

      if isinstance(obj, FortranBoundProcedure):
          binder = getattr(obj, "parent", None); parent = getattr(binder, "parent", None)
      else:
          parent = getattr(obj, "parent", None); binder = getattr(getattr(obj, "binding", None), "parent", None)
      parent_label = f"{parent.name}::" if parent and gd.show_proc_parent else ""
      binding_label = f"{binder.name}%" if binder else ""
      self.attribs["label"] = f"{parent_label}{binding_label}{self.name}"

  The label is the only thing the reader of a picture or of the table fall-back sees of a node. -/

/-- what the constructor reads for the label -/
structure LabelIn where
  /-- `self.name` as `BaseNode.__init__` left it -/
  name : Str
  /-- name of the scope the procedure is declared in (for a type-bound procedure: the scope of its type);
      `none` when there is none (a procedure known by name only) -/
  parent : Option Str := none
  /-- type-bound procedure: name of its type; procedure that a specific binding names: name of the type
      of that binding -/
  binder : Option Str := none
deriving DecidableEq, Repr

def parentLabel (showParent : Bool) (i : LabelIn) : Str :=
  match i.parent with
  | some p => if showParent then p ++ [':', ':'] else []
  | none => []

def bindingLabel (i : LabelIn) : Str :=
  match i.binder with
  | some b => b ++ ['%']
  | none => []

/-- `ProcNode.attribs["label"]` -/
def procLabel (showParent : Bool) (i : LabelIn) : Str :=
  parentLabel showParent i ++ (bindingLabel i ++ i.name)

/-- reading a label back: everything before the first `c`, and what follows it -/
def splitFirst (c : Char) : Str → Option (Str × Str)
  | [] => none
  | x :: r => if x = c then some ([], r) else (splitFirst c r).map fun (a, b) => (x :: a, b)

def decodeBinder (s : Str) : Option Str × Str :=
  match splitFirst '%' s with
  | some (b, n) => (some b, n)
  | none => (none, s)

/-- the reader's view of a label written with `show_proc_parent`: scope, type, name -/
def decodeLabel (s : Str) : LabelIn :=
  match splitFirst ':' s with
  | some (p, ':' :: rest) => { parent := some p, binder := (decodeBinder rest).1, name := (decodeBinder rest).2 }
  | _ => { parent := none, binder := (decodeBinder s).1, name := (decodeBinder s).2 }

/-- Fortran names hold neither `:` nor `%` -/
def cleanName (s : Str) : Bool := !s.contains ':' && !s.contains '%'

def LabelIn.clean (i : LabelIn) : Bool :=
  cleanName i.name && (i.parent.map cleanName).getD true && (i.binder.map cleanName).getD true

end Ford.Graph
