/-
  C13 — model of the labels of composition edges (ford/graphs.py, `TypeNode.__init__` and the
  `add_node` of `TypeGraph` / `InheritsGraph` / `InheritedByGraph`), as the code is.

  The loop of `TypeNode.__init__` over `obj.local_variables` keeps two dicts:

      if self in node.comp_of:  node.comp_of[self] += ", " + var.name   else: node.comp_of[self] = var.name
      if node in self.comp_types: self.comp_types[node] += ", " + var.name else: self.comp_types[node] = var.name

  and `add_node` writes `node.comp_types[c]` (`node.comp_of[c]` in the "inherited by" graph) as the label
  of the dashed edge.  A label is modelled as the list of the *positions* of the components it names (their
  index in `Ent.comps`, the derived-type components in declaration order); the harness turns it into
  `", ".join(names)`.  A Python dict is an insertion-ordered association list.
-/
import FordModel.Graph
namespace Ford.Graph

abbrev LabelDict := List (Node × List Nat)

/-- `if k in d: d[k] += ", " + name  else: d[k] = name` -/
def labelAdd : LabelDict → Node → Nat → LabelDict
  | [], k, i => [(k, [i])]
  | (k', l) :: r, k, i => if k' = k then (k', l ++ [i]) :: r else (k', l) :: labelAdd r k i

/-- `d[k]` (the empty label when `k` is no key) -/
def labelOf : LabelDict → Node → List Nat
  | [], _ => []
  | (k', l) :: r, k => if k' = k then l else labelOf r k

/-- the loop over the derived-type components from position `i` on, `self.comp_types` side -/
def compLoop : List Node → Nat → LabelDict → LabelDict
  | [], _, d => d
  | t :: r, i, d => compLoop r (i + 1) (labelAdd d t i)

/-- the same loop seen from the node of the component type `t`: the entry `t.comp_of[self]` -/
def compOfLoop (t : Node) : List Node → Nat → List Nat → List Nat
  | [], _, l => l
  | p :: r, i, l => compOfLoop t r (i + 1) (if p = t then l ++ [i] else l)

/-- `self.comp_types` after the constructor of the node of `a` (in insertion order: the order in which
    `add_node` writes the composition edges of `a`) -/
def compTypes (tab : Table) (a : Node) : LabelDict :=
  if (ent tab a).kind == .type && !(ent tab a).extUrl then compLoop (ent tab a).comps 0 [] else []

/-- `t.comp_of[a]` after the constructor of the node of `a` -/
def compOf (tab : Table) (t a : Node) : List Nat :=
  if (ent tab a).kind == .type && !(ent tab a).extUrl then compOfLoop t (ent tab a).comps 0 [] else []

/-- label of an edge of a type graph / "inherits" graph (`_dashed_edge(node, c, colour, node.comp_types[c])`,
    `_solid_edge` has none) -/
def edgeLabel (tab : Table) (e : Edge) : List Nat :=
  match e.style with
  | .dashed => labelOf (compTypes tab e.tail) e.head
  | .solid => []

/-- label of an edge of an "inherited by" graph (`_dashed_edge(c, node, colour, node.comp_of[c])`) -/
def edgeLabelBy (tab : Table) (e : Edge) : List Nat :=
  match e.style with
  | .dashed => compOf tab e.head e.tail
  | .solid => []

/-- positions `≥ i` at which `t` occurs (the specification the loops are compared with) -/
def posFrom : List Node → Nat → Node → List Nat
  | [], _, _ => []
  | p :: r, i, t => (if p = t then [i] else []) ++ posFrom r (i + 1) t

end Ford.Graph
