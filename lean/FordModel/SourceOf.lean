/-
  C10 — model of how an entity finds "its" source file, as the code is
  (ford/sourceform.py):

    * `FortranBase._make_hierarchy`   `cur = self; while cur := cur.parent: hierarchy.append(cur)`,
                                      then `reverse()`                       → `climb`, `hierarchy`
    * `FortranBase.source_file`       `hierarchy[0] if hierarchy else self`  → `sourceFile`
    * `FortranBase.filename`          `self.source_file.name`                → `filenameOf`
    * macros.html `info_bar`          `src/{{ entity.filename }}`            → `Names.srcLink`/`served`

  Entities are numbers; the entity tree is the list of (child, parent) pairs (`e.parent`), the
  source files are the entities with a path.  `fuel` bounds the climb (the Python loop ends because
  parent chains are finite; every theorem holds for every bound).
-/
import FordModel.Names
namespace Ford.SourceOf
open Ford Ford.Names

/-- `e.parent` (None for a source file) -/
abbrev Parents := List (Nat × Nat)

def parentOf (ps : Parents) (e : Nat) : Option Nat := assoc e ps

/-- the `while cur := getattr(cur, "parent", None)` loop: nearest ancestor first -/
def climb (ps : Parents) : Nat → Nat → List Nat
  | 0, _ => []
  | fuel + 1, e =>
    match parentOf ps e with
    | none => []
    | some p => p :: climb ps fuel p

/-- `self.hierarchy` (outermost ancestor first) -/
def hierarchy (ps : Parents) (fuel e : Nat) : List Nat := (climb ps fuel e).reverse

/-- `self.source_file` -/
def sourceFile (ps : Parents) (fuel e : Nat) : Nat :=
  match hierarchy ps fuel e with
  | [] => e
  | f :: _ => f

/-- the entity the parent chain of `e` ends in: the file whose text contains the definition of `e`
    (FORD builds the tree of a file while reading that file; `parent` of everything read from it
    leads to the `FortranSourceFile` object) -/
def rootOf (ps : Parents) : Nat → Nat → Nat
  | 0, e => e
  | fuel + 1, e =>
    match parentOf ps e with
    | none => e
    | some p => rootOf ps fuel p

/-- `self.filename`: the `name` (last path component) of the source-file object -/
def filenameOf (paths : List (Nat × Str)) (ps : Parents) (fuel e : Nat) : Option Str :=
  (assoc (sourceFile ps fuel e) paths).map basename

end Ford.SourceOf
