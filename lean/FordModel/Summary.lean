/-
  Model of the summary part of `FortranBase.markdown` (ford/sourceform.py): after the comment has been
  converted to HTML (`doc`), the short form shown in listings (`meta.summary`) is

    * the converted value of the `summary:` metadata, if the comment set one; otherwise
    * the first paragraph of `doc` - `PARA_CAPTURE_RE = <p>.*?</p>` (IGNORECASE, DOTALL), `search` - if the
      entity has a page of its own or a place on its parent's page (`get_url()`), the whole `doc` if it has
      none; the empty string if `doc` has no paragraph;
    * followed, when the entity has a URL and the summary is not the whole documentation
      (`summary.strip() != doc.strip()`), by the "Read more" link to that URL.

  The Markdown conversion itself is outside (third party): `doc` and the converted `summary:` value are inputs.
-/
import FordModel.Basic.Chars
import FordModel.Generated.C03
namespace Ford

/-- `s` starts with `pat` (given in lower case), letter case ignored -/
def startsWithCI : Str → Str → Bool
  | _, [] => true
  | [], _ :: _ => false
  | c :: cs, p :: ps => lowerChar c == p && startsWithCI cs ps

/-- index of the first occurrence of `pat` (lower case) in `s`, letter case ignored -/
def findCI (pat : Str) : Str → Option Nat
  | [] => if pat.isEmpty then some 0 else none
  | c :: cs =>
    if startsWithCI (c :: cs) pat then some 0
    else match findCI pat cs with
      | some i => some (i + 1)
      | none => none

def pOpen : Str := ['<', 'p', '>']
def pClose : Str := ['<', '/', 'p', '>']

/-- `PARA_CAPTURE_RE.search(doc)`: (text before the match, the match, text after it).  The regex engine
    takes the leftmost start; at a given `<p>` the lazy `.*?` (DOTALL) stops at the first `</p>` behind it;
    if the first `<p>` has no `</p>` behind it, no later `<p>` has one either. -/
def paraCapture (doc : Str) : Option (Str × Str × Str) :=
  match findCI pOpen doc with
  | none => none
  | some i =>
    match findCI pClose (doc.drop (i + 3)) with
    | none => none
    | some j => some (doc.take i, (doc.drop i).take (3 + j + 4), doc.drop (i + (3 + j + 4)))

/-- the "Read more" link appended to a shortened summary (`Gen.readMorePre/Suf`: the constant text before
    and after the URL, obtained by probing the real `FortranBase.markdown`) -/
def readMore (url : Str) : Str := Gen.readMorePre ++ url ++ Gen.readMoreSuf

/-- the summary before the link is added, in both variants of the code: `fix = false` as it is,
    `fix = true` with fixes/C03-summary-without-paragraph.diff (an entity without URL always gets its whole
    documentation, also when it has no paragraph) -/
def summaryCoreV (fix : Bool) (doc : Str) (ms : Option Str) (url : Option Str) : Str :=
  match ms with
  | some s => s
  | none =>
    match paraCapture doc with
    | some (_, para, _) => if url.isSome then para else doc
    | none => if fix && url.isNone then doc else []

def summaryOfV (fix : Bool) (doc : Str) (ms : Option Str) (url : Option Str) : Str :=
  let core := summaryCoreV fix doc ms url
  match url with
  | some u => if strip core != strip doc then core ++ readMore u else core
  | none => core

/-- the code as it is: `ms` = the converted `summary:` metadata if the comment set one, `url` = `get_url()` -/
def summaryCore (doc : Str) (ms : Option Str) (url : Option Str) : Str := summaryCoreV false doc ms url

/-- `meta.summary` as `FortranBase.markdown` leaves it -/
def summaryOf (doc : Str) (ms : Option Str) (url : Option Str) : Str := summaryOfV false doc ms url

end Ford
