/-
  Model of *which* entities get their doc comment converted, and when
  (`ford/sourceform.py`: `_to_be_markdowned`, `FortranSourceFile.markdownable_items`,
  `FortranType.correlate`; `ford/fortran_project.py`: `Project.markdown`).

  * every entity registers itself once in its source file's `_to_be_markdowned` when it is
    created (parsing);
  * `Project.correlate` runs next.  `FortranType.correlate` prepends the public components of
    the base type (the very same objects) to the extending type's `variables` and gives each of
    them that has no `doc` attribute yet the placeholder `Inherited from [[base]]` (+ empty
    metadata — which replaces the metadata `read_metadata` took from the component's own comment:
    finding C03-inherited-component-metadata-reset; with fixes/C03-inherited-component-metadata.diff
    the metadata is only created when the object has none);
  * `Project.markdown` then walks, file by file, `markdownable_items` = the file itself followed
    by the registered entities that have none of the attributes `Gen.markdownSkipAttrs`
    (external entities), and calls `markdown` on each: `doc := convert (dedent doc_list)`.

  An entity is abstracted to the attributes it has (besides the always present ones), its
  `doc_list` and its `doc`.
-/
import FordModel.Basic.Chars
import FordModel.Generated.C03
import FordModel.Meta
namespace Ford

structure CEnt where
  attrs : List Str            -- names of optional attributes the object carries (`external_url`, …)
  docList : List Str          -- `doc_list` (after `read_metadata`)
  doc : Option (List Str)     -- `doc`: `none` = attribute not set
  md : MetaDict := []         -- metadata set from the comment's header by `read_metadata`
  deriving Repr, DecidableEq

/-- `hasattr(e, a)` for `a = "doc"` or an optional attribute -/
def CEnt.hasAttr (e : CEnt) (a : Str) : Bool :=
  if a == ['d', 'o', 'c'] then e.doc.isSome else e.attrs.contains a

/-- the `if` of `markdownable_items` for a given list of skip attributes, evaluated on the object
    as it is at conversion time (`hasattr`, so a `doc` set earlier counts) -/
def CEnt.keeps (skip : List Str) (e : CEnt) : Bool := !(skip.any e.hasAttr)

/-- `if not hasattr(invar, "doc"): invar.doc = placeholder; invar.meta = EntitySettings()`
    (`FortranType.correlate`).  `fix = false`: as the code is; `fix = true`: with
    fixes/C03-inherited-component-metadata.diff (an object that has metadata keeps it). -/
def inheritStep (fix : Bool) (placeholder : List Str) (e : CEnt) : CEnt :=
  match e.doc with
  | none => { e with doc := some placeholder, md := if fix then e.md else [] }
  | some _ => e

/-- positions (in the registration list) of the entities `Project.markdown` converts, in order -/
def convIdxFrom (skip : List Str) : Nat → List CEnt → List Nat
  | _, [] => []
  | i, e :: es => if e.keeps skip then i :: convIdxFrom skip (i + 1) es else convIdxFrom skip (i + 1) es

def convIdx (skip : List Str) (reg : List CEnt) : List Nat := convIdxFrom skip 0 reg

/-- the loop of `Project.markdown` over one file's registered entities; `conv` stands for
    `md.reset().convert(dedent(...))` -/
def convertAll (skip : List Str) (conv : List Str → List Str) (reg : List CEnt) : List CEnt :=
  reg.map (fun e => if e.keeps skip then { e with doc := some (conv e.docList) } else e)

/-- `gen = copy.copy(bp); gen.parent = self` (`FortranType.correlate`, inherited generic binding):
    the extending type lists the copy `e` of the base type's binding.  Returns the file's
    registration list afterwards.  `fix = false`: as the code is, the copy is registered nowhere
    (finding C03-inherited-generic-binding-undocumented); `fix = true`: with
    fixes/C03-inherited-generic-binding-doc.diff it is appended to the registration list. -/
def registerCopy (fix : Bool) (reg : List CEnt) (e : CEnt) : List CEnt :=
  if fix then reg ++ [e] else reg

/-- what the page of the extending type shows for the copy after `Project.markdown`: its
    converted `doc` if the copy was registered (the last entry), otherwise the `doc` it was
    copied with -/
def copyDoc (fix : Bool) (skip : List Str) (conv : List Str → List Str) (reg : List CEnt) (e : CEnt) :
    Option (List Str) :=
  if fix then ((convertAll skip conv (registerCopy fix reg e)).getLast?.bind (·.doc)) else e.doc

end Ford
