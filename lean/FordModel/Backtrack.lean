/-
  Model of what a *backtracking* regular-expression matcher (CPython's `re`) can be made to
  do by the patterns FORD applies to every statement of a source file (property C20, "on any
  input FORD terminates - it never hangs").

  `Rx` is the abstract syntax of the patterns as `re` parses them (the table
  `Gen.patterns` in Generated/C20.lean is produced from the compiled pattern objects of
  ford/reader.py and ford/sourceform.py with `re._parser`).  Character sets are bit masks
  over the ASCII codes 0..127 (case-insensitive patterns carry both cases in the mask).

  `paths r s` is the classical "list of successes" of a backtracking matcher: *every* way
  in which `r` can match a prefix of `s`, given by what is left of `s`, with multiplicity.
  When whatever follows `r` in the pattern fails, the engine walks through all of them
  before it gives up, so `(paths r s).length` is the work a failure costs; a loop whose
  number of ways grows exponentially with the length of the statement is what makes FORD
  hang.  (The order in which the engine tries them - greedy / lazy - does not matter for
  the count and is not modelled.)

  `functional a` is a syntactic condition under which `a` has *at most one* way to match at
  any position (fixed sequences of character sets; alternatives that start with different
  characters; a run of one character set closed by something that starts with a character
  outside the set).  A loop over such a body has at most `|s| + 1` ways
  (`Lemmas/Backtrack.lean`), and the table theorem of Props/C20.lean demands it of every
  loop of every pattern that can be re-entered after a failure.
-/
import FordModel.Basic.Chars
namespace Ford

inductive Rx
  | cls (m : Nat)                              -- one character out of a set (bit c of m ⇔ code c)
  | eps
  | bos                                        -- `^`  (no MULTILINE in these modules)
  | eos                                        -- `$`
  | lookb                                      -- look-behind assertion: not modelled, taken as true
  | look (neg : Bool) (r : Rx)                 -- `(?=r)` / `(?!r)`
  | seq (a b : Rx)
  | alt (a b : Rx)
  | rep (lo : Nat) (hi : Option Nat) (a : Rx)  -- `a{lo,hi}`, `hi = none` for unbounded
  deriving Repr, DecidableEq

namespace Rx

def inCls (m : Nat) (c : Char) : Bool := decide (c.toNat < 128) && m.testBit c.toNat

def hiAllows : Option Nat → Nat → Bool
  | none, _ => true
  | some h, k => decide (k < h)

/-- the ways a loop can match from `s` when `k` iterations are done: stop here (if `lo` is
    reached), or do one more iteration - which has to consume something - and go on -/
def iter (f : Str → List Str) (lo : Nat) (hi : Option Nat) : Nat → Nat → Str → List Str
  | 0, _, _ => []
  | fuel + 1, k, s =>
    (if lo ≤ k then [s] else []) ++
    (if hiAllows hi k then
       ((f s).filter (fun t => decide (t.length < s.length))).flatMap (iter f lo hi fuel (k + 1))
     else [])

/-- every way `r` matches a prefix of `s`: the remainders, with multiplicity
    (`n0` = length of the whole subject, for `^`) -/
def paths (n0 : Nat) : Rx → Str → List Str
  | .cls m, s =>
    match s with
    | c :: t => if inCls m c then [t] else []
    | [] => []
  | .eps, s => [s]
  | .bos, s => if s.length == n0 then [s] else []
  | .eos, s => if s.isEmpty || s == ['\n'] then [s] else []
  | .lookb, s => [s]
  | .look neg r, s => if (paths n0 r s).isEmpty == neg then [s] else []
  | .seq a b, s => (paths n0 a s).flatMap (paths n0 b)
  | .alt a b, s => paths n0 a s ++ paths n0 b s
  | .rep lo hi a, s => iter (paths n0 a) lo hi (s.length + 1) 0 s

/-- The matcher itself, as a backtracking engine runs: `matchK r s k` tries the ways of `r` at
    `s` one after the other (a loop first tries one more iteration, then to stop) and hands
    what is left to the continuation `k`, until `k` accepts.  It equals `(paths r s).any k`
    (`Lemmas/Backtrack.lean`, `matchK_eq_any`) but stops at the first success, as `re` does. -/
def iterK (f : Str → (Str → Bool) → Bool) (lo : Nat) (hi : Option Nat) :
    Nat → Nat → Str → (Str → Bool) → Bool
  | 0, _, _, _ => false
  | fuel + 1, k, s, kont =>
    (hiAllows hi k && f s (fun t => decide (t.length < s.length) && iterK f lo hi fuel (k + 1) t kont))
      || (decide (lo ≤ k) && kont s)

def matchK (n0 : Nat) : Rx → Str → (Str → Bool) → Bool
  | .cls m, s, k =>
    match s with
    | c :: t => inCls m c && k t
    | [] => false
  | .eps, s, k => k s
  | .bos, s, k => (s.length == n0) && k s
  | .eos, s, k => (s.isEmpty || s == ['\n']) && k s
  | .lookb, s, k => k s
  | .look neg r, s, k => ((!(matchK n0 r s (fun _ => true))) == neg) && k s
  | .seq a b, s, k => matchK n0 a s (fun t => matchK n0 b t k)
  | .alt a b, s, k => matchK n0 a s k || matchK n0 b s k
  | .rep lo hi a, s, k => iterK (matchK n0 a) lo hi (s.length + 1) 0 s k

/-- `pattern.match(s)` succeeds -/
def matchesAt0 (r : Rx) (s : Str) : Bool := matchK s.length r s (fun _ => true)

/-- number of ways `r` matches at the start of `s` -/
def ways (r : Rx) (s : Str) : Nat := (paths s.length r s).length

/-! ### static analysis -/

def nullable : Rx → Bool
  | .cls _ => false
  | .eps | .bos | .eos | .lookb | .look _ _ => true
  | .seq a b => nullable a && nullable b
  | .alt a b => nullable a || nullable b
  | .rep lo _ a => lo == 0 || nullable a

/-- characters a non-empty match can start with -/
def first : Rx → Nat
  | .cls m => m
  | .eps | .bos | .eos | .lookb | .look _ _ => 0
  | .seq a b => if nullable a then first a ||| first b else first a
  | .alt a b => first a ||| first b
  | .rep _ _ a => first a

/-- matches at every position of every subject (so what precedes it is never re-entered
    because of it) -/
def neverFails : Rx → Bool
  | .eps => true
  | .cls _ | .bos | .eos | .lookb | .look _ _ => false
  | .seq a b => neverFails a && neverFails b
  | .alt a b => neverFails a || neverFails b
  | .rep lo _ a => lo == 0 || neverFails a

def isLoop : Option Nat → Bool
  | none => true
  | some h => decide (1 < h)

/-- at most one way to match, whatever the subject (sufficient condition) -/
def functional : Rx → Bool
  | .cls _ | .eps | .bos | .eos | .lookb | .look _ _ => true
  | .seq (.rep _ _ (.cls m)) b => functional b && !nullable b && (first b &&& m) == 0
  | .seq a b => functional a && functional b
  | .alt a b => functional a && functional b && !nullable a && !nullable b && (first a &&& first b) == 0
  | .rep _ _ _ => false

/-- bodies of the loops (`hi > 1`) of `r` that can be re-entered after a failure;
    `nofail` = nothing that can fail follows `r` up to the end of the pattern -/
def loopsCF : Rx → Bool → List Rx
  | .cls _, _ | .eps, _ | .bos, _ | .eos, _ | .lookb, _ => []
  | .look _ r, _ => loopsCF r false
  | .seq a b, nofail => loopsCF a (nofail && neverFails b) ++ loopsCF b nofail
  | .alt a b, nofail => loopsCF a nofail ++ loopsCF b nofail
  | .rep _ hi a, nofail =>
    if isLoop hi then (if nofail then [] else [a]) ++ loopsCF a false
    else loopsCF a nofail

/-- bodies of such loops for which `functional` does not hold -/
def badLoops (r : Rx) : List Rx := (loopsCF r true).filter (fun a => !functional a)

/-- all loops (`hi > 1`), for the histogram -/
def allLoops : Rx → List Rx
  | .cls _ | .eps | .bos | .eos | .lookb => []
  | .look _ r => allLoops r
  | .seq a b => allLoops a ++ allLoops b
  | .alt a b => allLoops a ++ allLoops b
  | .rep _ hi a => (if isLoop hi then [a] else []) ++ allLoops a

end Rx

/-- `a b c ...` in sequence (used by the generated table) -/
def seqs : List Rx → Rx
  | [] => .eps
  | [x] => x
  | x :: xs => .seq x (seqs xs)

/-- `a | b | c ...` -/
def alts : List Rx → Rx
  | [] => .eps
  | [x] => x
  | x :: xs => .alt x (alts xs)

/-- Patterns of the unchanged FORD that have a loop outside the `functional` class which can
    be re-entered after a failure (finding C20-call-chain-backtracking); they are the
    explicit exclusion of `C20.statement_patterns_loops_linear_partial`. -/
def knownBacktracking : List Str :=
  [['s', 'o', 'u', 'r', 'c', 'e', 'f', 'o', 'r', 'm', '.', 'F', 'o', 'r', 't', 'r', 'a', 'n', 'C', 'o', 'n', 't', 'a',
    'i', 'n', 'e', 'r', '.', 'C', 'A', 'L', 'L', '_', 'R', 'E']]

end Ford
