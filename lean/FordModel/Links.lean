/-
  C11 - model of FORD's `[[name(kind):item(kind)]]` reference resolution, as the
  code is (ford/_markdown.py `FordLinkProcessor.convert_link`, `MetaMarkdown.convert`;
  ford/sourceform.py `FortranBase.find_child / children / get_dir / get_url`,
  `_find_in_list`; ford/fortran_project.py `Project.find`).

  The entity graph of a correlated project is a store `Project.ents` (an entity's
  id is its index); list attributes hold `Item`s (an entity id, or something that
  is not a `FortranBase`, e.g. an uncorrelated name).  The tables LINK_TYPES,
  SUBLINK_TYPES, the attribute order of `children`, and the class tuples of
  `get_dir`/`get_url` are the generated constants of `Generated/C11.lean`.
  Python exceptions are values of `Err`.
-/
import FordModel.Basic.Chars
import FordModel.Generated.C11
namespace Ford.Links
open Ford

/-! ### Entity store -/

/-- element of a Python list attribute -/
inductive Item where
  | ent (id : Nat)   -- a FortranBase object
  | other            -- anything else (skipped by `_find_in_list`)
  deriving Repr, DecidableEq, Inhabited

/-- value of an attribute that `hasattr` finds on an entity -/
inductive AttrVal where
  | many (l : List Item)  -- a list
  | one (id : Nat)        -- a single FortranBase (e.g. `constructor`, `procedure`)
  | noneVal               -- `None`
  | otherVal              -- some other iterable without entities (a string)
  deriving Repr, DecidableEq, Inhabited

/-- what `get_dir`/`get_url` read off one object of the parent chain -/
structure Anc where
  cls : String        -- Python class name
  obj : Str           -- `.obj`
  ident : Str         -- `.ident` (NameSelector; property C10)
  unnamed : Bool      -- `not self.name`
  ifaceProc : Bool    -- `is_interface_procedure` (procedures only)
  deriving Repr, DecidableEq, Inhabited

structure Ent where
  name : Str
  chain : List Anc            -- the object itself, its parent, grand-parent, ...
  extUrl : Option Str         -- `external_url` when the attribute exists
  attrs : List (String × AttrVal)
  parent : Option Nat
  filename : Str := []        -- `.filename` = name of the source file the entity is in (round 6: warnings)
  deriving Repr, Inhabited

structure Project where
  ents : List Ent
  lists : List (String × List Item)   -- the project-wide collections
  deriving Repr, Inhabited

def Project.get (P : Project) (id : Nat) : Option Ent := P.ents[id]?

def Project.coll (P : Project) (attr : String) : List Item := (P.lists.lookup attr).getD []

/-- Python exceptions that can leave `convert_link` -/
inductive Err where
  | unknownEntity    -- ValueError "Unknown class of entity"
  | cannotHaveChild  -- ValueError "... cannot have child ..."
  | notIterable      -- TypeError from `list(<single object or None>)`
  | noUrl            -- RuntimeError "Found item ... but no url"
  deriving Repr, DecidableEq, Inhabited

def Err.isValueError : Err → Bool
  | .unknownEntity => true
  | .cannotHaveChild => true
  | _ => false

/-! ### Tables -/

def linkTypes : List (String × String) := Generated.C11.linkTypes
def sublinkTypes : List (String × String) := Generated.C11.sublinkTypes
def childrenOrder : List String := Generated.C11.childrenOrder
def nonListChildren : List String := Generated.C11.nonListChildren

/-- `kind.lower()` as a table key -/
def kindKey (k : Str) : String := String.ofList (lower k)

/-! ### `_find_in_list`, `children`, `find_child`, `Project.find` -/

def nameMatches (P : Project) (name : Str) (id : Nat) : Bool :=
  match P.get id with
  | some e => lower name == lower e.name
  | none => false

/-- `_find_in_list`: the first entity of the collection whose name equals `name`
    case-insensitively; non-entities are skipped -/
def findInList (P : Project) (name : Str) : List Item → Option Nat
  | [] => none
  | .other :: rest => findInList P name rest
  | .ent id :: rest => if nameMatches P name id then some id else findInList P name rest

/-- `FortranBase.iterator`: the list attributes that exist, in the order asked for -/
def iterItems (e : Ent) : List String → List Item
  | [] => []
  | a :: rest =>
    (match e.attrs.lookup a with
     | some (.many l) => l
     | _ => []) ++ iterItems e rest

/-- the `filter(None, getattr(self, item, None) ...)` part of `children` -/
def singleItems (e : Ent) : List String → List Item
  | [] => []
  | a :: rest =>
    (match e.attrs.lookup a with
     | some (.one id) => [.ent id]
     | some .otherVal => [.other]
     | _ => []) ++ singleItems e rest

/-- `FortranBase.children` -/
def children (e : Ent) : List Item := iterItems e childrenOrder ++ singleItems e nonListChildren

/-- `FortranBase.find_child(name, entity)` -/
def findChild (P : Project) (e : Ent) (name : Str) : Option Str → Except Err (Option Nat)
  | none => .ok (findInList P name (children e))
  | some k =>
    match sublinkTypes.lookup (kindKey k) with
    | none => .error .unknownEntity
    | some attr =>
      match e.attrs.lookup attr with
      | none => .error .cannotHaveChild
      | some (.many l) => .ok (findInList P name l)
      | some .otherVal => .ok none
      | some (.one _) => .error .notIterable
      | some .noneVal => .error .notIterable

/-- the collection `Project.find` searches for a component -/
def projectColl (P : Project) : Option Str → Except Err (List Item)
  | none => .ok (linkTypes.flatMap fun kv => P.coll kv.2)
  | some k =>
    match linkTypes.lookup (kindKey k) with
    | none => .error .unknownEntity
    | some attr => .ok (P.coll attr)

/-- `Project.find(name, entity, child_name, child_entity)` -/
def projectFind (P : Project) (name : Str) (kind : Option Str) (child : Option Str)
    (childKind : Option Str) : Except Err (Option Nat) :=
  match projectColl P kind with
  | .error e => .error e
  | .ok coll =>
    match findInList P name coll, child with
    | some id, some c =>
      match P.get id with
      | some e => findChild P e c childKind
      | none => .ok none
    | r, _ => .ok r

/-! ### `convert_link` -/

structure Ref where
  name : Str
  kind : Option Str := none
  child : Option Str := none
  childKind : Option Str := none
  deriving Repr, DecidableEq, Inhabited

/-- `with suppress(ValueError)` -/
def suppressVE : Except Err (Option Nat) → Except Err (Option Nat)
  | .error e => if e.isValueError then .ok none else .error e
  | .ok r => .ok r

/-- the part of `convert_link` inside `if (context := ...) is not None` -/
def localLookup (P : Project) (c : Ent) (r : Ref) : Except Err (Option Nat) :=
  match suppressVE (findChild P c r.name r.kind) with
  | .error e => .error e
  | .ok i1 =>
    let viaParent : Except Err (Option Nat) :=
      match i1, c.parent.bind P.get with
      | none, some p => suppressVE (findChild P p r.name r.kind)
      | _, _ => .ok i1
    match viaParent with
    | .error e => .error e
    | .ok i2 =>
      match r.child, i2.bind P.get with
      | some ch, some e => findChild P e ch r.childKind
      | _, _ => .ok i2

/-- which entity (if any) the reference resolves to -/
def lookup (P : Project) (ctx : Option Nat) (r : Ref) : Except Err (Option Nat) :=
  let loc : Except Err (Option Nat) :=
    match ctx.bind P.get with
    | none => .ok none
    | some c => localLookup P c r
  match loc with
  | .error e => .error e
  | .ok (some i) => .ok (some i)
  | .ok none =>
    match projectFind P r.name r.kind r.child r.childKind with
    | .error e => .error e
    | .ok (some i) => .ok (some i)
    | .ok none =>
      match r.child with
      | some _ => projectFind P r.name r.kind none none   -- parent-only fall-back (with a warning)
      | none => .ok none

/-! ### URLs -/

/-- `dir/file#frag` relative to the base URL -/
structure Url where
  dir : Str
  file : Str
  frag : Option Str
  deriving Repr, DecidableEq, Inhabited

def Url.lastSeg (u : Url) : Str :=
  match u.frag with
  | some f => u.file ++ '#' :: f
  | none => u.file

/-- path segments as `pathlib` sees them (the fragment stays in the last one) -/
def Url.segs (u : Url) : List Str := [u.dir, u.lastSeg]

def Url.str (u : Url) : Str := u.dir ++ '/' :: u.lastSeg

/-- `FortranBase.get_dir` (the base-class rule) -/
def baseDir (a : Anc) (parentCls : Option String) : Option Str :=
  if Generated.C11.dirAlways.contains a.cls then some a.obj
  else if Generated.C11.dirIfParent.contains a.cls then
    match parentCls with
    | some p => if Generated.C11.dirParents.contains p then some a.obj else none
    | none => none
  else none

/-- `get_dir` including the three overrides -/
def getDir (a : Anc) (parentCls : Option String) : Option Str :=
  match Generated.C11.getDirOwner.lookup a.cls with
  | some owner =>
    if owner == "FortranSubmodule" then some "module".toList
    else if owner == "FortranProcedure" then
      (if a.ifaceProc then some "interface".toList else baseDir a parentCls)
    else if owner == "FortranInterface" then
      (if a.unnamed then none else baseDir a parentCls)
    else if owner == "FortranBase" then baseDir a parentCls
    else none
  | none => none

/-- `FortranBase.get_url` for an object without `external_url`, along its parent chain -/
def urlOfChain : List Anc → Option Url
  | [] => none
  | a :: rest =>
    match getDir a (rest.head?.map (·.cls)) with
    | some d => if d.isEmpty then none else some { dir := d, file := a.ident ++ ".html".toList, frag := none }
    | none =>
      if Generated.C11.anchorClasses.contains a.cls && !rest.isEmpty then
        match urlOfChain rest with
        | some u => some { u with frag := some (a.obj ++ '-' :: a.ident) }
        | none => none
      else none

/-! ### Paths (`os.path.relpath` on normalised absolute segment lists) -/

abbrev Path := List Str

def dotdot : Str := "..".toList
def dot : Str := ".".toList

def commonLen : Path → Path → Nat
  | a :: as, b :: bs => if a == b then commonLen as bs + 1 else 0
  | _, _ => 0

def relpath (target start : Path) : Path :=
  let c := commonLen target start
  let r := List.replicate (start.length - c) dotdot ++ target.drop c
  if r.isEmpty then [dot] else r

/-- resolution of a relative reference against a directory (`..` pops, `.` stays) -/
def normAux : Path → Path → Path
  | acc, [] => acc.reverse
  | acc, s :: rest =>
    if s == dotdot then normAux acc.tail rest
    else if s == dot then normAux acc rest
    else normAux (s :: acc) rest

def resolve (dir rel : Path) : Path := normAux dir.reverse rel

def nonExistentDir : Str := "non-existent dir".toList

/-- `os.path.abspath` as `relpath` applies it to both of its arguments: a relative path (e.g. the
    `pathlib.Path` of a `project_url` such as `https://example.com/docs`) is taken from the process's
    working directory -/
def absolutize (cwd : Path) (isAbs : Bool) (p : Path) : Path := if isAbs then p else cwd ++ p

/-! ### `MetaMarkdown.convert` + `convert_link` output -/

structure Env where
  base : Path    -- `md.base_url` (absolute)
  cwd : Path     -- the process's working directory
  deriving Repr, Inhabited

/-- `self.current_path` as set by `MetaMarkdown.convert(source, context, path)` -/
def currentPath (env : Env) (P : Project) (ctx : Option Nat) (path : Option Path) : Option Path :=
  match path, ctx.bind P.get with
  | none, some c =>
    match (match c.extUrl with | some _ => none | none => urlOfChain c.chain) with
    | some u => some (env.base ++ u.segs.dropLast.dropLast ++ [nonExistentDir])
    | none => none
  | p, _ => p

inductive Out where
  | link (text href : Str)
  | text (t : Str)
  | err (e : Err)
  deriving Repr, DecidableEq, Inhabited

def isHttp (s : Str) : Bool := startsWith s "http".toList

/-- href of a link to entity `e` when the text is converted with `current_path = cur` -/
def hrefOf (env : Env) (cur : Option Path) (e : Ent) : Except Err Str :=
  match e.extUrl with
  | some u =>
    if isHttp u then .ok u
    else .ok (joinSep '/' (relpath (env.base ++ [u]) (cur.getD env.cwd)))  -- not reached by the harness
  | none =>
    match urlOfChain e.chain with
    | none => .error .noUrl
    | some u => .ok (joinSep '/' (relpath (env.base ++ u.segs) (cur.getD env.cwd)))

/-- `convert_link` on a parsed reference -/
def convertLink (env : Env) (P : Project) (ctx : Option Nat) (path : Option Path) (r : Ref) : Out :=
  match lookup P ctx r with
  | .error e => .err e
  | .ok none => .text r.name
  | .ok (some id) =>
    match P.get id with
    | none => .text r.name
    | some e =>
      match hrefOf env (currentPath env P ctx path) e with
      | .error x => .err x
      | .ok h => .link e.name h

/-- surface form `[[name(kind):child(childKind)]]` -/
def Ref.render (r : Ref) : Str :=
  let q (k : Option Str) : Str := match k with | some s => '(' :: s ++ [')'] | none => []
  "[[".toList ++ r.name ++ q r.kind ++
    (match r.child with | some c => ':' :: c ++ q r.childKind | none => []) ++ "]]".toList

/-! ### `prune` as seen by the lookup: hidden entities leave every collection -/

def keepItems (keep : Nat → Bool) (l : List Item) : List Item :=
  l.filter fun | .ent id => keep id | .other => true

def pruneAttr (keep : Nat → Bool) : AttrVal → AttrVal
  | .many l => .many (keepItems keep l)
  | .one id => if keep id then .one id else .noneVal
  | v => v

def pruneEnt (keep : Nat → Bool) (e : Ent) : Ent :=
  { e with attrs := e.attrs.map fun kv => (kv.1, pruneAttr keep kv.2) }

def prune (keep : Nat → Bool) (P : Project) : Project :=
  { ents := P.ents.map (pruneEnt keep), lists := P.lists.map fun kv => (kv.1, keepItems keep kv.2) }

end Ford.Links
