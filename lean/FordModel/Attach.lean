/-
  Model of how ford/sourceform.py distributes the reader's doc lines over
  entities:

  * every entity-creating statement is followed by `read_docstring`, which
    takes the maximal run of doc items that follows (`startswith("!" + docmark)`,
    cut `len("!" + docmark)` characters) and passes the first other item back;
  * a doc item met in a container's own loop (`line[0:2] == "!" + docmark`) is
    appended to that container's `doc_list` (after its metadata was split off);
  * `read_metadata` splits the docstring read at creation into metadata and
    body (module-procedure references get their docstring *after*
    `read_metadata`, so theirs is not split); the source file's `doc_list` is
    split once, at the end.

  Character literals are masked first (`dropLits`), as the parser does.
  The statement classifier `classify` is a keyword reading of the `if/elif`
  cascade of `FortranContainer.__init__` restricted to the statement forms the
  C03 generator emits (lower-cased line, first words); the full cascade is
  the subject of C01.  Names are compared lower-cased.
-/
import FordModel.Basic.Chars
import FordModel.Basic.Split
import FordModel.Meta
namespace Ford

inductive Kind
  | openE (name : Str)               -- container entity: docstring, then its own loop until END
  | leafAll (names : List Str) (split : Bool)  -- every name gets (a copy of) the docstring
  | leafLast (names : List Str) (split : Bool) -- only the last name gets the docstring
  | close
  | other
  deriving Repr, DecidableEq

def firstWord (s : Str) : Str × Str := (s.takeWhile isWord, s.dropWhile isWord)

def unitKeywords : List Str :=
  ["module", "submodule", "subroutine", "function", "procedure", "program", "type",
   "interface", "enum"].map String.toList

def typeKeywords : List Str :=
  ["integer", "real", "logical", "complex", "character", "class", "enumerator", "double"].map String.toList

def prefixKeywords : List Str := ["pure", "elemental", "recursive", "impure"].map String.toList

/-- text after the first `::` (none when there is no `::`) -/
def afterColons : Str → Option Str
  | [] => none
  | [_] => none
  | c :: d :: rest => if c == ':' && d == ':' then some rest else afterColons (d :: rest)

/-- entity name at the start of a declarator: `a`, `a(3)`, `a = 1`, `bp => s` -/
def declName (s : Str) : Str := (lstrip s).takeWhile isWord

/-- names declared after `::` (or after the keyword when `::` is absent) -/
def declNames (s : Str) : List Str :=
  let body := match afterColons s with | some r => r | none => s
  (parenSplit ',' body).map declName

def classifyCore (w r : Str) (whole : Str) : Kind :=
  let r' := lstrip r
  let w2 := (firstWord r').1
  if w == "module".toList then
    if w2 == "procedure".toList then .leafLast (declNames (firstWord r').2) false
    else .openE w2
  else if w == "program".toList || w == "subroutine".toList || w == "function".toList then .openE w2
  else if w == "interface".toList then .openE w2
  else if w == "enum".toList then .openE []
  else if w == "type".toList then
    if r'.head? == some '(' then .leafAll (declNames whole) true
    else match afterColons r' with
      | some n => .openE (declName n)
      | none => .openE w2
  else if w == "procedure".toList || w == "generic".toList then
    if r'.head? == some '(' then .leafAll (declNames whole) true
    else .leafAll [declName (match afterColons r' with | some n => n | none => r')] true
  else if w == "final".toList then .leafLast (declNames r') true
  else if typeKeywords.contains w then
    if w2 == "function".toList then .openE (firstWord (lstrip (firstWord r').2)).1
    else .leafAll (declNames whole) true
  else .other

/-- The statement with the contents of its character literals removed (the quote characters stay):
    `FortranContainer.__init__` replaces every literal by a numbered placeholder before it looks at the
    statement (`QUOTES_RE`, "Temporarily replace all strings to make the parsing simpler"), so a comma, `::`,
    `=>`, keyword or parenthesis inside a literal is never syntax.  `inq` = the quote character of the literal
    the scan is in (a doubled quote closes and re-opens, which drops the same characters). -/
def dropLits : Str → Option Char → Str
  | [], _ => []
  | c :: cs, none => if c == '"' || c == '\'' then c :: dropLits cs (some c) else c :: dropLits cs none
  | c :: cs, some q => if c == q then c :: dropLits cs none else dropLits cs (some q)

/-- classification of a (non-doc) reader item -/
def classify (line : Str) : Kind :=
  let l := lower (dropLits line none)
  let (w, r) := firstWord l
  if w == "end".toList then
    let r' := lstrip r
    if r'.isEmpty || unitKeywords.contains (firstWord r').1 then .close else .other
  else if startsWith w "end".toList && unitKeywords.contains (w.drop 3) then .close
  else if prefixKeywords.contains w then
    let (w1, r1) := firstWord (lstrip r)
    if prefixKeywords.contains w1 then
      let (w2, r2) := firstWord (lstrip r1)
      classifyCore w2 r2 l
    else classifyCore w1 r1 l
  else if w == "abstract".toList then
    -- `abstract interface`: a container like `interface` (its FortranInterface object is taken out of the
    -- registration list again, see AttachIface.lean)
    if (firstWord (lstrip r)).1 == "interface".toList then .openE [] else .other
  else classifyCore w r l

structure Ent where
  name : Str
  split : Bool            -- `read_metadata` sees the docstring read at creation
  init : List Str         -- docstring read by `read_docstring` at creation
  extra : List Str        -- doc lines appended later by the container loop
  deriving Repr, DecidableEq

def modifyAt (f : Ent → Ent) : Nat → List Ent → List Ent
  | _, [] => []
  | 0, e :: es => f e :: es
  | i + 1, e :: es => e :: modifyAt f i es

/-- apply `f` to the last `k` entities -/
def modifyLast (f : Ent → Ent) (k : Nat) (es : List Ent) : List Ent :=
  es.take (es.length - k) ++ (es.drop (es.length - k)).map f

structure ASt where
  stack : List Nat := []      -- indices (in `ents`) of the open containers, innermost first; the file (0) is the implicit bottom
  reading : Nat := 0          -- `read_docstring` in progress for the last `reading` entities
  ents : List Ent := []
  deriving Repr

def fileName : Str := "<file>".toList

def mkEnts (names : List Str) (split : Bool) : List Ent := names.map (fun n => ⟨n, split, [], []⟩)

/-- a statement item (not a doc line of the current container) -/
def attachStmt (mark : Str) (s : ASt) (it : Str) : ASt :=
  if it.take 2 == '!' :: mark then
    { s with reading := 0,
             ents := modifyAt (fun e => { e with extra := e.extra ++ [it.drop 2] }) (s.stack.headD 0) s.ents }
  else
    match classify it with
    | .openE n => { stack := s.ents.length :: s.stack, reading := 1, ents := s.ents ++ mkEnts [n] true }
    | .leafAll ns sp => { s with reading := ns.length, ents := s.ents ++ mkEnts ns sp }
    | .leafLast ns sp => { s with reading := min 1 ns.length, ents := s.ents ++ mkEnts ns sp }
    | .close => { s with reading := 0, stack := s.stack.drop 1 }
    | .other => { s with reading := 0 }

/-- one reader item -/
def attachStep (mark : Str) (s : ASt) (it : Str) : ASt :=
  if s.reading > 0 && startsWith it ('!' :: mark) then
    { s with ents := modifyLast (fun e => { e with init := e.init ++ [it.drop (1 + mark.length)] }) s.reading s.ents }
  else attachStmt mark s it

def attachFrom (mark : Str) : ASt → List Str → ASt
  | s, [] => s
  | s, it :: rest => attachFrom mark (attachStep mark s it) rest

/-- all entities of a file in creation order, the file itself first -/
def attach (mark : Str) (items : List Str) : List Ent :=
  (attachFrom mark { ents := [⟨fileName, true, [], []⟩] } items).ents

/-- what `read_metadata` leaves: (metadata, final `doc_list`) of a non-file entity.
    `rep` selects the variant of the code: `false` = as is (module-procedure references get
    their docstring after `read_metadata` ran, so it is not split; finding
    C03-modproc-metadata-not-split), `true` = with fixes/C03-modproc-metadata.diff applied; `tb` selects the variant of the
    one-line rule (see `isOneLine`). -/
def entDoc (tb : Bool) (fields : List Str) (rep : Bool) (e : Ent) : MetaDict × List Str :=
  if e.split || rep then
    let r := readMetadata tb fields e.init
    (r.1, r.2 ++ e.extra)
  else ([], e.init ++ e.extra)

/-- (name, metadata, final doc_list) of every entity; the first one is the source file,
    whose `doc_list` is filled by its loop and split at the end -/
def entDocs (tb : Bool) (fields : List Str) (rep : Bool) : List Ent → List (Str × MetaDict × List Str)
  | [] => []
  | f :: rest =>
    (f.name, readMetadata tb fields (f.init ++ f.extra)) ::
      rest.map (fun e => (e.name, entDoc tb fields rep e))

end Ford
