/-
  C18 - the heading of a procedure: the macro `proc_line` of `ford/templates/macros.html`, for a procedure that is
  not a separate module procedure (`proc.mp` false) and whose name is printed as text (`link=False`, or the procedure
  is not visible).  Mirrors the template *as it is*, blanks included (up to trailing white space):

    {% if <module level> and not proto %}{{ proc.permission }} {% endif -%}
    {{ proc.attribs | join(" ") }} {{ proc.proctype | lower }} {{ proc.name }}({{ proc.args | join(", ") }})
    {%- if proc.proctype|lower == 'function' and proc.name|lower != proc.retvar.name|lower %} result({{ proc.retvar.name }}){% endif -%}
    {% if proc.bindC %} bind({{ proc.bindC | e }}){% endif %}

  The output expressions of the macro (with their filters), the separators of its two `join` filters and the tests
  of its `if` statements are regenerated from the Jinja AST on every run (`Generated.C18.escapeSites`,
  `procLineJoins`, `procLineTests`); `Props/C18.lean: proc_line_as_modelled` is the obligation that they are the
  ones this model lays out.  The test of the RESULT clause exists in two forms: both sides lower-cased (the code as
  it is) or compared as written (`resultCI = false`, the code before fixes/C18-result-clause-case.diff).
-/
import FordModel.Basic.Chars
import FordModel.Escape
namespace Ford.ProcLine
open Ford.Html

/-- what `proc_line` reads of a procedure -/
structure Proc where
  /-- `proc.parobj == 'module' or (proc.parobj == 'interface' and proc.parent.parobj == 'module')` -/
  moduleLevel : Bool
  permission : Str
  attribs : List Str
  proctype : Str
  name : Str
  /-- `str(a)` for the items of the collection the heading is assembled from -/
  args : List Str
  /-- `proc.retvar.name` (functions) -/
  retName : Option Str
  /-- `proc.bindC` (`""`: falsy, no BIND clause) -/
  bindC : Str
deriving Repr, DecidableEq

/-- `'function'` -/
def kwFunction : Str := ['f', 'u', 'n', 'c', 't', 'i', 'o', 'n']

/-- `proc.name|lower != proc.retvar.name|lower` (ci) / `proc.name != proc.retvar.name` -/
def namesDiffer (ci : Bool) (a b : Str) : Bool := if ci then lower a != lower b else a != b

/-- the test of the RESULT clause: the name shown in it, if any -/
def showsResult (resultCI : Bool) (p : Proc) : Option Str :=
  if lower p.proctype = kwFunction then
    match p.retName with
    | some r => if namesDiffer resultCI p.name r then some r else none
    | none => none
  else none

/-- everything in front of the BIND clause (no source text other than names, keywords and the argument list) -/
def headText (resultCI proto : Bool) (p : Proc) : Str :=
  (if p.moduleLevel && !proto then p.permission ++ [' '] else []) ++
  joinStr [' '] p.attribs ++ ' ' :: lower p.proctype ++ ' ' :: p.name ++
  '(' :: joinStr [',', ' '] p.args ++ [')'] ++
  (match showsResult resultCI p with
   | some r => " result(".toList ++ r ++ [')']
   | none => [])

/-- the markup `proc_line` produces -/
def procLine (resultCI proto : Bool) (p : Proc) : Str :=
  headText resultCI proto p ++
  (if p.bindC.isEmpty then [] else " bind(".toList ++ escape p.bindC ++ [')'])

/-- what the heading must say: the same with the BIND clause as written in the source -/
def procLinePlain (resultCI proto : Bool) (p : Proc) : Str :=
  headText resultCI proto p ++
  (if p.bindC.isEmpty then [] else " bind(".toList ++ p.bindC ++ [')'])

/-! the template facts this model was written for (compared with the regenerated ones in `Props/C18.lean`) -/

/-- the output expressions of the macro with their filters, in source order -/
def modelledSites : List (String × List String) :=
  [("proc.name", []), ("proc.permission", []), ("proc.attribs", ["join"]), ("proc.proctype", ["lower"]),
   ("proc.name", []), ("proc.args", ["join"]), ("proc.retvar.name", []), ("proc.bindC", ["e"])]

def modelledJoins : List (String × String) := [("attribs", " "), ("args", ", ")]

/-- the tests of the `if` statements; `ci`: the RESULT clause test compares the names lower-cased -/
def modelledTests (ci : Bool) : List String :=
  ["proc.mp", "(not proc.parent or (proc.visible and link))", "((proc.parobj eq 'module' or (proc.parobj eq 'interface' and proc.parent.parobj eq 'module')) and not proto)", "(not proc.parent or ((proc.visible and link) and not proc.mp))", if ci then "(proc.proctype|lower eq 'function' and proc.name|lower ne proc.retvar.name|lower)" else "(proc.proctype|lower eq 'function' and proc.name ne proc.retvar.name)", "proc.bindC", "proc.mp", "((proc.module and proc.module ne True) and proc.module.visible)"]

/-- the literal text between the output expressions (`none`: an output expression) -/
def modelledData : List (Option String) :=
  [some "module procedure ", none, some " ", none, none, some " <small>", none, some " ", none, some " ", none, some " ", none, some " ", none, some "(", none, some ")", some " result(", none, some ")", some " bind(", none, some ")", some "</small>", some "  ", none, some "\n", some "    <a href=\"../", none, some "\"><button type=\"button\" class=\"btn btn-info depwarn\">", none, some " &rarr;</button></a>\n"]

end Ford.ProcLine
