/-
  Model of ford/external_project.py (obj2dict / dump_modules / dict2obj /
  load_external_modules), of the local-before-external lookups of
  ford/fortran_project.py (find_used_modules, Project.find) and of the URL
  re-basing (pathlib join for local paths, urljoin for simple relative URLs).

  The tables ATTRIBUTES, ENTITIES, LINK_TYPES, METADATA_NAME and the exception
  classes caught by load_external_modules are *generated* from the source
  (FordModel/Generated/C16.lean).
-/
import FordModel.Basic.Chars
import FordModel.Generated.C16
namespace Ford.Ext
open Ford

/-! ## JSON values (what `json.loads` can return) -/

inductive Json where
  | null
  | bool (b : Bool)
  | num (n : Nat)
  | str (s : Str)
  | arr (xs : List Json)
  | obj (kvs : List (Str × Json))
  deriving Repr, Inhabited

/-- Python truthiness of a decoded JSON value (`if item`, `if extDict["external_url"]`). -/
def truthy : Json → Bool
  | .null => false
  | .bool b => b
  | .num n => n != 0
  | .str s => !s.isEmpty
  | .arr xs => !xs.isEmpty
  | .obj kvs => !kvs.isEmpty

/-! ## The exporting side: FORD's entity objects as `obj2dict` sees them -/

mutual
/-- An item met by `obj2dict`: an object that already has `external_url`
    (exported as `None`), a plain string, or an entity object with the
    attributes `hasattr` can see. -/
inductive Ent where
  | ext
  | text (s : Str)
  | node (name : Str) (url : Option Str) (obj : Str) (proctype : Option Str) (attrs : List (Str × Attr))
/-- The value of one attribute: a list, a dict, or anything else (exported as `str(value)`). -/
inductive Attr where
  | list (xs : List Ent)
  | dict (kvs : List (Str × Ent))
  | scalar (repr : Str)
end

instance : Inhabited Ent := ⟨.ext⟩
instance : Inhabited Attr := ⟨.scalar []⟩

/-- `f"{x}"` of `get_url()`: `None` prints as the text `None`. -/
def urlText : Option Str → Str
  | some u => u
  | none => ['N', 'o', 'n', 'e']

/-- Select from an association list the entries whose key is in `tbl`, in the
    order of `tbl` (`for attrib in ATTRIBUTES: if hasattr(...)` /
    `for key in ATTRIBUTES: if key in extDict`). -/
def orderByTable {α : Type} (tbl : List Str) (xs : List (Str × α)) : List (Str × α) :=
  tbl.filterMap (fun a => (xs.lookup a).map (fun v => (a, v)))

def kName : Str := ['n', 'a', 'm', 'e']
def kUrl : Str := ['e', 'x', 't', 'e', 'r', 'n', 'a', 'l', '_', 'u', 'r', 'l']
def kObj : Str := ['o', 'b', 'j']
def kProctype : Str := ['p', 'r', 'o', 'c', 't', 'y', 'p', 'e']
def kModules : Str := ['m', 'o', 'd', 'u', 'l', 'e', 's']
def kInterface : Str := ['i', 'n', 't', 'e', 'r', 'f', 'a', 'c', 'e']
def kVersion : Str := ['v', 'e', 'r', 's', 'i', 'o', 'n']

def header (name : Str) (url : Option Str) (obj : Str) (pt : Option Str) : List (Str × Json) :=
  [(kName, .str name), (kUrl, .str ('.' :: '/' :: urlText url)), (kObj, .str obj)]
  ++ (match pt with | some p => [(kProctype, .str p)] | none => [])

mutual
/-- `obj2dict` -/
def exportE : Ent → Json
  | .ext => .null
  | .text s => .str s
  | .node name url obj pt attrs =>
    .obj (header name url obj pt ++ orderByTable Gen.attributes (exportAttrs attrs))
def exportAttrs : List (Str × Attr) → List (Str × Json)
  | [] => []
  | (k, a) :: r => (k, exportAttr a) :: exportAttrs r
def exportAttr : Attr → Json
  | .list xs => .arr (exportList xs)
  | .dict kvs => .obj (exportDict kvs)
  | .scalar s => .str s
def exportList : List Ent → List Json
  | [] => []
  | e :: r => exportE e :: exportList r
def exportDict : List (Str × Ent) → List (Str × Json)
  | [] => []
  | (k, e) :: r => (k, exportE e) :: exportDict r
end

/-- `dump_modules`: the content of `modules.json`. -/
def dumpModules (version : Str) (mods : List Ent) : Json :=
  .obj [(Gen.metadataName, .obj [(kVersion, .str version)]), (kModules, .arr (exportList mods))]

/-! ## URL re-basing -/

/-- `s.split("/", 1)[-1]` -/
def afterFirstSlashAux : Str → Option Str
  | [] => none
  | c :: cs => if c == '/' then some cs else afterFirstSlashAux cs

def afterFirstSlash (s : Str) : Str := (afterFirstSlashAux s).getD s

/-- split at every `/` -/
def splitSlash : Str → Str → List Str
  | [], cur => [cur.reverse]
  | c :: cs, cur => if c == '/' then cur.reverse :: splitSlash cs [] else splitSlash cs (c :: cur)

/-- path segments as `pathlib.PurePosixPath` keeps them: empty and `.` segments dropped -/
def segments (s : Str) : List Str :=
  (splitSlash s []).filter (fun x => !x.isEmpty && x != ['.'])

def isAbs (s : Str) : Bool := startsWith s ['/']

/-- `str(PurePosixPath(base) / rel)` for an absolute `base` (the two-leading-slashes
    special case of POSIX is not modelled). -/
def pathJoin (base rel : Str) : Str :=
  let segs := if isAbs rel then segments rel else segments base ++ segments rel
  '/' :: joinSep '/' segs

structure Base where
  remote : Bool
  /-- local: the resolved absolute directory; remote: the URL `load_external_modules` hands to
      `dict2obj`, i.e. the written URL after `normRemote` -/
  url : Str
  deriving Repr

/-! ### Remote locations: `re.match("https?://", url)`, the trailing-slash normalisation, `urljoin` -/

/-- `re.match("https?://", url)`: the matched prefix and what follows it -/
def stripHttp : Str → Option (Str × Str)
  | 'h' :: 't' :: 't' :: 'p' :: ':' :: '/' :: '/' :: r => some (['h', 't', 't', 'p', ':', '/', '/'], r)
  | 'h' :: 't' :: 't' :: 'p' :: 's' :: ':' :: '/' :: '/' :: r => some (['h', 't', 't', 'p', 's', ':', '/', '/'], r)
  | _ => none

def isRemote (u : Str) : Bool := (stripHttp u).isSome

/-- `url[-1] == "/"` -/
def endsWithSlash (u : Str) : Bool := u.getLast? == some '/'

/-- `if url[-1] != "/": url = url + "/"` (the written URL of a remote project is not empty: it
    matched `https?://`) -/
def normRemote (u : Str) : Str := if endsWithSlash u then u else u ++ ['/']

/-- everything up to and including the last `/` (nothing if there is none) -/
def keepDir (s : Str) : Str := (s.reverse.dropWhile (fun c => c != '/')).reverse

/-- The directory part of a hierarchical URL `http(s)://authority[/path]` (no query, no fragment):
    what RFC 3986 merging keeps of the base - the path up to its last `/`; an empty path counts as `/`. -/
def urlDir (base : Str) : Str :=
  match stripHttp base with
  | some (pre, rest) => if rest.contains '/' then pre ++ keepDir rest else base ++ ['/']
  | none => keepDir base

/-- `urljoin(base, rel)` for such a base and a *simple* relative reference (no scheme, no leading `/`,
    no dot segments, no empty segments - what `get_url` produces, and `modules.json`). -/
def urljoinSimple (base rel : Str) : Str := urlDir base ++ rel

def kModulesJson : Str := ['m', 'o', 'd', 'u', 'l', 'e', 's', '.', 'j', 's', 'o', 'n']

/-- the base `load_external_modules` uses for a remote project written as `u` in `external:` -/
def remoteBase (u : Str) : Base := { remote := true, url := normRemote u }

/-- the URL it fetches the description from: `urljoin(url, "modules.json")` after the normalisation -/
def indexUrl (u : Str) : Str := urljoinSimple (normRemote u) kModulesJson

/-- `url / rel` (local) or `urljoin(url, rel)` (remote; modelled for *simple*
    relative references only: no scheme, no leading `/`, no dot segments). -/
def rebase (b : Base) (rel : Str) : Str :=
  if b.remote then urljoinSimple b.url rel else pathJoin b.url rel

/-! ## The importing side -/

inductive XErr where
  | keyError | typeError | attrError
  deriving DecidableEq, Repr

mutual
/-- What `dict2obj` returns. -/
inductive XObj where
  | text (s : Str)
  | node (cls : Str) (name : Json) (url : Json) (parent : Option Json) (proctype : Option Json)
         (attrs : List (Str × XAttr))
inductive XAttr where
  | list (xs : List XObj)
  | dict (kvs : List (Str × XObj))
  | scalar (v : Json)
end

instance : Inhabited XObj := ⟨.text []⟩

/-- all `ok`, in order, or the first error -/
def sequencePairs {α : Type} : List (Str × Except XErr α) → Except XErr (List (Str × α))
  | [] => .ok []
  | (k, .ok v) :: r =>
    match sequencePairs r with
    | .ok vs => .ok ((k, v) :: vs)
    | .error e => .error e
  | (_, .error e) :: _ => .error e

def lowerJson : Json → Except XErr Str
  | .str s => .ok (lower s)
  | _ => .error .attrError

/-- The non-recursive part of `dict2obj` for a dict: key look-ups, URL re-basing, ENTITIES
    look-up, in the order the Python evaluates them; `attrs` is the outcome of converting the
    ATTRIBUTES children (evaluated last). -/
def buildNode (b : Base) (parent : Option Json) (kvs : List (Str × Json))
    (attrs : Except XErr (List (Str × XAttr))) : Except XErr XObj :=
  match kvs.lookup kName with
  | none => .error .keyError
  | some name =>
  match kvs.lookup kUrl with
  | none => .error .keyError
  | some eu =>
  match (if truthy eu then
           (match eu with
            | .str s => Except.ok (Json.str (rebase b (afterFirstSlash s)))
            | _ => Except.error XErr.attrError)
         else Except.ok eu) with
  | .error e => .error e
  | .ok url =>
  match kvs.lookup kObj with
  | none => .error .keyError
  | some objv =>
  match lowerJson ((kvs.lookup kProctype).getD objv) with
  | .error e => .error e
  | .ok cls =>
  match Gen.entities.lookup cls with
  | none => .error .keyError
  | some _ =>
  match (if cls == kInterface then
           (match kvs.lookup kProctype with
            | some p => Except.ok (some p)
            | none => Except.error XErr.keyError)
         else Except.ok none) with
  | .error e => .error e
  | .ok pt =>
  match attrs with
  | .error e => .error e
  | .ok attrs => .ok (.node cls name url parent pt attrs)

mutual
/-- `dict2obj(project, extDict, url, parent, remote)`; the appends to the
    project lists are read off the result by `entriesOf`.  The children's parent is the
    object being built, identified here by its name. -/
def dict2obj (b : Base) (parent : Option Json) : Json → Except XErr XObj
  | .str s => .ok (.text s)
  | .obj kvs =>
    buildNode b parent kvs
      (sequencePairs (orderByTable Gen.attributes (importPairs b (kvs.lookup kName) kvs)))
  | .arr _ => .error .typeError
  | .null => .error .typeError
  | .bool _ => .error .typeError
  | .num _ => .error .typeError
def importPairs (b : Base) (parent : Option Json) : List (Str × Json) → List (Str × Except XErr XAttr)
  | [] => []
  | (k, v) :: r => (k, importAttr b parent v) :: importPairs b parent r
def importAttr (b : Base) (parent : Option Json) : Json → Except XErr XAttr
  | .arr xs =>
    match importList b parent xs with
    | .ok os => .ok (.list os)
    | .error e => .error e
  | .obj kvs =>
    match importDict b parent kvs with
    | .ok os => .ok (.dict os)
    | .error e => .error e
  | .null => .ok (.scalar .null)
  | .bool x => .ok (.scalar (.bool x))
  | .num n => .ok (.scalar (.num n))
  | .str s => .ok (.scalar (.str s))
def importList (b : Base) (parent : Option Json) : List Json → Except XErr (List XObj)
  | [] => .ok []
  | x :: r =>
    if truthy x then
      match dict2obj b parent x with
      | .error e => .error e
      | .ok o =>
        match importList b parent r with
        | .error e => .error e
        | .ok os => .ok (o :: os)
    else importList b parent r
def importDict (b : Base) (parent : Option Json) : List (Str × Json) → Except XErr (List (Str × XObj))
  | [] => .ok []
  | (k, x) :: r =>
    if truthy x then
      match dict2obj b parent x with
      | .error e => .error e
      | .ok o =>
        match importDict b parent r with
        | .error e => .error e
        | .ok os => .ok ((k, o) :: os)
    else importDict b parent r
end

/-- One `project_list.append(extObj)`. -/
structure Entry where
  list : Str
  cls : Str
  name : Json
  url : Json
  parent : Option Json
  deriving Repr

mutual
/-- The appends to the project's `ext*` lists, in the order they happen
    (an object before its children, children in ATTRIBUTES order). -/
def entriesOf : XObj → List Entry
  | .text _ => []
  | .node cls name url parent _ attrs =>
    { list := ((Gen.entities.lookup cls).map (·.1)).getD [], cls := cls, name := name, url := url, parent := parent }
      :: entriesAttrs attrs
def entriesAttrs : List (Str × XAttr) → List Entry
  | [] => []
  | (_, a) :: r => entriesAttr a ++ entriesAttrs r
def entriesAttr : XAttr → List Entry
  | .list xs => entriesList xs
  | .dict kvs => entriesDict kvs
  | .scalar _ => []
def entriesList : List XObj → List Entry
  | [] => []
  | o :: r => entriesOf o ++ entriesList r
def entriesDict : List (Str × XObj) → List Entry
  | [] => []
  | (_, o) :: r => entriesOf o ++ entriesDict r
end

/-- `for extModule in extModules: dict2obj(project, extModule, url, remote=remote)`
    for a list (no truthiness filter at the top level). -/
def importTop (b : Base) : List Json → Except XErr (List XObj)
  | [] => .ok []
  | x :: r =>
    match dict2obj b none x with
    | .error e => .error e
    | .ok o =>
      match importTop b r with
      | .error e => .error e
      | .ok os => .ok (o :: os)

def hasStrElem (k : Str) : List Json → Bool
  | [] => false
  | .str s :: r => s == k || hasStrElem k r
  | _ :: r => hasStrElem k r

/-- is `needle` a substring of `s` (Python `needle in s`) -/
def isInfix (needle : Str) : Str → Bool
  | [] => needle.isEmpty
  | c :: cs => startsWith (c :: cs) needle || isInfix needle cs

/-- The part of `load_external_modules` after a successful fetch:
    `if METADATA_NAME in extModules: extModules = extModules["modules"]`, then the loop. -/
def importDoc (b : Base) (doc : Json) : Except XErr (List XObj) :=
  let step2 : Json → Except XErr (List XObj) := fun
    | .arr xs => importTop b xs
    | .obj kvs => importTop b (kvs.map (fun kv => Json.str kv.1))  -- iterating a dict yields its keys
    | .str s => importTop b (s.map (fun c => Json.str [c]))
    | _ => .error .typeError                                         -- not iterable
  match doc with
  | .obj kvs =>
    if (kvs.lookup Gen.metadataName).isSome then
      match kvs.lookup kModules with
      | some m => step2 m
      | none => .error .keyError
    else step2 doc
  | .arr xs => if hasStrElem Gen.metadataName xs then .error .typeError else step2 doc
  | .str s => if isInfix Gen.metadataName s then .error .typeError else step2 doc
  | _ => .error .typeError

def entriesAll : List XObj → List Entry
  | [] => []
  | o :: r => entriesOf o ++ entriesAll r

/-! ## Fetching the description -/

inductive Fetch where
  /-- the fetch / decode raised the exception class with this name -/
  | failed (exc : Str)
  | got (doc : Json)

inductive LoadResult where
  | loaded (objs : List XObj)
  /-- the run is aborted by an exception of this kind -/
  | aborted (why : Str)

def catches (exc : Str) : Bool := (Gen.fetchErrors.lookup exc).getD false

def xerrName : XErr → Str
  | .keyError => "KeyError".toList
  | .typeError => "TypeError".toList
  | .attrError => "AttributeError".toList

/-- `load_external_modules` for one external project. -/
def load (b : Base) : Fetch → LoadResult
  | .failed exc => if catches exc then .loaded [] else .aborted exc
  | .got doc =>
    match importDoc b doc with
    | .ok os => .loaded os
    | .error e => .aborted (xerrName e)

/-! ## Several external projects: the loop of `load_external_modules` -/

/-- How the `except` handler that catches a failed fetch ends (read from the source by the translator,
    `Gen.handlerExits`): it falls through to the rest of the loop body with the description reset to an
    empty container, it goes on with the next project (`continue`), it ends the loop (`break`, `return`:
    nothing follows the loop), or it re-raises. -/
inductive Flow where
  | proceed | next | stop | reraise
  deriving DecidableEq, Repr

def flowOfText (s : Str) : Flow :=
  if s == ['c', 'o', 'n', 't', 'i', 'n', 'u', 'e'] then .next
  else if s == ['b', 'r', 'e', 'a', 'k'] then .stop
  else if s == ['r', 'e', 't', 'u', 'r', 'n'] then .stop
  else if s == ['r', 'a', 'i', 's', 'e'] then .reraise
  else .proceed

/-- the way the handler catching `exc` ends -/
def handlerFlow (exc : Str) : Flow := flowOfText ((Gen.handlerExits.lookup exc).getD [])

/-- `for url in project.external.values(): try: <fetch> except ...: <handler>; <convert>` with `flow` saying
    how the handler ends for each caught way of failing: `acc` holds the objects appended to the project's
    lists so far (all external projects share the lists), the remaining projects are (location, outcome of
    the fetch) in the order of the `external:` option.  An exception that escapes - from an uncaught fetch
    failure or out of `dict2obj` - ends the whole run. -/
def loadAllWith (flow : Str → Flow) : List (Base × Fetch) → List XObj → LoadResult
  | [], acc => .loaded acc
  | (b, .got doc) :: r, acc =>
    match importDoc b doc with
    | .ok os => loadAllWith flow r (acc ++ os)
    | .error e => .aborted (xerrName e)
  | (b, .failed exc) :: r, acc =>
    if catches exc then
      match flow exc with
      | .proceed =>
        -- `extModules = []`, then the rest of the body: nothing to convert
        match importDoc b (.arr []) with
        | .ok os => loadAllWith flow r (acc ++ os)
        | .error e => .aborted (xerrName e)
      | .next => loadAllWith flow r acc
      | .stop => .loaded acc
      | .reraise => .aborted exc
    else .aborted exc

/-- `load_external_modules(project)` as the code is. -/
def loadAll (ps : List (Base × Fetch)) : LoadResult := loadAllWith handlerFlow ps []

/-! ## Local before external -/

/-- A documented thing with a name; `ext` says whether it came from an external project. -/
structure Named where
  name : Str
  ext : Bool
  deriving Repr, DecidableEq

/-- `_find_in_list` / the candidate loop of `find_used_modules`: first item whose
    lower-cased name equals the lower-cased name sought. -/
def findIn (name : Str) : List Named → Option Named
  | [] => none
  | x :: r => if lower x.name == lower name then some x else findIn name r

/-- `for candidate in chain(modules, external_modules)` -/
def resolveUse (name : Str) (modules extModules : List Named) : Option Named :=
  findIn name (modules ++ extModules)

/-- The project's collections by attribute name. -/
abbrev Colls := List (Str × List Named)

def collection (p : Colls) (c : Str) : List Named := (p.lookup c).getD []

/-- `Project.find(name, entity)` (top-level part): `none` = `ValueError` (unknown
    entity class), `some r` = the result. -/
def projectFind (p : Colls) (name : Str) : Option Str → Option (Option Named)
  | some entity =>
    match Gen.linkTypes.lookup (lower entity) with
    | some c => some (findIn name (collection p c))
    | none => none
  | none => some (findIn name ((Gen.linkTypes.map (fun kv => collection p kv.2)).flatten))

end Ford.Ext
