/-
  Model of `FortranCodeUnit._find_chain_item` (ford/sourceform.py) for call chains of ANY length,
  and of the loop of `correlate` that replaces every recorded chain by what it designates
  (property C08: "array elements and other variables ... are never recorded as calls", "resolved
  as in C07"):

  * `get_label_item(context, label)` - the name tables of the context are merged in a fixed order,
    the later wins (`Generated.C08.labelOrder`, probed on the real method).  The context is the
    unit itself for the first label of the chain (`rootItem`: the scope model of CallsScope.lean
    says what kind of entity a name is; which type a variable has and which type a function
    returns are given as tables) and a derived type for every later label (`typeItem`: the
    procedures visible from the type's scope - a `FortranType` has `all_procs` -, its bindings
    *after the type's own correlate*, i.e. inherited ones included, the visible types, the
    `extends` chain, its components, inherited ones included),
  * the step to the next context (`nextCtx`): a function -> the type of its result variable
    (`strip_type(item.retvar.full_type)` looked up in `all_types`), a derived type -> itself, a
    variable -> its type, anything else (subroutine, binding, unknown label) -> the walk gives up,
  * `correlate`: a chain that designates nothing stays as its LAST label (a bare name), a chain
    that designates a variable or a type is dropped, anything else is kept as the item.

  Not modelled: `strip_type` itself (the tables carry the type name as `strip_type` returns it; the
  harness derives it from the generated declaration, not from FORD), scopes that see different type
  tables (the generated file has one module of types that every unit sees).
-/
import FordModel.Calls
import FordModel.CallsScope
namespace Ford.Calls.Chain
open Ford Ford.Calls

/-- what `get_label_item` returns -/
inductive Item
  /-- a procedure / interface of the scope; `ret` = the type name of its result variable when the
      object has a `retvar` (a function) -/
  | proc (n : Str) (ret : Option Str)
  /-- a binding `n`, declared by type `owner` -/
  | bound (owner n : Str)
  | type (n : Str)
  /-- a variable / component of type `ty` (`strip_type(full_type)`) -/
  | var (n : Str) (ty : Str)
  deriving DecidableEq, Repr

/-- a derived type after its own `correlate` -/
structure TypeDef where
  name : Str
  /-- `boundprocs`: binding name -> the type that declares it -/
  bound : List (Str × Str) := []
  /-- `variables`: component name -> type name -/
  comps : List (Str × Str) := []
  /-- the `extends` chain, nearest first -/
  parents : List Str := []
  deriving Repr

structure World where
  /-- `all_types` -/
  types : List TypeDef := []
  /-- `all_procs` of the scope the types live in: name -> type name of the result variable -/
  procs : List (Str × Option Str) := []
  deriving Repr

def assoc {α : Type} (l : List (Str × α)) (k : Str) : Option α := (l.find? (fun p => p.1 == k)).map (·.2)

def findType (w : World) (n : Str) : Option TypeDef := w.types.find? (fun t => t.name == n)

/-- one table of a derived type, by the name the source gives it -/
def typeLayer (w : World) (t : TypeDef) (l : Str) (layer : String) : Option Item :=
  if layer == "all_procs" then (assoc w.procs l).map (fun r => .proc l r)
  else if layer == "boundprocs" then (assoc t.bound l).map (fun o => .bound o l)
  else if layer == "all_types" then (findType w l).map (fun _ => .type l)
  else if layer == "extends" then (if t.parents.contains l then some (.type l) else none)
  else if layer == "variables" then (assoc t.comps l).map (fun ty => .var l ty)
  else none

/-- `get_label_item(<derived type>, l)`: the last table (in merge order) that holds the label decides -/
def typeItem (order : List String) (w : World) (t : TypeDef) (l : Str) : Option Item :=
  order.foldl (fun acc layer => match typeLayer w t l layer with | some i => some i | none => acc) none

/-- `get_label_item(self, l)` for the unit: the kind of entity comes from the scope model -/
def rootItem (order : List String) (tab : String → List Str) (vtypes : List (Str × Str))
    (fnret : List (Str × Option Str)) (l : Str) : Option Item :=
  match Scope.lookupKind order tab l with
  | .proc => some (.proc l ((assoc fnret l).getD none))
  | .type => some (.type l)
  | .var => some (.var l ((assoc vtypes l).getD []))
  | .unknown => none

/-- the context an item leads to -/
def nextCtx (w : World) : Item → Option TypeDef
  | .proc _ (some r) => findType w r
  | .proc _ none => none
  | .bound _ _ => none
  | .type n => findType w n
  | .var _ ty => findType w ty

/-- the walk below the first label -/
def walk (order : List String) (w : World) : TypeDef → Chain → Option Item
  | _, [] => none
  | t, [l] => typeItem order w t l
  | t, l :: l2 :: rest =>
    match typeItem order w t l with
    | none => none
    | some it =>
      match nextCtx w it with
      | none => none
      | some t' => walk order w t' (l2 :: rest)

/-- `_find_chain_item(chain)` -/
def findChain (order : List String) (w : World) (root : Str → Option Item) : Chain → Option Item
  | [] => none
  | [l] => root l
  | l :: l2 :: rest =>
    match root l with
    | none => none
    | some it =>
      match nextCtx w it with
      | none => none
      | some t => walk order w t (l2 :: rest)

/-- `isinstance(item, (<removed classes>))` -/
def itemRemoved (removed : List String) : Item → Bool
  | .var _ _ => Scope.isRemoved removed .var
  | .type _ => Scope.isRemoved removed .type
  | .proc _ _ => Scope.isRemoved removed .proc
  | .bound _ _ => removed.contains "FortranBoundProcedure" || removed.contains "FortranBase"

/-- what stays in `calls` for one chain -/
inductive Kept
  | name (n : Str)
  | item (i : Item)
  deriving DecidableEq, Repr

/-- one iteration of the calls loop of `correlate` -/
def keepChain (order removed : List String) (w : World) (root : Str → Option Item) (ch : Chain) : Option Kept :=
  match findChain order w root ch with
  | none => some (.name (lastOf ch))
  | some it => if itemRemoved removed it then none else some (.item it)

/-- `unit.calls` after `correlate` -/
def keptChains (order removed : List String) (w : World) (root : Str → Option Item) (calls : List Chain) : List Kept :=
  calls.filterMap (keepChain order removed w root)

def showItem : Item → Str
  | .proc n _ => 'p' :: ':' :: n
  | .bound o n => 'b' :: ':' :: (o ++ ':' :: n)
  | .type n => 't' :: ':' :: n
  | .var n ty => 'v' :: ':' :: (n ++ ':' :: ty)

def showKept : Kept → Str
  | .name n => 'n' :: ':' :: n
  | .item i => showItem i

end Ford.Calls.Chain
