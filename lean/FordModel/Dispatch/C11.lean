import FordModel.Proto
import FordModel.Links
import FordModel.LinkSyntax
import FordModel.LinkWarn
import FordModel.InlineOrder
namespace Ford
open Proto Links

namespace C11D

def splitOn (sep : Char) (s : Str) : List Str :=
  let rec go : Str → Str → List Str
    | [], cur => [cur.reverse]
    | c :: cs, cur => if c == sep then cur.reverse :: go cs [] else go cs (c :: cur)
  go s []

def optNat (s : Str) : Option Nat := if s.isEmpty then none else some (natOf s)
def optStr (s : Str) : Option Str := if s.isEmpty then none else some s

def itemOf (s : Str) : Item := if s == ['x'] then .other else .ent (natOf s)

def itemsOf (l : List Str) : List Item := (l.filter (fun s => !s.isEmpty)).map itemOf

def ancOf (s : Str) : Anc :=
  match splitOn ',' s with
  | [c, o, i, u, p] => { cls := String.ofList c, obj := o, ident := i, unnamed := u == ['1'], ifaceProc := p == ['1'] }
  | _ => default

def attrOf (s : Str) : String × AttrVal :=
  match splitOn ',' s with
  | a :: k :: rest =>
    (String.ofList a,
     if k == ['m'] then .many (itemsOf rest)
     else if k == ['o'] then .one (natOf (rest.headD []))
     else if k == ['n'] then .noneVal else .otherVal)
  | _ => ("", .noneVal)

def nonEmpty (l : List Str) : List Str := l.filter (fun s => !s.isEmpty)

def entOf (fs : List Str) : Ent :=
  match fs with
  | [name, parent, ext, url, chain, attrs] =>
    { name := name, parent := optNat parent, extUrl := if ext == ['1'] then some url else none,
      chain := (nonEmpty (splitOn ';' chain)).map ancOf,
      attrs := (nonEmpty (splitOn ';' attrs)).map attrOf }
  | [name, parent, ext, url, chain, attrs, filename] =>
    { name := name, parent := optNat parent, extUrl := if ext == ['1'] then some url else none,
      chain := (nonEmpty (splitOn ';' chain)).map ancOf,
      attrs := (nonEmpty (splitOn ';' attrs)).map attrOf, filename := filename }
  | _ => default

def pathOf (s : Str) : Path := nonEmpty (splitOn '/' s)

/-- a path as Python sees it: absolute when it starts with `/`, else relative to the working directory -/
def absOf (cwd : Path) (s : Str) : Path := absolutize cwd (s.head? == some '/') (pathOf s)

structure Query where
  ctx : Option Nat
  path : Option Path
  ref : Ref
  text : Option Str := none   -- round 3: a whole documentation text (`T` lines); the model tokenizes it
  pieces : Option (List Piece) := none   -- round 6: a text cut at its code spans (`C` lines)

def queryOf (cwd : Path) (fs : List Str) : Query :=
  match fs with
  | [ctx, path, name, kind, child, ckind] =>
    { ctx := optNat ctx, path := if path == ['-'] then none else some (absOf cwd path),
      ref := { name := name, kind := optStr kind, child := optStr child, childKind := optStr ckind } }
  | _ => { ctx := none, path := none, ref := { name := [] } }

def errName : Err → Str
  | .unknownEntity => "unknown-entity".toList
  | .cannotHaveChild => "cannot-have-child".toList
  | .notIterable => "not-iterable".toList
  | .noUrl => "no-url".toList

def showTarget (P : Project) (q : Query) : Str :=
  match lookup P q.ctx q.ref with
  | .ok (some id) => showNat id
  | _ => []

/-- round 6: the messages handed to `warn` during the conversion, after the marker `#W` -/
def showWarns (env : Env) (P : Project) (q : Query) (ws : List Warn) : Str :=
  joinSep '|' ("#W".toList :: ws.map (Warn.message env P q.ctx q.path))

def answerRef (env : Env) (P : Project) (q : Query) : Str :=
  let (o, ws) := convertLinkW env P q.ctx q.path q.ref
  (match o with
   | .link t h => joinSep '|' ["L".toList, t, h, showTarget P q]
   | .text t => joinSep '|' ["T".toList, t]
   | .err e => joinSep '|' ["X".toList, errName e]) ++ '|' :: showWarns env P q ws

/-- `T|ctx|path|text` -/
def textQueryOf (cwd : Path) (fs : List Str) : Query :=
  match fs with
  | ctx :: path :: t :: more =>
    { ctx := optNat ctx, path := if path == ['-'] then none else some (absOf cwd path),
      ref := { name := [] }, text := some (joinSep '|' (t :: more)) }
  | _ => { ctx := none, path := none, ref := { name := [] }, text := some [] }

def showSeg : OutSeg → Str
  | .plain s => 'P' :: s
  | .link t h => 'L' :: t ++ ';' :: h
  | .text t => 'T' :: t

/-- answer to a `T` query: `S|seg|seg|...` or `X|error` -/
def answerText (env : Env) (P : Project) (q : Query) (t : Str) : Str :=
  let (o, ws) := convertTextW linkCfg env P q.ctx q.path t
  (match o with
   | .ok segs => joinSep '|' (['S'] :: segs.map showSeg)
   | .error e => joinSep '|' [['X'], errName e]) ++ '|' :: showWarns env P q ws

/-- `C|ctx|path|c<code span content>|p<running text>|...` -/
def pieceOf : Str → Piece
  | 'c' :: t => .code t
  | _ :: t => .plain t
  | [] => .plain []

def pieceQueryOf (cwd : Path) (fs : List Str) : Query :=
  match fs with
  | ctx :: path :: ps =>
    { ctx := optNat ctx, path := if path == ['-'] then none else some (absOf cwd path),
      ref := { name := [] }, pieces := some (ps.map pieceOf) }
  | _ => { ctx := none, path := none, ref := { name := [] }, pieces := some [] }

def showOutPiece : OutPiece → List Str
  | .code s => ['C' :: s]
  | .codeSegs l => ['K'] :: l.map showSeg
  | .segs l => l.map showSeg

/-- answer to a `C` query: the flattened pieces `S|Ccode|Pplain|Ltext;href|...` or `X|error`, then the warnings -/
def answerPieces (env : Env) (P : Project) (q : Query) (ps : List Piece) : Str :=
  (match convertPieces codeShielded linkCfg env P q.ctx q.path ps with
   | .ok out => joinSep '|' (['S'] :: out.flatMap showOutPiece)
   | .error e => joinSep '|' [['X'], errName e]) ++
    '|' :: showWarns env P q (warnPieces codeShielded linkCfg env P q.ctx q.path ps)

def showRef (r : Ref) : Str :=
  joinSep ';' [r.name, (r.kind.map (fun k => '+' :: k)).getD [], (r.child.map (fun k => '+' :: k)).getD [],
               (r.childKind.map (fun k => '+' :: k)).getD []]

def showRawSeg : Seg → Str
  | .plain s => 'P' :: s
  | .ref r => 'R' :: showRef r

/-- a `Q` query: the reference is written out and read back by the tokenizer, as the implementation
    is handed the written text; `V` = not recognised, the text stays verbatim -/
def answer (env : Env) (P : Project) (q : Query) : Str :=
  match q.pieces, q.text with
  | some ps, _ => answerPieces env P q ps
  | none, some t => answerText env P q t
  | none, none =>
    match segments linkCfg q.ref.render with
    | [.ref r] => answerRef env P { q with ref := r }
    | _ => "V|#W".toList

structure Acc where
  ents : List Ent := []
  lists : List (String × List Item) := []
  queries : List Query := []

def feed (cwd : Path) (a : Acc) (f : Str) : Acc :=
  match splitOn '|' f with
  | t :: rest =>
    if t == ['E'] then { a with ents := entOf rest :: a.ents }
    else if t == ['L'] then
      match rest with
      | [attr, items] => { a with lists := (String.ofList attr, itemsOf (splitOn ',' items)) :: a.lists }
      | _ => a
    else if t == ['Q'] then { a with queries := queryOf cwd rest :: a.queries }
    else if t == ['T'] then { a with queries := textQueryOf cwd rest :: a.queries }
    else if t == ['C'] then { a with queries := pieceQueryOf cwd rest :: a.queries }
    else a
  | [] => a

end C11D

open C11D in
def dispatchC11 : List Str → Option (List Str)
  | cmd :: args =>
    if cmd == "c11.conv".toList then
      match args with
      | base :: cwd :: rest =>
        let a := rest.foldl (feed (pathOf cwd)) {}
        let P : Project := { ents := a.ents.reverse, lists := a.lists.reverse }
        let env : Env := { base := absOf (pathOf cwd) base, cwd := pathOf cwd }
        some ("ok".toList :: a.queries.reverse.map (answer env P))
      | _ => some ["bad-request".toList]
    else if cmd == "c11.relpath".toList then
      match args with
      | [t, s] => some ["ok".toList, joinSep '/' (relpath (pathOf t) (pathOf s))]
      | _ => some ["bad-request".toList]
    else if cmd == "c11.isword".toList then
      -- the character class `\w` of the model for the code points lo .. hi-1, as a string of 0/1
      match args with
      | [lo, hi] =>
        some ["ok".toList, ((List.range (natOf hi - natOf lo)).map fun i =>
          if isWordU (Char.ofNat (natOf lo + i)) then '1' else '0')]
      | _ => some ["bad-request".toList]
    else if cmd == "c11.segments".toList then
      -- the tokenizer alone: every argument is a text, the answer its pieces
      some ("ok".toList :: args.map fun t => joinSep '|' (['S'] :: (segments linkCfg t).map showRawSeg))
    else if cmd == "c11.render".toList then
      match args with
      | [name, kind, child, ckind] =>
        some ["ok".toList, Ref.render { name := name, kind := optStr kind, child := optStr child, childKind := optStr ckind }]
      | _ => some ["bad-request".toList]
    else none
  | [] => none

end Ford
