import FordModel.Proto
import FordModel.Display
import FordModel.DisplayLinks
namespace Ford
open Proto Display

namespace C05D

def splitOn (sep : Char) (s : Str) : List Str :=
  let rec go : Str → Str → List Str
    | [], cur => [cur.reverse]
    | c :: cs, cur => if c == sep then cur.reverse :: go cs [] else go cs (c :: cur)
  go s []

def wordOf (s : Str) : Word :=
  match String.ofList s with
  | "pub" => .pub | "prot" => .prot | "priv" => .priv | "none" => .none | _ => .other

/-- `-` or `0` = empty list, otherwise `+`-separated word codes -/
def wordsOf (s : Str) : List Word :=
  if s == ['-'] || s == ['0'] || s == [] then [] else (splitOn '+' s).map wordOf

def kindOf (s : Str) : Kind :=
  match String.ofList s with
  | "file" => .file | "module" => .module | "submodule" => .submodule | "program" => .program
  | "blockdata" => .blockdata | "subroutine" => .subroutine | "function" => .function
  | "modproc" => .modproc | "type" => .type | "variable" => .variable | "component" => .variable
  | "enumerator" => .variable | "boundproc" => .boundproc | "finalproc" => .finalproc
  | "generic" => .generic | "iface" => .iface | "absint" => .absint | "enum" => .enum
  | "common" => .common | "namelist" => .namelist | "retvar" => .retvar | _ => .arg

def natsOf (s : Str) : List Nat :=
  if s == [] then [] else (splitOn ';' s).map natOf

/-- one preorder node: `id,kind,perm,doc,disp,pint,nchildren,refs,ext`; `visible` as the constructor
    of the class leaves it -/
def nodeOf (s : Str) : Info × Nat :=
  match splitOn ',' s with
  | [id, k, p, d, disp, pint, n, refs, ext] =>
    ({ id := natOf id, kind := kindOf k, perm := wordOf p, doc := d == ['1'], disp := wordsOf disp,
       pint := if pint == ['1'] then some true else if pint == ['0'] then some false else none,
       refs := natsOf refs, visible := initVisible (kindOf k),
       ext := if ext == ['-'] || ext == [] then none else some (natOf ext) }, natOf n)
  | _ => (default, 0)

mutual
def parseEnt : Nat → List (Info × Nat) → Option (Ent × List (Info × Nat))
  | 0, _ => none
  | _, [] => none
  | fuel + 1, (i, n) :: rest =>
    match parseKids fuel n rest with
    | some (cs, rest') => some (.mk i cs, rest')
    | none => none
def parseKids : Nat → Nat → List (Info × Nat) → Option (Ents × List (Info × Nat))
  | _, 0, rest => some (.nil, rest)
  | 0, _ + 1, _ => none
  | fuel + 1, n + 1, rest =>
    match parseEnt fuel rest with
    | some (e, rest') =>
      match parseKids fuel n rest' with
      | some (es, rest'') => some (.cons e es, rest'')
      | none => none
    | none => none
end

def entsToList : Ents → List Ent
  | .nil => []
  | .cons e r => e :: entsToList r

def showIds (ns : List Nat) : Str :=
  joinSep ',' (ns.map showNat)

/-- `a:b;a:b` -> association list (`-` = empty) -/
def pairsOf (s : Str) : List (Nat × Str) :=
  if s == ['-'] || s == [] then [] else
    (splitOn ';' s).filterMap fun f => match splitOn ':' f with
      | [a, b] => some (natOf a, b)
      | _ => none

def lookupNat (xs : List (Nat × Nat)) (i : Nat) : Nat :=
  match xs.lookup i with
  | some v => v
  | none => i

def lookupList (xs : List (Nat × List Nat)) (i : Nat) : List Nat :=
  match xs.lookup i with
  | some v => v
  | none => []

def showLink (l : Link) : Str :=
  match l.hit with
  | some h => joinSep ':' [showNat l.ctx, showNat l.name, showNat h.target, showNat h.page, if h.viaRef then ['1'] else ['0']]
  | none => joinSep ':' [showNat l.ctx, showNat l.name, ['-']]

end C05D

open C05D in
def dispatchC05 : List Str → Option (List Str)
  | cmd :: args =>
    if cmd == "c05.prune".toList then
      -- c05.prune <variant asis|repaired> <display> <proc_internals> <hide_undoc> <nfiles> node*
      match args with
      | v :: disp :: pint :: hu :: nf :: nodes =>
        let cfg : Cfg := { display := wordsOf disp, procInternals := pint == ['1'], hideUndoc := hu == ['1'],
                           fileInherits := v == "repaired".toList }
        let toks := nodes.map nodeOf
        match parseKids (2 * toks.length + 2) (natOf nf) toks with
        | some (fs, []) =>
          -- the tree as `correlate` leaves it: extending types carry the members they inherit
          let p := inheritProject (entsToList fs) toks.length
          let q := pruneProject cfg p
          some ["ok".toList, showIds (idsOf q), showIds (visibleIdsOf q), showIds (sitePageIds cfg p), showIds (shownIds cfg p),
                joinSep ';' ((pagesShown cfg p).map fun (pg, ids) => showNat pg ++ [':'] ++ joinSep '.' (ids.map showNat)),
                -- binding names that are links in type summaries: `type.binding.declaringType`, as the macro is
                -- (guarded) and without its test of the declaring type
                joinSep ';' ((bindLinksOf true (entsToList fs) q q).map fun (t, b, d) =>
                  joinSep '.' [showNat t, showNat b, showNat d]),
                joinSep ';' ((bindLinksOf false (entsToList fs) q q).map fun (t, b, d) =>
                  joinSep '.' [showNat t, showNat b, showNat d]),
                -- graph nodes (of every entity, removed ones included) that carry a URL: `entity.page`
                joinSep ';' ((nodeUrlsOf (entsToList fs) q p).map fun (x, pg) => joinSep '.' [showNat x, showNat pg])]
        | _ => some ["bad-tree".toList]
      | _ => some ["bad-request".toList]
    else if cmd == "c05.links".toList then
      -- c05.links <variant> <checksPage 0|1> <display> <proc_internals> <hide_undoc> <nfiles> <aliases id:code;..> <links ctx:n.n;..> node*
      match args with
      | v :: chk :: disp :: pint :: hu :: nf :: al :: lks :: nodes =>
        let cfg : Cfg := { display := wordsOf disp, procInternals := pint == ['1'], hideUndoc := hu == ['1'],
                           fileInherits := v == "repaired".toList }
        let toks := nodes.map nodeOf
        match parseKids (2 * toks.length + 2) (natOf nf) toks with
        | some (fs, []) =>
          let p := inheritProject (entsToList fs) toks.length
          let q := pruneProject cfg p
          let aliases := (pairsOf al).map fun (a, b) => (a, natOf b)
          let links := (pairsOf lks).map fun (a, b) => (a, (splitOn '.' b).map natOf)
          let E : LinkEnv := { nm := lookupNat aliases, lk := lookupList links, orig := p, checksPage := chk == ['1'] }
          some ["ok".toList, joinSep ',' ((linksOf E q).map showLink), showIds (pageIds q)]
        | _ => some ["bad-tree".toList]
      | _ => some ["bad-request".toList]
    else if cmd == "c05.setdisplay".toList then
      -- c05.setdisplay <isFile> <parent display> <meta display>
      match args with
      | [f, par, md] =>
        let r := setDisplay (f == ['1']) (wordsOf par) (wordsOf md)
        some ["ok".toList, joinSep '+' (r.map fun w => match w with
          | .pub => "pub".toList | .prot => "prot".toList | .priv => "priv".toList
          | .none => "none".toList | .other => "other".toList)]
      | _ => some ["bad-request".toList]
    else none
  | [] => none

end Ford
