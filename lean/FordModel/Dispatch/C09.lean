import FordModel.Proto
import FordModel.Path
import FordModel.Nav
import FordModel.Url
import FordModel.StrLink
import FordModel.ReadMore
import FordModel.Relurl
import FordModel.Generated.C09
namespace Ford
open Proto Ford.Path Ford.Nav Ford.Url Ford.StrLink Ford.ReadMore Ford.Relurl Ford.Generated.C09

namespace C09D

def s (x : String) : Str := x.toList

/-- split `k=v` -/
def splitEq (f : Str) : Str × Str :=
  let rec go : Str → Str → Str × Str
    | [], acc => (acc.reverse, [])
    | c :: cs, acc => if c = '=' then (acc.reverse, cs) else go cs (c :: acc)
  go f []

/-- fields `c:<list>=<n>` and `o:<opt>=<0|1>` -/
def shapeOf (fs : List Str) : Shape :=
  let cs := fs.filterMap fun f => match f with
    | 'c' :: ':' :: r => let (k, v) := splitEq r; some (k, natOf v)
    | _ => none
  let os := fs.filterMap fun f => match f with
    | 'o' :: ':' :: r => let (k, v) := splitEq r; some (k, v == ['1'])
    | _ => none
  { count := fun l => (Url.lookup l cs).getD 0, opt := fun o => (Url.lookup o os).getD false }

def targetStr : Target → Str
  | .list p => s "list:" ++ p
  | .first l => s "first:" ++ l

def nodesOf : List Str → List Node
  | c :: o :: i :: n :: g :: r => ⟨c, o, i, n == ['1'], g == ['1']⟩ :: nodesOf r
  | _ => []

def absSegs (p : Str) : List Seg := splitSlash p

/-- segments of an absolute path as `pathlib` keeps them (no empty ones) -/
def segsOf (p : Str) : List Seg := (splitSlash p).filter fun x => x != []

/-- `[flag, text]` -> optional string -/
def optOf (flag text : Str) : Option Str := if flag == ['1'] then some text else none

/-- a file system known at one point: `real p = rp` -/
def pointFS (p rp : List Seg) : FS := { real := fun q => if q = p then rp else q }

end C09D

open C09D in
def dispatchC09 : List Str → Option (List Str)
  | cmd :: args =>
    if cmd == s "c09.norm" then
      match args with
      | [p] => some [renderAbs (norm (absSegs p))]
      | _ => some [s "bad-request"]
    else if cmd == s "c09.relpath" then
      match args with
      | [t, st] => some [render (relpathPy (absSegs t) (absSegs st))]
      | _ => some [s "bad-request"]
    else if cmd == s "c09.resolve" then
      match args with
      | [d, r] => some [renderAbs (resolve (absSegs d) (splitSlash r))]
      | _ => some [s "bad-request"]
    else if cmd == s "c09.geturl" then
      let chain := nodesOf args
      some [ (match getDir urlTables chain with | some d => d | none => s "none"),
             (match getUrl urlTables chain with | some u => u.render | none => s "none") ]
    else if cmd == s "c09.pages" then
      some (s "ok" :: listPages navTables (shapeOf args))
    else if cmd == s "c09.nav" then
      match args with
      | tpl :: fs =>
        let sh := shapeOf fs
        some (s "ok" :: (navLinks navTables sh tpl).map fun e =>
          e.label ++ '|' :: targetStr e.target ++ '|' :: (if targetExists navTables sh e.target then ['1'] else ['0']))
      | _ => some [s "bad-request"]
    else if cmd == s "c09.navcheck" then
      some (s "ok" :: navTables.navConds.map fun e =>
        e.tpl ++ '|' :: targetStr e.target ++ '|' :: (if entryOk navTables e then ['1'] else ['0']))
    else if cmd == s "c09.strlink" then
      -- flag ("1" / "0" / "none"), number of chain nodes, 5 fields per node, then the shape fields
      match args with
      | flag :: k :: fs =>
        let n := 5 * natOf k
        let chain := nodesOf (fs.take n)
        let sh := shapeOf (fs.drop n)
        let fl : Option Bool := if flag == ['1'] then some true else if flag == ['0'] then some false else none
        let vis : Str := match chain with
          | nd :: _ => (match Url.lookup nd.cls visTables.visInit with
                        | some c => if eval sh c then ['1'] else ['0']
                        | none => s "dyn")
          | [] => s "dyn"
        some [ (if strEmitsLink urlTables visTables sh chain fl then ['1'] else ['0']), vis ]
      | _ => some [s "bad-request"]
    else if cmd == s "c09.strcheck" then
      some (s "ok" :: visTables.listClass.map fun e =>
        e.1 ++ '|' :: e.2 ++ '|' :: (if isParentClass urlTables e.2 then ['1'] else ['0']) ++ '|' ::
          (if listOk navTables visTables e then ['1'] else ['0']))
    else if cmd == s "c09.doclink" then
      match args with
      | [base, cd, cs, td, ts] =>
        some [render (docLinkPath (absSegs base) ⟨cd, cs, none⟩ ⟨td, ts, none⟩)]
      | _ => some [s "bad-request"]
    else if cmd == s "c09.projecturl" then
      match args with
      | [base, page] => some [render (projectUrl (absSegs base) (splitSlash page))]
      | _ => some [s "bad-request"]
    else if cmd == s "c09.readmore" then
      -- hasUrl, url ("none" without), explicit?, explicit text, paragraph?, paragraph text, documentation
      match args with
      | [hu, url, ef, et, pf, pt, doc] =>
        let hasUrl := hu == ['1']
        some [ (if readMore summaryTables hasUrl (optOf ef et) (optOf pf pt) doc then ['1'] else ['0']),
               render (readMoreHref (if hasUrl then some (splitSlash url) else none)) ]
      | _ => some [s "bad-request"]
    else if cmd == s "c09.normalise" then
      -- joined absolute path, its realpath
      match args with
      | [p, rp] => some [renderAbs (normalisePath relurlTables (pointFS (segsOf p) (segsOf rp)) (segsOf p))]
      | _ => some [s "bad-request"]
    else if cmd == s "c09.relurl" then
      -- absolute href, its realpath, directory of the page
      match args with
      | [h, rh, pd] =>
        some [ match relurl relurlTables (pointFS (segsOf h) (segsOf rh)) (segsOf pd) (segsOf h) with
               | some r => render r
               | none => s "unchanged" ]
      | _ => some [s "bad-request"]
    else if cmd == s "c09.relurlcheck" then
      some [ (if tablesOk relurlTables then ['1'] else ['0']),
             (match relurlTables.normalise with | .resolve => s "resolve" | .abspath => s "abspath"),
             (if relurlTables.relurlResolves then ['1'] else ['0']),
             (match summaryTables.rule with | .cutIfUrl => s "cutIfUrl" | .cutAlways => s "cutAlways"),
             (if summaryTables.linkNeedsUrl then ['1'] else ['0']) ]
    else if cmd == s "c09.quote" then
      match args with
      | [x] => some [quote x]
      | _ => some [s "bad-request"]
    else none
  | [] => none

end Ford
