import FordModel.Proto
import FordModel.Path
import FordModel.Nav
import FordModel.Url
import FordModel.StrLink
import FordModel.ReadMore
import FordModel.Relurl
import FordModel.Assets
import FordModel.Footnotes
import FordModel.Memo
import FordModel.GraphUrl
import FordModel.Generated.C09
namespace Ford
open Proto Ford.Path Ford.Nav Ford.Url Ford.StrLink Ford.ReadMore Ford.Relurl Ford.Assets Ford.Generated.C09

namespace C09D

def s (x : String) : Str := x.toList

/-- split `k=v` -/
def splitEq (f : Str) : Str × Str :=
  let rec go : Str → Str → Str × Str
    | [], acc => (acc.reverse, [])
    | c :: cs, acc => if c = '=' then (acc.reverse, cs) else go cs (c :: acc)
  go f []

/-- fields `c:<list>=<n>` and `o:<opt>=<0|1>` -/
def shapeOf (fs : List Str) : Shape :=
  let cs := fs.filterMap fun f => match f with
    | 'c' :: ':' :: r => let (k, v) := splitEq r; some (k, natOf v)
    | _ => none
  let os := fs.filterMap fun f => match f with
    | 'o' :: ':' :: r => let (k, v) := splitEq r; some (k, v == ['1'])
    | _ => none
  { count := fun l => (Url.lookup l cs).getD 0, opt := fun o => (Url.lookup o os).getD false }

def targetStr : Target → Str
  | .list p => s "list:" ++ p
  | .first l => s "first:" ++ l

def nodesOf : List Str → List Node
  | c :: o :: i :: n :: g :: r => ⟨c, o, i, n == ['1'], g == ['1']⟩ :: nodesOf r
  | _ => []

def absSegs (p : Str) : List Seg := splitSlash p

/-- segments of an absolute path as `pathlib` keeps them (no empty ones) -/
def segsOf (p : Str) : List Seg := (splitSlash p).filter fun x => x != []

/-- `[flag, text]` -> optional string -/
def optOf (flag text : Str) : Option Str := if flag == ['1'] then some text else none

/-- a file system known at one point: `real p = rp` -/
def pointFS (p rp : List Seg) : FS := { real := fun q => if q = p then rp else q }

/-- fields `d:<key>=<value>`: values of the dynamic path pieces -/
def dynOf (fs : List Str) : Str → Str :=
  let ds := fs.filterMap fun f => match f with
    | 'd' :: ':' :: r => let (k, v) := splitEq r; some (k, v)
    | _ => none
  fun k => (Url.lookup k ds).getD ('{' :: k ++ ['}'])

def showPieces (ps : List Piece) : Str :=
  ps.flatMap fun p => match p with
    | .lit t => t
    | .dyn k => '{' :: k ++ ['}']

def guardStr : CopyGuard → Str
  | .always => s "always"
  | .indexOnly => s "indexOnly"
  | .nonIndexOnly => s "nonIndexOnly"
  | .never => s "never"

/-- `n` then `n` fields -/
def takeCounted (fs : List Str) : List Str × List Str :=
  match fs with
  | k :: r => (r.take (natOf k), r.drop (natOf k))
  | [] => ([], [])

/-- `nItems`, then per item `name`, `nFiles`, files; fuel = number of fields -/
def itemsOf : Nat → Nat → List Str → List (Seg × List (List Seg)) × List Str
  | 0, _, fs => ([], fs)
  | _, 0, fs => ([], fs)
  | fuel + 1, n + 1, fs =>
    match fs with
    | name :: r =>
      let (files, rest) := takeCounted r
      let (more, rest') := itemsOf fuel n rest
      ((name, files.map splitSlash) :: more, rest')
    | [] => ([], [])

def locOf (l : Str) : List Seg := if l == ['.'] || l == [] then [] else splitSlash l

/-- per conversion: site, blank ("1"/"0"), nDefs, defs…, nRefs, refs…; fuel = number of fields -/
def convsOf : Nat → List Str → List Footnotes.Conv
  | 0, _ => []
  | fuel + 1, site :: blank :: r =>
    let (defs, r1) := takeCounted r
    let (refs, r2) := takeCounted r1
    match Footnotes.siteOf site with
    | some st => ⟨st, blank == ['1'], defs, refs⟩ :: convsOf fuel r2
    | none => []
  | _, _ => []

/-- pairs `href`, `page` (absolute paths) -/
def callsOf : List Str → List (Str × List Seg)
  | h :: p :: r => (h, segsOf p) :: callsOf r
  | _ => []

end C09D

open C09D in
def dispatchC09 : List Str → Option (List Str)
  | cmd :: args =>
    if cmd == s "c09.norm" then
      match args with
      | [p] => some [renderAbs (norm (absSegs p))]
      | _ => some [s "bad-request"]
    else if cmd == s "c09.relpath" then
      match args with
      | [t, st] => some [render (relpathPy (absSegs t) (absSegs st))]
      | _ => some [s "bad-request"]
    else if cmd == s "c09.resolve" then
      match args with
      | [d, r] => some [renderAbs (resolve (absSegs d) (splitSlash r))]
      | _ => some [s "bad-request"]
    else if cmd == s "c09.geturl" then
      let chain := nodesOf args
      some [ (match getDir urlTables chain with | some d => d | none => s "none"),
             (match getUrl urlTables chain with | some u => u.render | none => s "none") ]
    else if cmd == s "c09.pages" then
      some (s "ok" :: listPages navTables (shapeOf args))
    else if cmd == s "c09.nav" then
      match args with
      | tpl :: fs =>
        let sh := shapeOf fs
        some (s "ok" :: (navLinks navTables sh tpl).map fun e =>
          e.label ++ '|' :: targetStr e.target ++ '|' :: (if targetExists navTables sh e.target then ['1'] else ['0']))
      | _ => some [s "bad-request"]
    else if cmd == s "c09.navcheck" then
      some (s "ok" :: navTables.navConds.map fun e =>
        e.tpl ++ '|' :: targetStr e.target ++ '|' :: (if entryOk navTables e then ['1'] else ['0']))
    else if cmd == s "c09.strlink" then
      -- flag ("1" / "0" / "none"), number of chain nodes, 5 fields per node, then the shape fields
      match args with
      | flag :: k :: fs =>
        let n := 5 * natOf k
        let chain := nodesOf (fs.take n)
        let sh := shapeOf (fs.drop n)
        let fl : Option Bool := if flag == ['1'] then some true else if flag == ['0'] then some false else none
        let vis : Str := match chain with
          | nd :: _ => (match Url.lookup nd.cls visTables.visInit with
                        | some c => if eval sh c then ['1'] else ['0']
                        | none => s "dyn")
          | [] => s "dyn"
        some [ (if strEmitsLink urlTables visTables sh chain fl then ['1'] else ['0']), vis ]
      | _ => some [s "bad-request"]
    else if cmd == s "c09.strcheck" then
      some (s "ok" :: visTables.listClass.map fun e =>
        e.1 ++ '|' :: e.2 ++ '|' :: (if isParentClass urlTables e.2 then ['1'] else ['0']) ++ '|' ::
          (if listOk navTables visTables e then ['1'] else ['0']))
    else if cmd == s "c09.doclink" then
      match args with
      | [base, cd, cs, td, ts] =>
        some [render (docLinkPath (absSegs base) ⟨cd, cs, none⟩ ⟨td, ts, none⟩)]
      | _ => some [s "bad-request"]
    else if cmd == s "c09.projecturl" then
      match args with
      | [base, page] => some [render (projectUrl (absSegs base) (splitSlash page))]
      | _ => some [s "bad-request"]
    else if cmd == s "c09.readmore" then
      -- hasUrl, url ("none" without), explicit?, explicit text, paragraph?, paragraph text, documentation
      match args with
      | [hu, url, ef, et, pf, pt, doc] =>
        let hasUrl := hu == ['1']
        some [ (if readMore summaryTables hasUrl (optOf ef et) (optOf pf pt) doc then ['1'] else ['0']),
               render (readMoreHref (if hasUrl then some (splitSlash url) else none)) ]
      | _ => some [s "bad-request"]
    else if cmd == s "c09.normalise" then
      -- joined absolute path, its realpath
      match args with
      | [p, rp] => some [renderAbs (normalisePath relurlTables (pointFS (segsOf p) (segsOf rp)) (segsOf p))]
      | _ => some [s "bad-request"]
    else if cmd == s "c09.relurl" then
      -- absolute href, its realpath, directory of the page
      match args with
      | [h, rh, pd] =>
        some [ match relurl relurlTables (pointFS (segsOf h) (segsOf rh)) (segsOf pd) (segsOf h) with
               | some r => render r
               | none => s "unchanged" ]
      | _ => some [s "bad-request"]
    else if cmd == s "c09.relurlcheck" then
      some [ (if tablesOk relurlTables then ['1'] else ['0']),
             (match relurlTables.normalise with | .resolve => s "resolve" | .abspath => s "abspath"),
             (if relurlTables.relurlResolves then ['1'] else ['0']),
             (match summaryTables.rule with | .cutIfUrl => s "cutIfUrl" | .cutAlways => s "cutAlways"),
             (if summaryTables.linkNeedsUrl then ['1'] else ['0']) ]
    else if cmd == s "c09.assetcheck" then
      some (s "ok" :: assetTables.links.map fun l =>
        l.tpl ++ '|' :: l.tag ++ '|' :: l.attr ++ '|' :: showPieces l.path ++ '|' ::
          (if linkOk assetTables l then ['1'] else ['0']))
    else if cmd == s "c09.assets" then
      -- template, then shape fields (`o:`) and dynamic values (`d:`): the asset links the template emits
      match args with
      | tpl :: fs =>
        let ρ := dynOf fs
        some (s "ok" :: (emitted assetTables (shapeOf fs) tpl).map fun l =>
          l.tag ++ '|' :: l.attr ++ '|' :: inst ρ l.path)
      | _ => some [s "bad-request"]
    else if cmd == s "c09.assetwritten" then
      some (s "ok" :: written assetTables (shapeOf args) (dynOf args))
    else if cmd == s "c09.aliases" then
      some (s "ok" :: assetTables.aliases.map fun a =>
        a.1 ++ '|' :: showPieces a.2 ++ '|' :: (if aliasOk assetTables a then ['1'] else ['0']))
    else if cmd == s "c09.pagecheck" then
      some [ guardStr pageTables.copyGuard, guardStr pageTables.filesGuard,
             (if pageTables.copyGuard == .always && pageTables.filesGuard.runs true then ['1'] else ['0']) ]
    else if cmd == s "c09.graphcheck" then
      some ([ (if GraphUrl.tablesOk graphTables then ['1'] else ['0']), render graphTables.parentDir,
              (if graphTables.visibleGate then ['1'] else ['0']), (if graphTables.boundGate then ['1'] else ['0']),
              (if graphTables.keepsForeign then ['1'] else ['0']) ] ++
            graphTables.hosts.map fun h => h.1 ++ '=' :: GraphUrl.depthStr h.2)
    else if cmd == s "c09.graphnode" then
      -- fromStr, external, url ("-" = none), visible, bound, parentVisible -> URL attribute of the node ("-" = none)
      match args with
      | [f, e, u, v, b, pv] =>
        let n : GraphUrl.Node := ⟨f == ['1'], e == ['1'], (if u == ['-'] then none else some (if u == [] then [] else splitSlash u)),
                                  v == ['1'], b == ['1'], pv == ['1']⟩
        some [match GraphUrl.nodeUrl graphTables n with
              | some r => render r
              | none => ['-']]
      | _ => some [s "bad-request"]
    else if cmd == s "c09.pagenamecheck" then
      some [ PageName.namingStr pageTables.names.url, PageName.namingStr pageTables.names.outfile,
             PageName.namingStr pageTables.names.loc, (if PageName.tablesOk pageTables.names then ['1'] else ['0']) ]
    else if cmd == s "c09.withsuffix" then
      -- `str(PurePath(name).with_suffix(".html"))`
      match args with
      | [x] => some [PageName.withSuffixHtml x]
      | _ => some [s "bad-request"]
    else if cmd == s "c09.pagename" then
      -- location, stem, directory of the linking page (below the root) -> url path, outfile, search url, relurl'd link
      match args with
      | [loc, stem, dir] =>
        some [ render (PageName.urlPath pageTables.names (locOf loc) stem),
               render (PageName.outPath pageTables.names (locOf loc) stem),
               render (PageName.searchPath pageTables.names (locOf loc) stem),
               render (PageName.linkTo pageTables.names [['o']] (locOf dir) (locOf loc) stem) ]
      | _ => some [s "bad-request"]
    else if cmd == s "c09.pagecopy" then
      -- location, stem, nItems, (name, nFiles, files…)*, nFiles, files…
      match args with
      | loc :: stem :: n :: fs =>
        let (items, rest) := itemsOf fs.length (natOf n) fs
        let (files, _) := takeCounted rest
        some (s "ok" :: (pageWrites pageTables ⟨locOf loc, stem, items, files⟩).map render)
      | _ => some [s "bad-request"]
    else if cmd == s "c09.footnotes" then
      -- the conversions of a run in order -> per conversion `noteIds|refIds` (labels joined by `,`)
      some (s "ok" :: (Footnotes.convertAll mdTables [] [] (convsOf args.length args)).map fun o =>
        joinSep ',' o.noteIds ++ '|' :: joinSep ',' o.refIds)
    else if cmd == s "c09.mdcheck" then
      some [ (if Footnotes.tablesOk mdTables then ['1'] else ['0']),
             joinSep ',' (mdTables.resets.map Footnotes.siteName ++ mdTables.resetsFirst.map (fun x => Footnotes.siteName x ++ s " (first conversion only)")),
             (if Memo.faithful memoKey then ['1'] else ['0']), Memo.keyName memoKey ]
    else if cmd == s "c09.memo" then
      -- a sequence of calls of the relurl filter (absolute href, absolute page path), no symbolic links:
      -- the href each call returns, through the cache with the regenerated key
      some (s "ok" :: (Memo.runCached memoKey
        (fun h d => match relurl relurlTables { real := fun q => q } d (segsOf h) with
                    | some r => render r
                    | none => s "unchanged") [] (callsOf args)))
    else if cmd == s "c09.quote" then
      match args with
      | [x] => some [quote x]
      | _ => some [s "bad-request"]
    else none
  | [] => none

end Ford
