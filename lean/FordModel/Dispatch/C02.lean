import FordModel.Proto
import FordModel.Reader
import FordModel.InitialValue
namespace Ford
open Proto

def rerrNameInit : Show.RErr → Str
  | .badEscape => "bad-escape".toList
  | .unsupported => "unsupported".toList
  | .badNumber => "bad-number".toList
  | .index => "index".toList
  | .noMatch => "no-match".toList
  | .emptyInit => "empty-init".toList

def varFieldsInit (v : Show.VarShow) : List Str :=
  [v.name, match v.initial with | none => ['N'] | some t => 'S' :: t]

def rerrName : RErr → Str
  | .predocInline => "predoc-inline".toList
  | .predocAltInline => "predoc-alt-inline".toList
  | .altInline => "alt-inline".toList
  | .ampStart => "amp-start".toList
  | .internal => "internal".toList

def dispatchC02 : List Str → Option (List Str)
  | cmd :: args =>
    if cmd == "read".toList then
      -- reader: read <doc> <pre> <alt> <preAlt> line*
      match args with
      | d :: p :: a :: pa :: lines =>
        match readAll { doc := d, pre := p, alt := a, preAlt := pa } lines with
        | .ok items => some ("ok".toList :: items)
        | .error e => some ["err".toList, rerrName e]
      | _ => some ["bad-request".toList]
    else if cmd == "qsplit".toList then
      match args with
      | [sep, s] => some ("ok".toList :: quoteSplit (sep.headD ';') s)
      | _ => some ["bad-request".toList]
    else if cmd == "unterm".toList then
      match args with
      | [s] => some ["ok".toList, if unterminated s then ['1'] else ['0']]
      | _ => some ["bad-request".toList]
    else if cmd == "comscan".toList then
      match args with
      | [mark, s] => some ["ok".toList, match comScan mark s with | some i => showNat i | none => "none".toList]
      | _ => some ["bad-request".toList]
    else if cmd == "c02.decl".toList then
      -- c02.decl <declaration statement> : name / recorded initial value of every entity
      match args with
      | [s] =>
        match InitialValue.declVars s with
        | .ok vs => some ("ok".toList :: (vs.map varFieldsInit).flatten)
        | .error e => some ["err".toList, rerrNameInit e]
      | [j, s] =>
        match InitialValue.declVars s (j == ['1']) with
        | .ok vs => some ("ok".toList :: (vs.map varFieldsInit).flatten)
        | .error e => some ["err".toList, rerrNameInit e]
      | _ => some ["bad-request".toList]
    else if cmd == "c02.cut".toList then
      -- c02.cut <statement> : masked statement, then the literals cut out of it
      match args with
      | [s] =>
        let segs := Show.cutLits s
        some ("ok".toList :: Show.segMasked segs 0 :: Show.segStrings segs)
      | _ => some ["bad-request".toList]
    else none
  | [] => none

end Ford
