import FordModel.Proto
import FordModel.Reader
namespace Ford
open Proto

def rerrName : RErr → Str
  | .predocInline => "predoc-inline".toList
  | .predocAltInline => "predoc-alt-inline".toList
  | .altInline => "alt-inline".toList
  | .ampStart => "amp-start".toList
  | .internal => "internal".toList

def dispatchC02 : List Str → Option (List Str)
  | cmd :: args =>
    if cmd == "read".toList then
      -- reader: read <doc> <pre> <alt> <preAlt> line*
      match args with
      | d :: p :: a :: pa :: lines =>
        match readAll { doc := d, pre := p, alt := a, preAlt := pa } lines with
        | .ok items => some ("ok".toList :: items)
        | .error e => some ["err".toList, rerrName e]
      | _ => some ["bad-request".toList]
    else if cmd == "qsplit".toList then
      match args with
      | [sep, s] => some ("ok".toList :: quoteSplit (sep.headD ';') s)
      | _ => some ["bad-request".toList]
    else if cmd == "unterm".toList then
      match args with
      | [s] => some ["ok".toList, if unterminated s then ['1'] else ['0']]
      | _ => some ["bad-request".toList]
    else if cmd == "comscan".toList then
      match args with
      | [mark, s] => some ["ok".toList, match comScan mark s with | some i => showNat i | none => "none".toList]
      | _ => some ["bad-request".toList]
    else none
  | [] => none

end Ford
