import FordModel.Proto
import FordModel.Reader
import FordModel.InitialValue
import FordModel.Include
import FordModel.IncludeCfg
import FordModel.PassBack
import FordModel.PassBackCfg
namespace Ford
open Proto

def ierrName : Include.IErr → Str
  | .reader .predocInline => "predoc-inline".toList
  | .reader .predocAltInline => "predoc-alt-inline".toList
  | .reader .altInline => "alt-inline".toList
  | .reader .ampStart => "amp-start".toList
  | .reader .internal => "internal".toList
  | .notFound => "not-found".toList
  | .popEmpty => "pop-empty".toList
  | .depth => "depth".toList

/-- `<name> <number of lines> <line>*` repeated `n` times, then the lines of the main file -/
def parseFiles : Nat → List Str → Option (Include.FS × List Str)
  | 0, rest => some ([], rest)
  | n + 1, name :: cnt :: rest =>
    let k := natOf cnt
    if rest.length < k then none else
    match parseFiles n (rest.drop k) with
    | none => none
    | some (fs, main) => some ((name, rest.take k) :: fs, main)
  | _ + 1, _ => none

def rerrNameInit : Show.RErr → Str
  | .badEscape => "bad-escape".toList
  | .unsupported => "unsupported".toList
  | .badNumber => "bad-number".toList
  | .index => "index".toList
  | .noMatch => "no-match".toList
  | .emptyInit => "empty-init".toList

def varFieldsInit (v : Show.VarShow) : List Str :=
  [v.name, match v.initial with | none => ['N'] | some t => 'S' :: t]

def rerrName : RErr → Str
  | .predocInline => "predoc-inline".toList
  | .predocAltInline => "predoc-alt-inline".toList
  | .altInline => "alt-inline".toList
  | .ampStart => "amp-start".toList
  | .internal => "internal".toList

/-- the calls of a `c02.step` schedule: `n` next, `u` pass_back(last item), `d` read_docstring, `p<text>` pass_back(text) -/
def parseOps : List Str → List PassBack.Op
  | [] => []
  | ('p' :: t) :: rest => .push t :: parseOps rest
  | ['u'] :: rest => .unget :: parseOps rest
  | ['d'] :: rest => .docstring :: parseOps rest
  | _ :: rest => .next :: parseOps rest

def evFields : List PassBack.Ev → List Str
  | [] => []
  | .item x :: r => ('I' :: x) :: evFields r
  | .docs ds :: r => ('D' :: showNat ds.length) :: ds ++ evFields r
  | .stop :: r => ['E'] :: evFields r
  | .err e :: r => ('X' :: ierrName e) :: evFields r

def dispatchC02 : List Str → Option (List Str)
  | cmd :: args =>
    if cmd == "read".toList then
      -- reader: read <doc> <pre> <alt> <preAlt> line*
      match args with
      | d :: p :: a :: pa :: lines =>
        match readAll { doc := d, pre := p, alt := a, preAlt := pa } lines with
        | .ok items => some ("ok".toList :: items)
        | .error e => some ["err".toList, rerrName e]
      | _ => some ["bad-request".toList]
    else if cmd == "qsplit".toList then
      match args with
      | [sep, s] => some ("ok".toList :: quoteSplit (sep.headD ';') s)
      | _ => some ["bad-request".toList]
    else if cmd == "unterm".toList then
      match args with
      | [s] => some ["ok".toList, if unterminated s then ['1'] else ['0']]
      | _ => some ["bad-request".toList]
    else if cmd == "comscan".toList then
      match args with
      | [mark, s] => some ["ok".toList, match comScan mark s with | some i => showNat i | none => "none".toList]
      | _ => some ["bad-request".toList]
    else if cmd == "c02.decl".toList then
      -- c02.decl <declaration statement> : name / recorded initial value of every entity
      match args with
      | [s] =>
        match InitialValue.declVars s with
        | .ok vs => some ("ok".toList :: (vs.map varFieldsInit).flatten)
        | .error e => some ["err".toList, rerrNameInit e]
      | [j, s] =>
        match InitialValue.declVars s (j == ['1']) with
        | .ok vs => some ("ok".toList :: (vs.map varFieldsInit).flatten)
        | .error e => some ["err".toList, rerrNameInit e]
      | _ => some ["bad-request".toList]
    else if cmd == "c02.readfs".toList then
      -- c02.readfs <doc> <pre> <alt> <preAlt> <nfiles> (<name> <nlines> <line>*)* <line of the main file>*
      match args with
      | d :: p :: a :: pa :: nf :: rest =>
        match parseFiles (natOf nf) rest with
        | none => some ["bad-request".toList]
        | some (fs, main) =>
          match Include.readFS Include.readerCfg { doc := d, pre := p, alt := a, preAlt := pa } fs (fs.length + 2) main with
          | .ok items => some ("ok".toList :: items)
          | .error e => some ["err".toList, ierrName e]
      | _ => some ["bad-request".toList]
    else if cmd == "c02.step".toList then
      -- c02.step <doc> <pre> <alt> <preAlt> <nops> <op>* <nfiles> (<name> <nlines> <line>*)* <line of the main file>*
      -- the reader driven call by call (`PassBack.runOps`): one field per event, see `evFields`
      match args with
      | d :: p :: a :: pa :: nops :: rest0 =>
        let k := natOf nops
        if rest0.length < k + 1 then some ["bad-request".toList] else
        let ops := parseOps (rest0.take k)
        match rest0.drop k with
        | nf :: rest =>
          match parseFiles (natOf nf) rest with
          | none => some ["bad-request".toList]
          | some (fs, main) =>
            let m : Marks := { doc := d, pre := p, alt := a, preAlt := pa }
            let resolve : Str → Include.Res := fun name =>
              match Include.lookupFS fs name with
              | none => if Include.endsWithH name then .missingH else .failed .notFound
              | some ls =>
                match Include.readFS Include.readerCfg m fs (fs.length + 1) ls with
                | .ok l => .items l
                | .error e => .failed e
            some ("ok".toList :: evFields (PassBack.runOps Include.readerCfg resolve m PassBack.readerOrder
                    PassBack.readerFront 100000 ops { rs := {}, pending := [], lines := main } none))
        | [] => some ["bad-request".toList]
      | _ => some ["bad-request".toList]
    else if cmd == "c02.cfg".toList then
      some ["ok".toList, (if Include.readerCfg.incPrologue then ['1'] else ['0']),
            (if Include.readerCfg.incEpilogue then ['1'] else ['0']), (if Include.readerCfg.guarded then ['1'] else ['0']),
            (if Include.readerCfg.kwLoose then ['1'] else ['0'])]
    else if cmd == "c02.cut".toList then
      -- c02.cut <statement> : masked statement, then the literals cut out of it
      match args with
      | [s] =>
        let segs := Show.cutLits s
        some ("ok".toList :: Show.segMasked segs 0 :: Show.segStrings segs)
      | _ => some ["bad-request".toList]
    else none
  | [] => none

end Ford
