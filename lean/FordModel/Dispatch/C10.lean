import FordModel.Proto
import FordModel.NamesCfg
import FordModel.SourceOf
namespace Ford
open Proto Names

def c10Variant (s : Str) : Variant := if s == "repaired".toList then .repaired else .asIs

/-- dir field: `N` = None, `S<text>` = a string -/
def c10DirIn : Str → Option Str
  | 'S' :: d => some d
  | _ => none

def c10DirOut : Option Str → Str
  | some d => 'S' :: d
  | none => ['N']

def c10Reqs : List Str → Option (List Req)
  | [] => some []
  | i :: d :: n :: rest => (c10Reqs rest).map (fun t => { id := natOf i, dir := c10DirIn d, name := n } :: t)
  | _ => none

def c10Pairs : List Str → Option (List (Str × Str))
  | [] => some []
  | a :: b :: rest => (c10Pairs rest).map (fun t => (a, b) :: t)
  | _ => none

def c10Kind (s : Str) : Option Kind :=
  if s == "sourcefile".toList then some .sourcefile
  else if s == "genericsource".toList then some .genericsource
  else if s == "program".toList then some .program
  else if s == "module".toList then some .module
  else if s == "submodule".toList then some .submodule
  else if s == "blockdata".toList then some .blockdata
  else if s == "namelist".toList then some .namelist
  else if s == "type".toList then some .type
  else if s == "interface".toList then some .interface
  else if s == "modprocinterface".toList then some .modprocinterface
  else if s == "subroutine".toList then some .subroutine
  else if s == "function".toList then some .function
  else if s == "modprocimpl".toList then some .modprocimpl
  else if s == "variable".toList then some .variable
  else if s == "boundproc".toList then some .boundproc
  else if s == "common".toList then some .common
  else if s == "enum".toList then some .enum
  else if s == "finalproc".toList then some .finalproc
  else if s == "modprocref".toList then some .modprocref
  else none

def c10NatPairs : List Str → List (Nat × Nat)
  | a :: b :: rest => (natOf a, natOf b) :: c10NatPairs rest
  | _ => []

def c10IdPaths : List Str → List (Nat × Str)
  | a :: b :: rest => (natOf a, b) :: c10IdPaths rest
  | _ => []

def c10JoinIds : List Nat → Str
  | [] => ['-']
  | [a] => decimal a
  | a :: b :: t => decimal a ++ ',' :: c10JoinIds (b :: t)

/-- c10.srcof fuel np (child parent)^np nf (id path)^nf entity*  ->  ok (hierarchy source filename)* -/
def c10SrcOf (args : List Str) : List Str :=
  match args with
  | fuel :: np :: rest =>
    let n := natOf np
    let ps := c10NatPairs (rest.take (2 * n))
    match rest.drop (2 * n) with
    | nf :: rest2 =>
      let m := natOf nf
      let paths := c10IdPaths (rest2.take (2 * m))
      let ents := (rest2.drop (2 * m)).map natOf
      "ok".toList :: (ents.map (fun e =>
        [c10JoinIds (SourceOf.hierarchy ps (natOf fuel) e), decimal (SourceOf.sourceFile ps (natOf fuel) e),
         (SourceOf.filenameOf paths ps (natOf fuel) e).getD "<none>".toList])).flatten
    | _ => ["bad-request".toList]
  | _ => ["bad-request".toList]

def dispatchC10 : List Str → Option (List Str)
  | cmd :: args =>
    if cmd == "c10.run".toList then
      -- c10.run <variant> (id dir name)*  ->  ok stem*
      match args with
      | v :: rest =>
        match c10Reqs rest with
        | some rs => some ("ok".toList :: (trace cfg (c10Variant v) {} rs).map (·.2))
        | none => some ["bad-request".toList]
      | _ => some ["bad-request".toList]
    else if cmd == "c10.quote".toList then
      match args with
      | [s] => some ["ok".toList, quote s]
      | _ => some ["bad-request".toList]
    else if cmd == "c10.anchor".toList then
      match args with
      | [o, s] => some ["ok".toList, anchorOf o s]
      | _ => some ["bad-request".toList]
    else if cmd == "c10.dir".toList then
      -- c10.dir kind parentKind|- parentGeneric named -> ok obj dir
      match args with
      | [k, p, g, n] =>
        match c10Kind k with
        | some kk => some ["ok".toList, objOf kk, c10DirOut (dirOf kk (c10Kind p) (g == ['1']) (n == ['1'])),
                           if identBorrows kk (c10Kind p) (g == ['1']) then ['1'] else ['0']]
        | none => some ["bad-request".toList]
      | _ => some ["bad-request".toList]
    else if cmd == "c10.legal".toList then
      match args with
      | [s] => some ["ok".toList, if decide (Legal cfg opNames s) then ['1'] else ['0']]
      | _ => some ["bad-request".toList]
    else if cmd == "c10.block".toList then
      -- c10.block named abstract nbodies -> ok (generic nchildren)*   (one pair per interface entity)
      match args with
      | [n, a, k] =>
        let es := ifaceEntities { named := n == ['1'], abstract := a == ['1'], bodies := List.range (natOf k) }
        some ("ok".toList :: (es.map (fun e => [if e.1 then ['1'] else ['0'], decimal e.2.length])).flatten)
      | _ => some ["bad-request".toList]
    else if cmd == "c10.url".toList then
      match args with
      | [d, s] => some ("ok".toList :: urlOf d s :: outfileOf d s)
      | _ => some ["bad-request".toList]
    else if cmd == "c10.srcof".toList then some (c10SrcOf args)
    else if cmd == "c10.src".toList then
      -- c10.src (path content)* -> ok (content served under basename path)*
      match c10Pairs args with
      | some fs => some ("ok".toList :: fs.map (fun f => (served fs (srcLink f.1)).getD "<missing>".toList))
      | none => some ["bad-request".toList]
    else none
  | [] => none

end Ford
