import FordModel.Proto
import FordModel.Settings
import FordModel.SettingsSource
namespace Ford
open Proto Settings

namespace C15Proto

def us : Char := Char.ofNat 0x1f   -- between list items / dict entries
def rs : Char := Char.ofNat 0x1e   -- between a dict key and its value
def gs : Char := Char.ofNat 0x1d   -- between key and value inside a table / fields of an Eft
def fs : Char := Char.ofNat 0x1c   -- between entries of a table

def parseIntD (s : Str) : Int :=
  match s with
  | '-' :: r => -(Int.ofNat (natOf r))
  | _ => Int.ofNat (natOf s)

def decTbl (s : Str) : List (Str × Str) :=
  if s.isEmpty then [] else
  (splitChar fs s).map (fun e => match splitOnce gs e with | some (k, v) => (k, v) | none => (e, []))

def decAtom : Str → Atom
  | 'S' :: r => .str r
  | 'P' :: r => .path r
  | 'I' :: r => .int (parseIntD r)
  | 'B' :: r => .bool (r == ['1'])
  | 'T' :: r => .tbl (decTbl r)
  | 'E' :: r =>
    match splitChar gs r with
    | [e, c] => .eft ⟨e, c, none⟩
    | [e, c, l] => .eft ⟨e, c, some l⟩
    | _ => .str r
  | s => .str s

def decVal : Str → PyVal
  | ['N'] => .none
  | 'L' :: r => if r.isEmpty then .list [] else .list ((splitChar us r).map decAtom)
  | 'D' :: r =>
    if r.isEmpty then .dict [] else
    .dict ((splitChar us r).map (fun e => match splitOnce rs e with
      | some (k, v) => (k, decAtom v) | none => (e, .str [])))
  | s => .atom (decAtom s)

def encTbl (kvs : List (Str × Str)) : Str :=
  joinSep fs (kvs.map (fun kv => kv.1 ++ gs :: kv.2))

def encAtom : Atom → Str
  | .str s => 'S' :: s
  | .path p => 'P' :: p
  | .int i => 'I' :: (toString i).toList
  | .bool b => if b then ['B', '1'] else ['B', '0']
  | .tbl kvs => 'T' :: encTbl kvs
  | .eft e => 'E' :: (e.ext ++ gs :: e.comment ++ (match e.lexer with | some l => gs :: l | none => []))

def encVal : PyVal → Str
  | .none => ['N']
  | .atom a => encAtom a
  | .list xs => 'L' :: joinSep us (xs.map encAtom)
  | .dict kvs => 'D' :: joinSep us (kvs.map (fun kv => kv.1 ++ rs :: encAtom kv.2))

def errOut : Err → List Str
  | .boolMulti k => ["err".toList, "boolMulti".toList, k]
  | .boolBad k => ["err".toList, "boolBad".toList, k]
  | .intBad => ["err".toList, "intBad".toList, []]
  | .dictSep k => ["err".toList, "dictSep".toList, k]
  | .eftBad => ["err".toList, "eftBad".toList, []]
  | .unknownKw k => ["err".toList, "unknownKw".toList, k]
  | .extClash => ["err".toList, "extClash".toList, []]
  | .modClash => ["err".toList, "modClash".toList, []]
  | .docmarkClash => ["err".toList, "docmarkClash".toList, []]
  | .srcInOut => ["err".toList, "srcInOut".toList, []]
  | .noSeparator k => ["err".toList, "noSeparator".toList, k]
  | .unmodelled => ["err".toList, "unmodelled".toList, []]

/-- take `n` key/value pairs from the field list -/
def takeKvs : Nat → List Str → Option (Settings × List Str)
  | 0, fs => some ([], fs)
  | n + 1, k :: v :: rest =>
    match takeKvs n rest with
    | some (s, r) => some ((k, decVal v) :: s, r)
    | none => none
  | _ + 1, _ => none

def takeN : Nat → List Str → Option (List Str × List Str)
  | 0, fs => some ([], fs)
  | n + 1, x :: rest =>
    match takeN n rest with
    | some (s, r) => some (x :: s, r)
    | none => none
  | _ + 1, [] => none

def tagOfName (s : Str) : Tag :=
  if s == "bool".toList then .bool else if s == "int".toList then .int
  else if s == "str".toList then .str else if s == "optStr".toList then .optStr
  else if s == "path".toList then .path else if s == "optPath".toList then .optPath
  else if s == "listStr".toList then .listStr else if s == "listPath".toList then .listPath
  else if s == "dictStr".toList then .dictStr else if s == "dictEft".toList then .dictEft
  else if s == "plainList".toList then .plainList else if s == "noInit".toList then .noInit
  else .other

def outSettings (s : Settings) (w : List Str) : List Str :=
  "ok".toList :: (w.map (fun k => 'w' :: ':' :: k) ++ s.map (fun kv => 'f' :: ':' :: kv.1 ++ '=' :: encVal kv.2))

/-- c15.eff dir pkg hasToml nToml (k v)* nMd line* hasCfg nCfg (k v)* nCli (k v)* -/
def eff (T : Tables) (args : List Str) : Option (List Str) :=
  match args with
  | dir :: pkg :: hasToml :: nToml :: r1 =>
    match takeKvs (natOf nToml) r1 with
    | some (toml, nMd :: r2) =>
      match takeN (natOf nMd) r2 with
      | some (md, hasCfg :: nCfg :: r3) =>
        match takeKvs (natOf nCfg) r3 with
        | some (cfg, nCli :: r4) =>
          match takeKvs (natOf nCli) r4 with
          | some (cli, []) =>
            let t := if hasToml == ['1'] then some toml else none
            let c := if hasCfg == ['1'] then some cfg else none
            match effective T dir pkg t md c cli with
            | .ok (s, w) => some (outSettings s w)
            | .error e => some (errOut e)
          | _ => none
        | _ => none
      | _ => none
    | _ => none
  | _ => none

/-- take `n` directory entries `dir state nKw (k v)*` -/
def takeDirs : Nat → List Str → Option (FileSys × List Str)
  | 0, fs => some ([], fs)
  | n + 1, d :: st :: nKw :: rest =>
    match takeKvs (natOf nKw) rest with
    | some (kw, r) =>
      let m : Manifest :=
        if st == "ford".toList then .ford kw else if st == "invalid".toList then .invalid
        else if st == "noExtra".toList then .noExtra else if st == "noFord".toList then .noFord else .absent
      match takeDirs n r with
      | some (fsys, r') => some ((d, m) :: fsys, r')
      | none => none
    | none => none
  | _ + 1, _ => none

/-- take `n` file entries `name nLines line*` -/
def takeFiles : Nat → List Str → Option (List (Str × List Str) × List Str)
  | 0, fs => some ([], fs)
  | n + 1, name :: nL :: rest =>
    match takeN (natOf nL) rest with
    | some (ls, r) =>
      match takeFiles n r with
      | some (fl, r') => some ((name, ls) :: fl, r')
      | none => none
    | none => none
  | _ + 1, _ => none

def srcErrOut : SrcErr → List Str
  | .tomlDecode => ["err".toList, "tomlDecode".toList, []]
  | .settings e => errOut e

/-- c15.effl cwd addr pkg incRepaired nDirs (dir state nKw (k v)*)* nFiles (name nLines line*)* nMd line* hasCfg nCfg (k v)* nCli (k v)* -/
def effl (T : Tables) (args : List Str) : Option (List Str) :=
  match args with
  | cwd :: addr :: pkg :: incRep :: nDirs :: r0 =>
    match takeDirs (natOf nDirs) r0 with
    | some (fsys, nFiles :: r1) =>
     match takeFiles (natOf nFiles) r1 with
     | some (files, nMd :: r2) =>
      match takeN (natOf nMd) r2 with
      | some (md, hasCfg :: nCfg :: r3) =>
        match takeKvs (natOf nCfg) r3 with
        | some (cfg, nCli :: r4) =>
          match takeKvs (natOf nCli) r4 with
          | some (cli, []) =>
            let c := if hasCfg == ['1'] then some cfg else none
            match effectiveAt T Generated.tomlLookups fsys cwd addr pkg md c cli files (incRep == ['1']) with
            | .ok (s, w) => some (outSettings s w)
            | .error e => some (srcErrOut e)
          | _ => none
        | _ => none
      | _ => none
     | _ => none
    | _ => none
  | _ => none

end C15Proto

open C15Proto in
def dispatchC15 : List Str → Option (List Str)
  | cmd :: args =>
    if cmd == "c15.eff".toList then
      match eff generatedTables args with
      | some r => some r
      | none => some ["bad-request".toList]
    else if cmd == "c15.effr".toList then   -- variant `repaired` of the extra_mods merge
      match eff generatedTablesModsRepaired args with
      | some r => some r
      | none => some ["bad-request".toList]
    else if cmd == "c15.effl".toList then   -- round 6: with the file-system layout (source selection)
      match effl generatedTables args with
      | some r => some r
      | none => some ["bad-request".toList]
    else if cmd == "c15.efflr".toList then
      match effl generatedTablesModsRepaired args with
      | some r => some r
      | none => some ["bad-request".toList]
    else if cmd == "c15.incline".toList then
      match args with
      | [l] => some (match incParse l with
          | .plain => ["plain".toList]
          | .inc a b c => ["inc".toList, a, b, c]
          | .other => ["other".toList])
      | _ => some ["bad-request".toList]
    else if cmd == "c15.dirname".toList then
      match args with
      | [cwd, addr] => some ["ok".toList, dirname addr, projectDirOf cwd addr]
      | _ => some ["bad-request".toList]
    else if cmd == "c15.meta".toList then
      let (mt, rest) := metaPre args
      some ("ok".toList :: showNat mt.length :: (mt.map (fun kv => kv.1 ++ '=' :: joinSep us kv.2) ++ rest))
    else if cmd == "c15.conv".toList then
      match args with
      | [tag, key, v] =>
        match convertSetting Generated.optionSeparators (tagOfName tag) key (decVal v) with
        | .ok r => some ["ok".toList, encVal r]
        | .error e => some (errOut e)
      | _ => some ["bad-request".toList]
    else if cmd == "c15.norm".toList then
      match args with
      | [dir, p] => some ["ok".toList, normPath dir p]
      | _ => some ["bad-request".toList]
    else if cmd == "c15.int".toList then
      match args with
      | [s] => some (match parseInt s with | some i => ["ok".toList, (toString i).toList] | none => ["none".toList])
      | _ => some ["bad-request".toList]
    else if cmd == "c15.splitws".toList then
      match args with
      | [s] => some ("ok".toList :: splitWs s)
      | _ => some ["bad-request".toList]
    else none
  | [] => none

end Ford
