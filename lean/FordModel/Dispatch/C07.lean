import FordModel.Proto
import FordModel.Scope
import FordModel.ScopeSpec
import FordModel.ScopeBlock
namespace Ford
open Proto Scope

namespace C07Wire

/-- accumulated body of a scope while its tokens are read -/
structure Body where
  uses : List Use := []
  decls : List Decl := []
  slots : List Slot := []
  blocks : List Block := []
  kids : List BScope := []

def kidsOfList : List BScope → BKids
  | [] => .nil
  | s :: r => .cons s (kidsOfList r)

def blocksOfList : List Block → Blocks
  | [] => .nil
  | b :: r => .cons b (blocksOfList r)

/-- accumulated content of a BLOCK construct -/
structure BBody where
  uses : List Use := []
  decls : List Decl := []
  inner : List Block := []

def nsOf (s : Str) : NS := if s == "t".toList then .ty else if s == "a".toList then .ab else .pr
def skOf (s : Str) : SK := if s == "ty".toList then .ty else if s == "pa".toList then .pa else .pr
def phOf (s : Str) : Phase := if s == "e".toList then .early else .late

def takePairs : Nat → List Str → List (Str × Str) → Option (List (Str × Str) × List Str)
  | 0, r, acc => some (acc.reverse, r)
  | n + 1, l :: rm :: r, acc => takePairs n r ((l, rm) :: acc)
  | _ + 1, _, _ => none

/-- block := "[" ( U ... | D ... | block )* "]" (the opening bracket is already consumed) -/
def parseBlock : Nat → List Str → BBody → Option (Block × List Str)
  | 0, _, _ => none
  | fuel + 1, toks, b =>
    match toks with
    | [] => none
    | t :: r =>
      if t == "]".toList then some (.mk b.uses.reverse b.decls.reverse (blocksOfList b.inner.reverse), r)
      else if t == "U".toList then
        match r with
        | m :: fl :: n :: r2 =>
          match takePairs (natOf n) r2 [] with
          | some (ps, r3) => parseBlock fuel r3 { b with uses := ⟨m, fl == "o".toList, ps⟩ :: b.uses }
          | none => none
        | _ => none
      else if t == "D".toList then
        match r with
        | ns :: nm :: e :: r2 => parseBlock fuel r2 { b with decls := ⟨nsOf ns, nm, natOf e⟩ :: b.decls }
        | _ => none
      else if t == "[".toList then
        match parseBlock fuel r {} with
        | some (ib, r2) => parseBlock fuel r2 { b with inner := ib :: b.inner }
        | none => none
      else none

/-- recursive descent with fuel (the token list is finite; fuel = its length) -/
def parseBody : Nat → List Str → Body → Option (Body × List Str)
  | 0, _, _ => none
  | fuel + 1, toks, b =>
    match toks with
    | [] => none
    | t :: r =>
      if t == ")".toList then some (b, r)
      else if t == "U".toList then
        match r with
        | m :: fl :: n :: r2 =>
          -- U <module> <o = ONLY list | a = no ONLY> <number of items> (<local> <remote>)*
          match takePairs (natOf n) r2 [] with
          | some (ps, r3) => parseBody fuel r3 { b with uses := ⟨m, fl == "o".toList, ps⟩ :: b.uses }
          | none => none
        | _ => none
      else if t == "D".toList then
        match r with
        | ns :: nm :: e :: r2 => parseBody fuel r2 { b with decls := ⟨nsOf ns, nm, natOf e⟩ :: b.decls }
        | _ => none
      else if t == "X".toList then
        match r with
        | i :: k :: ph :: nm :: r2 =>
          parseBody fuel r2 { b with slots := ⟨natOf i, skOf k, phOf ph, nm⟩ :: b.slots }
        | _ => none
      else if t == "[".toList then
        match parseBlock fuel r {} with
        | some (blk, r2) => parseBody fuel r2 { b with blocks := blk :: b.blocks }
        | none => none
      else if t == "(".toList then
        match r with
        | nm :: e :: f :: r2 =>
          match parseBody fuel r2 {} with
          | some (cb, r3) =>
            let s := BScope.mk nm (natOf e) (f == "1".toList) cb.uses.reverse cb.decls.reverse
              cb.slots.reverse (blocksOfList cb.blocks.reverse) (kidsOfList cb.kids.reverse)
            parseBody fuel r3 { b with kids := s :: b.kids }
          | none => none
        | _ => none
      else none

/-- project := ( ("M" | "N") scope )* ; every scope is "(" name ent isFunc body ")" -/
def parseProject : Nat → List Str → List (Bool × BScope) → Option (List (Bool × BScope))
  | 0, _, _ => none
  | _ + 1, [], acc => some acc.reverse
  | fuel + 1, flag :: toks, acc =>
    match toks with
    | op :: nm :: e :: f :: r2 =>
      if op == "(".toList then
        match parseBody (r2.length + 1) r2 {} with
        | some (cb, r3) =>
          let s := BScope.mk nm (natOf e) (f == "1".toList) cb.uses.reverse cb.decls.reverse
            cb.slots.reverse (blocksOfList cb.blocks.reverse) (kidsOfList cb.kids.reverse)
          parseProject fuel r3 ((flag == "M".toList, s) :: acc)
        | none => none
      else none
    | _ => none

def showRes (r : Res) : List Str :=
  r.map fun (sl, o) => showNat sl.id ++ ['='] ++ (match o with | some e => showNat e | none => "-".toList)

def variantOf (s : Str) : Variant :=
  ⟨(s.head? == some '1'), ((s.drop 1).head? == some '1')⟩

/-- third character of the variant: 1 = USE statements inside a BLOCK are filed in the enclosing
    unit (code as found), 0 = they are not; block-local declarations are never registered -/
def regOf (s : Str) : BlockReg :=
  ⟨((s.drop 2).head? == some '1'), false, false⟩

/-- the block-local declarations the model says the parser registers in an enclosing unit -/
def showReg (reg : BlockReg) (us : List (Bool × BScope)) : List Str :=
  (us.flatMap fun x => registered reg x.2).map fun e => "r:".toList ++ showNat e

end C07Wire

open C07Wire in
def dispatchC07 : List Str → Option (List Str)
  | cmd :: args =>
    if cmd == "c07.run".toList then
      -- c07.run <variant: three chars 0/1 = alias, hostOverLocal, blockUse> <project tokens>
      match args with
      | v :: toks =>
        match parseProject (toks.length + 1) toks [] with
        | some us => some ("ok".toList :: (showRes (corrBProject (variantOf v) (regOf v) us) ++ showReg (regOf v) us))
        | none => some ["bad-project".toList]
      | _ => some ["bad-request".toList]
    else if cmd == "c07.spec".toList then
      match args with
      | toks =>
        match parseProject (toks.length + 1) toks [] with
        | some us => some ("ok".toList :: showRes (specBProject us))
        | none => some ["bad-project".toList]
    else none
  | [] => none

end Ford
