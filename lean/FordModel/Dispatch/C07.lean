import FordModel.Proto
import FordModel.Scope
import FordModel.ScopeSpec
import FordModel.ScopeBlock
import FordModel.ScopeBind
import FordModel.ScopeSub
import FordModel.ScopeAccess
namespace Ford
open Proto Scope

namespace C07Wire

/-- accumulated body of a scope while its tokens are read -/
structure Body where
  uses : List Use := []
  decls : List Decl := []
  slots : List Slot := []
  blocks : List Block := []
  kids : List BScope := []

def kidsOfList : List BScope → BKids
  | [] => .nil
  | s :: r => .cons s (kidsOfList r)

def blocksOfList : List Block → Blocks
  | [] => .nil
  | b :: r => .cons b (blocksOfList r)

/-- accumulated content of a BLOCK construct -/
structure BBody where
  uses : List Use := []
  decls : List Decl := []
  inner : List Block := []

def nsOf (s : Str) : NS := if s == "t".toList then .ty else if s == "a".toList then .ab else .pr
def skOf (s : Str) : SK :=
  if s == "ty".toList then .ty else if s == "pa".toList then .pa else if s == "bn".toList then .bn else .pr
def phOf (s : Str) : Phase := if s == "e".toList then .early else .late

def takePairs : Nat → List Str → List (Str × Str) → Option (List (Str × Str) × List Str)
  | 0, r, acc => some (acc.reverse, r)
  | n + 1, l :: rm :: r, acc => takePairs n r ((l, rm) :: acc)
  | _ + 1, _, _ => none

def takeCells : Nat → List Str → List (Nat × Str) → Option (List (Nat × Str) × List Str)
  | 0, r, acc => some (acc.reverse, r)
  | n + 1, i :: nm :: r, acc => takeCells n r ((natOf i, nm) :: acc)
  | _ + 1, _, _ => none

/-- block := "[" ( U ... | D ... | block )* "]" (the opening bracket is already consumed) -/
def parseBlock : Nat → List Str → BBody → Option (Block × List Str)
  | 0, _, _ => none
  | fuel + 1, toks, b =>
    match toks with
    | [] => none
    | t :: r =>
      if t == "]".toList then some (.mk b.uses.reverse b.decls.reverse (blocksOfList b.inner.reverse), r)
      else if t == "U".toList then
        match r with
        | m :: fl :: n :: r2 =>
          match takePairs (natOf n) r2 [] with
          | some (ps, r3) => parseBlock fuel r3 { b with uses := ⟨m, fl == "o".toList, ps⟩ :: b.uses }
          | none => none
        | _ => none
      else if t == "D".toList then
        match r with
        | ns :: nm :: e :: r2 => parseBlock fuel r2 { b with decls := ⟨nsOf ns, nm, natOf e⟩ :: b.decls }
        | _ => none
      else if t == "[".toList then
        match parseBlock fuel r {} with
        | some (ib, r2) => parseBlock fuel r2 { b with inner := ib :: b.inner }
        | none => none
      else none

/-- recursive descent with fuel (the token list is finite; fuel = its length) -/
def parseBody : Nat → List Str → Body → Option (Body × List Str)
  | 0, _, _ => none
  | fuel + 1, toks, b =>
    match toks with
    | [] => none
    | t :: r =>
      if t == ")".toList then some (b, r)
      else if t == "U".toList then
        match r with
        | m :: fl :: n :: r2 =>
          -- U <module> <o = ONLY list | a = no ONLY> <number of items> (<local> <remote>)*
          match takePairs (natOf n) r2 [] with
          | some (ps, r3) => parseBody fuel r3 { b with uses := ⟨m, fl == "o".toList, ps⟩ :: b.uses }
          | none => none
        | _ => none
      else if t == "D".toList then
        match r with
        | ns :: nm :: e :: r2 => parseBody fuel r2 { b with decls := ⟨nsOf ns, nm, natOf e⟩ :: b.decls }
        | _ => none
      else if t == "X".toList then
        match r with
        | i :: k :: ph :: nm :: r2 =>
          parseBody fuel r2 { b with slots := ⟨natOf i, skOf k, phOf ph, nm⟩ :: b.slots }
        | _ => none
      else if t == "[".toList then
        match parseBlock fuel r {} with
        | some (blk, r2) => parseBody fuel r2 { b with blocks := blk :: b.blocks }
        | none => none
      else if t == "(".toList then
        match r with
        | nm :: e :: f :: r2 =>
          match parseBody fuel r2 {} with
          | some (cb, r3) =>
            let s := BScope.mk nm (natOf e) (f == "1".toList) cb.uses.reverse cb.decls.reverse
              cb.slots.reverse (blocksOfList cb.blocks.reverse) (kidsOfList cb.kids.reverse)
            parseBody fuel r3 { b with kids := s :: b.kids }
          | none => none
        | _ => none
      else none

/-- project := ( ("M" | "N" | "S" header) scope )* ; every scope is "(" name ent isFunc body ")";
    header := ancestor (parent | "-") ancSlot parSlot n (slot name)* -/
def parseProject : Nat → List Str → List (UKind × BScope) → Option (List (UKind × BScope))
  | 0, _, _ => none
  | _ + 1, [], acc => some acc.reverse
  | fuel + 1, flag :: toks0, acc =>
    let hdr : Option (UKind × List Str) :=
      if flag == "S".toList then
        match toks0 with
        | anc :: par :: sa :: sp :: n :: r =>
          match takeCells (natOf n) r [] with
          | some (pairs, r2) =>
            some (.sub ⟨anc, if par == "-".toList then none else some par, natOf sa, natOf sp, pairs⟩, r2)
          | none => none
        | _ => none
      else some (if flag == "M".toList then .mod else .other, toks0)
    match hdr with
    | none => none
    | some (kind, toks) =>
      match toks with
      | op :: nm :: e :: f :: r2 =>
        if op == "(".toList then
          match parseBody (r2.length + 1) r2 {} with
          | some (cb, r3) =>
            let s := BScope.mk nm (natOf e) (f == "1".toList) cb.uses.reverse cb.decls.reverse
              cb.slots.reverse (blocksOfList cb.blocks.reverse) (kidsOfList cb.kids.reverse)
            parseProject fuel r3 ((kind, s) :: acc)
          | none => none
        else none
      | _ => none

def showRes (r : Res) : List Str :=
  r.map fun (sl, o) => showNat sl.id ++ ['='] ++ (match o with | some e => showNat e | none => "-".toList)

def variantOf (s : Str) : Variant :=
  ⟨(s.head? == some '1'), ((s.drop 1).head? == some '1')⟩

/-- third character of the variant: 1 = USE statements inside a BLOCK are filed in the enclosing
    unit (code as found), 0 = they are not; block-local declarations are never registered -/
def regOf (s : Str) : BlockReg :=
  ⟨((s.drop 2).head? == some '1'), false, false⟩

/-- the block-local declarations the model says the parser registers in an enclosing unit -/
def showReg (reg : BlockReg) (us : List (UKind × BScope)) : List Str :=
  (us.flatMap fun x => registered reg x.2).map fun e => "r:".toList ++ showNat e

/-- fourth character of the variant: 1 = the inherited copy of a generic binding shares the list of
    its specifics with the parent type's generic binding (code as found) -/
def sharedOf (s : Str) : Bool := (s.drop 3).head? == some '1'

def takeNats : Nat → List Str → List Nat → Option (List Nat × List Str)
  | 0, r, acc => some (acc.reverse, r)
  | n + 1, x :: r, acc => takeNats n r (natOf x :: acc)
  | _ + 1, [], _ => none

/-- seventh character of the variant: 1 = an extension does not inherit the PRIVATE bindings of its
    parent type (code as found) -/
def dropOf (s : Str) : Bool := (s.drop 6).head? == some '1'

/-- type records: ( "T" ent (slot | "-") n (name ent)* m (slot name)* k (private binding ent)* )* ; the
    parent of a type is what the model put into its `extends` slot -/
def parseTypes (res : Res) : Nat → List Str → List TypeRec → Option (List TypeRec)
  | 0, _, _ => none
  | _ + 1, [], acc => some acc.reverse
  | fuel + 1, t :: e :: x :: n :: r, acc =>
    if t == "T".toList then
      match takePairs (natOf n) r [] with
      | some (own, m :: r2) =>
        match takeCells (natOf m) r2 [] with
        | some (gens, k :: r3) =>
          match takeNats (natOf k) r3 [] with
          | some (privs, r4) =>
            let parent := if x == "-".toList then none else resGet res (natOf x)
            -- `own` in declaration order; a table has the most recent write at its head
            parseTypes res fuel r4
              (⟨natOf e, parent, (own.map fun p => (lower p.1, natOf p.2)).reverse, gens, privs⟩ :: acc)
          | none => none
        | _ => none
      | _ => none
    else none
  | _ + 1, _, _ => none

def showCells (r : List (Nat × Option Ent)) : List Str :=
  r.map fun (i, o) => showNat i ++ ['='] ++ (match o with | some e => showNat e | none => "-".toList)

/-- project tokens, then (optionally) "|" and the type records, then "|" and the submodule section -/
def splitTypes (toks : List Str) : List Str × List Str × List Str :=
  let p := toks.span (fun t => !(t == "|".toList))
  let q := (p.2.drop 1).span (fun t => !(t == "|".toList))
  (p.1, q.1, q.2.drop 1)

/-- "I" n ent* "O" m ent* : the interface-body entities and the project's list order of the submodules -/
def parseSubSection : List Str → List Ent × List Ent
  | i :: n :: r =>
    if i == "I".toList then
      match takeNats (natOf n) r [] with
      | some (pairable, o :: m :: r2) =>
        if o == "O".toList then
          match takeNats (natOf m) r2 [] with
          | some (order, _) => (pairable, order)
          | none => (pairable, [])
        else (pairable, [])
      | some (pairable, _) => (pairable, [])
      | none => ([], [])
    else ([], [])
  | _ => ([], [])

/-- fifth / sixth character of the variant: 1 = the parent's tables overwrite the local declarations
    of a submodule; 1 = the parent submodule is looked up by its name alone (code as found) -/
def svOf (s : Str) : SVariant := ⟨(s.drop 4).head? == some '1', (s.drop 5).head? == some '1'⟩

def flattenUnits (reg : BlockReg) (us : List (UKind × BScope)) : List (UKind × Scope) :=
  us.map fun x => (x.1, flatten reg x.2)

def eraseUnits (us : List (UKind × BScope)) : List (UKind × Scope) :=
  us.map fun x => (x.1, eraseBlocks x.2)

end C07Wire

namespace C07Wire

/-- the model's answer for one variant of a parsed project (`none` = malformed type records) -/
def runVariant (v : Str) (us : List (UKind × BScope)) (tt : List Str) (pairable order : List Ent) : Option (List Str) :=
  let res := corrProjectS (variantOf v) (svOf v) pairable order PState.empty (flattenUnits (regOf v) us)
  match parseTypes res (tt.length + 1) tt [] with
  | some rs => some (showRes res ++ showCells (genericResD (dropOf v) (sharedOf v) rs) ++ showReg (regOf v) us)
  | none => none

def runSpec (us : List (UKind × BScope)) (tt : List Str) (pairable : List Ent) : Option (List Str) :=
  let res := specProjectS pairable SpecState.empty (eraseUnits us)
  match parseTypes res (tt.length + 1) tt [] with
  | some rs => some (showRes res ++ showCells (specGenericRes [] rs))
  | none => none

/-- answers for several variants and the specification, each introduced by "#" and its name -/
def runMany (us : List (UKind × BScope)) (tt : List Str) (pairable order : List Ent) : List Str → Option (List Str)
  | [] => (runSpec us tt pairable).map fun r => "#".toList :: "spec".toList :: r
  | v :: vs =>
    match runVariant v us tt pairable order, runMany us tt pairable order vs with
    | some r, some rest => some ("#".toList :: v :: (r ++ rest))
    | _, _ => none

end C07Wire

/-! ### accessibility stream (`c07.access`) -/
namespace C07Access
open ScopeAccess C07Wire

def permOf (s : Str) : Perm := if s == "v".toList then .priv else .pub
def attrOf (s : Str) : Option Perm :=
  if s == "v".toList then some .priv else if s == "p".toList then some .pub else none
def dkOf (s : Str) : DK :=
  if s == "t".toList then .ty else if s == "g".toList then .gi else if s == "a".toList then .ab else .pr

def takeStmts : Nat → List Str → List (Perm × Str) → Option (List (Perm × Str) × List Str)
  | 0, r, acc => some (acc.reverse, r)
  | n + 1, p :: nm :: r, acc => takeStmts n r ((permOf p, nm) :: acc)
  | _ + 1, _, _ => none

/-- body of a module: ( U ... | D kind name ent attr | X id kind name )* ")" -/
def parseMod : Nat → List Str → AModule → Option (AModule × List Str)
  | 0, _, _ => none
  | fuel + 1, toks, m =>
    match toks with
    | [] => none
    | t :: r =>
      if t == ")".toList then
        some ({ m with uses := m.uses.reverse, decls := m.decls.reverse, slots := m.slots.reverse }, r)
      else if t == "U".toList then
        match r with
        | md :: fl :: n :: r2 =>
          match takePairs (natOf n) r2 [] with
          | some (ps, r3) => parseMod fuel r3 { m with uses := ⟨md, fl == "o".toList, ps⟩ :: m.uses }
          | none => none
        | _ => none
      else if t == "D".toList then
        match r with
        | k :: nm :: e :: a :: r2 => parseMod fuel r2 { m with decls := ⟨dkOf k, nm, natOf e, attrOf a⟩ :: m.decls }
        | _ => none
      else if t == "X".toList then
        match r with
        | i :: k :: nm :: r2 => parseMod fuel r2 { m with slots := ⟨natOf i, skOf k, .early, nm⟩ :: m.slots }
        | _ => none
      else none

/-- project := ( "M" name dflt nstmts (perm name)* body )* -/
def parseMods : Nat → List Str → List AModule → Option (List AModule)
  | 0, _, _ => none
  | _ + 1, [], acc => some acc.reverse
  | fuel + 1, t :: r, acc =>
    if t == "M".toList then
      match r with
      | nm :: df :: n :: r2 =>
        match takeStmts (natOf n) r2 [] with
        | some (st, r3) =>
          match parseMod fuel r3 ⟨nm, permOf df, st, [], [], []⟩ with
          | some (m, r4) => parseMods fuel r4 (m :: acc)
          | none => none
        | none => none
      | _ => none
    else none

def showTable (tag : Str) (tb : Scope.Table) : List Str :=
  (Scope.dictItems tb).map fun ke => tag ++ [':'] ++ ke.1 ++ ['='] ++ showNat ke.2

/-- the public tables of every module: `e<k>p:<name>=<ent>` ... -/
def showExports : Nat → List Scope.Exports → List Str
  | _, [] => []
  | k, x :: r =>
    showTable (['e'] ++ showNat k ++ ['p']) x.p ++ showTable (['e'] ++ showNat k ++ ['a']) x.a ++
      showTable (['e'] ++ showNat k ++ ['t']) x.t ++ showExports (k + 1) r

end C07Access

open C07Wire in
def dispatchC07 : List Str → Option (List Str)
  | cmd :: args =>
    if cmd == "c07.multi".toList then
      -- c07.multi <n> <variant>*n <project tokens> [| <type records> [| <submodule section>]]
      match args with
      | n :: rest =>
        let vs := rest.take (natOf n)
        let (toks, tt, st) := splitTypes (rest.drop (natOf n))
        let (pairable, order) := parseSubSection st
        match parseProject (toks.length + 1) toks [] with
        | some us =>
          match runMany us tt pairable order vs with
          | some r => some ("ok".toList :: r)
          | none => some ["bad-types".toList]
        | none => some ["bad-project".toList]
      | _ => some ["bad-request".toList]
    else if cmd == "c07.run".toList then
      -- c07.run <variant: six chars 0/1 = alias, hostOverLocal, blockUse, sharedSpecifics, ancOverLocal,
      --   parentByName> <project tokens> [| <type records> [| <submodule section>]]
      match args with
      | v :: all =>
        let (toks, tt, st) := splitTypes all
        let (pairable, order) := parseSubSection st
        match parseProject (toks.length + 1) toks [] with
        | some us =>
          let res := corrProjectS (variantOf v) (svOf v) pairable order PState.empty (flattenUnits (regOf v) us)
          match parseTypes res (tt.length + 1) tt [] with
          | some rs =>
            some ("ok".toList :: (showRes res ++ showCells (genericResD (dropOf v) (sharedOf v) rs) ++ showReg (regOf v) us))
          | none => some ["bad-types".toList]
        | none => some ["bad-project".toList]
      | _ => some ["bad-request".toList]
    else if cmd == "c07.spec".toList then
      match args with
      | all =>
        let (toks, tt, st) := splitTypes all
        let (pairable, _) := parseSubSection st
        match parseProject (toks.length + 1) toks [] with
        | some us =>
          let res := specProjectS pairable SpecState.empty (eraseUnits us)
          match parseTypes res (tt.length + 1) tt [] with
          | some rs => some ("ok".toList :: (showRes res ++ showCells (specGenericRes [] rs)))
          | none => some ["bad-types".toList]
        | none => some ["bad-project".toList]
    else if cmd == "c07.access".toList then
      -- c07.access <s = specification | 0|1 = the constructor gets its type's accessibility before the public tables are derived> <tokens>
      match args with
      | v :: toks =>
        match C07Access.parseMods (toks.length + 1) toks [] with
        | some ms =>
          if v == "s".toList then some ("ok".toList :: showRes (ScopeAccess.specProjectA [] ms))
          else
            let av : ScopeAccess.AVariant := ⟨v == "1".toList⟩
            some ("ok".toList :: (showRes (ScopeAccess.corrProjectA av [] ms) ++
              C07Access.showExports 0 (ScopeAccess.exportsProjectA av [] ms)))
        | none => some ["bad-project".toList]
      | _ => some ["bad-request".toList]
    else none
  | [] => none

end Ford
