import FordModel.Proto
import FordModel.Scope
import FordModel.ScopeSpec
namespace Ford
open Proto Scope

namespace C07Wire

/-- accumulated body of a scope while its tokens are read -/
structure Body where
  uses : List Use := []
  decls : List Decl := []
  slots : List Slot := []
  kids : List Scope.Scope := []

def kidsOfList : List Scope.Scope → Kids
  | [] => .nil
  | s :: r => .cons s (kidsOfList r)

def nsOf (s : Str) : NS := if s == "t".toList then .ty else if s == "a".toList then .ab else .pr
def skOf (s : Str) : SK := if s == "ty".toList then .ty else if s == "pa".toList then .pa else .pr
def phOf (s : Str) : Phase := if s == "e".toList then .early else .late

def takePairs : Nat → List Str → List (Str × Str) → Option (List (Str × Str) × List Str)
  | 0, r, acc => some (acc.reverse, r)
  | n + 1, l :: rm :: r, acc => takePairs n r ((l, rm) :: acc)
  | _ + 1, _, _ => none

/-- recursive descent with fuel (the token list is finite; fuel = its length) -/
def parseBody : Nat → List Str → Body → Option (Body × List Str)
  | 0, _, _ => none
  | fuel + 1, toks, b =>
    match toks with
    | [] => none
    | t :: r =>
      if t == ")".toList then some (b, r)
      else if t == "U".toList then
        match r with
        | m :: fl :: n :: r2 =>
          -- U <module> <o = ONLY list | a = no ONLY> <number of items> (<local> <remote>)*
          match takePairs (natOf n) r2 [] with
          | some (ps, r3) => parseBody fuel r3 { b with uses := ⟨m, fl == "o".toList, ps⟩ :: b.uses }
          | none => none
        | _ => none
      else if t == "D".toList then
        match r with
        | ns :: nm :: e :: r2 => parseBody fuel r2 { b with decls := ⟨nsOf ns, nm, natOf e⟩ :: b.decls }
        | _ => none
      else if t == "X".toList then
        match r with
        | i :: k :: ph :: nm :: r2 =>
          parseBody fuel r2 { b with slots := ⟨natOf i, skOf k, phOf ph, nm⟩ :: b.slots }
        | _ => none
      else if t == "(".toList then
        match r with
        | nm :: e :: f :: r2 =>
          match parseBody fuel r2 {} with
          | some (cb, r3) =>
            let s := Scope.Scope.mk nm (natOf e) (f == "1".toList) cb.uses.reverse cb.decls.reverse
              cb.slots.reverse (kidsOfList cb.kids.reverse)
            parseBody fuel r3 { b with kids := s :: b.kids }
          | none => none
        | _ => none
      else none

/-- project := ( ("M" | "N") scope )* ; every scope is "(" name ent isFunc body ")" -/
def parseProject : Nat → List Str → List (Bool × Scope.Scope) → Option (List (Bool × Scope.Scope))
  | 0, _, _ => none
  | _ + 1, [], acc => some acc.reverse
  | fuel + 1, flag :: toks, acc =>
    match toks with
    | op :: nm :: e :: f :: r2 =>
      if op == "(".toList then
        match parseBody (r2.length + 1) r2 {} with
        | some (cb, r3) =>
          let s := Scope.Scope.mk nm (natOf e) (f == "1".toList) cb.uses.reverse cb.decls.reverse
            cb.slots.reverse (kidsOfList cb.kids.reverse)
          parseProject fuel r3 ((flag == "M".toList, s) :: acc)
        | none => none
      else none
    | _ => none

def showRes (r : Res) : List Str :=
  r.map fun (sl, o) => showNat sl.id ++ ['='] ++ (match o with | some e => showNat e | none => "-".toList)

def variantOf (s : Str) : Variant :=
  ⟨(s.head? == some '1'), ((s.drop 1).head? == some '1')⟩

end C07Wire

open C07Wire in
def dispatchC07 : List Str → Option (List Str)
  | cmd :: args =>
    if cmd == "c07.run".toList then
      -- c07.run <variant: two chars 0/1 = alias, hostOverLocal> <project tokens>
      match args with
      | v :: toks =>
        match parseProject (toks.length + 1) toks [] with
        | some us => some ("ok".toList :: showRes (corrProject (variantOf v) [] us))
        | none => some ["bad-project".toList]
      | _ => some ["bad-request".toList]
    else if cmd == "c07.spec".toList then
      match args with
      | toks =>
        match parseProject (toks.length + 1) toks [] with
        | some us => some ("ok".toList :: showRes (specProject [] us))
        | none => some ["bad-project".toList]
    else none
  | [] => none

end Ford
