import FordModel.Proto
import FordModel.External
import FordModel.ExternalGraph
import FordModel.ExternalAssoc
import FordModel.ExternalChild
import FordModel.ExternalHref
namespace Ford
open Proto Ext

/-! Token (prefix) encoding of trees, one token per protocol field.

  Json : `n` | `t` | `f` | `#<nat>` | `s<text>` | `[<count>` item* | `{<count>` (key item)*
  Ent  : `X` | `T<text>` | `N` name url|`-` obj proctype|`-` `<count>` (key attr)*
  Attr : `L<count>` ent* | `D<count>` (key ent)* | `S<repr>`
  In `N`, url and proctype fields are `-` for None, otherwise `+<text>`.
-/
namespace C16

partial def decJson : List Str → Option (Json × List Str)
  | [] => none
  | tok :: rest =>
    match tok with
    | ['n'] => some (.null, rest)
    | ['t'] => some (.bool true, rest)
    | ['f'] => some (.bool false, rest)
    | '#' :: d => some (.num (natOf d), rest)
    | 's' :: t => some (.str t, rest)
    | '[' :: d =>
      let rec items (n : Nat) (acc : List Json) (r : List Str) : Option (List Json × List Str) :=
        match n with
        | 0 => some (acc.reverse, r)
        | n + 1 => match decJson r with
          | some (j, r') => items n (j :: acc) r'
          | none => none
      match items (natOf d) [] rest with
      | some (xs, r) => some (.arr xs, r)
      | none => none
    | '{' :: d =>
      let rec pairs (n : Nat) (acc : List (Str × Json)) (r : List Str) : Option (List (Str × Json) × List Str) :=
        match n, r with
        | 0, r => some (acc.reverse, r)
        | n + 1, k :: r1 => match decJson r1 with
          | some (j, r') => pairs n ((k, j) :: acc) r'
          | none => none
        | _ + 1, [] => none
      match pairs (natOf d) [] rest with
      | some (kvs, r) => some (.obj kvs, r)
      | none => none
    | _ => none

def optField : Str → Option Str
  | '+' :: t => some t
  | _ => none

mutual
partial def decEnt : List Str → Option (Ent × List Str)
  | [] => none
  | tok :: rest =>
    match tok with
    | ['X'] => some (.ext, rest)
    | 'T' :: t => some (.text t, rest)
    | ['N'] =>
      match rest with
      | name :: url :: obj :: pt :: cnt :: r =>
        match decAttrs (natOf cnt) [] r with
        | some (attrs, r') => some (.node name (optField url) obj (optField pt) attrs, r')
        | none => none
      | _ => none
    | _ => none
partial def decAttrs (n : Nat) (acc : List (Str × Attr)) (r : List Str) : Option (List (Str × Attr) × List Str) :=
  match n, r with
  | 0, r => some (acc.reverse, r)
  | n + 1, k :: tok :: r1 =>
    match tok with
    | 'S' :: t => decAttrs n ((k, .scalar t) :: acc) r1
    | 'L' :: d =>
      match decEnts (natOf d) [] r1 with
      | some (xs, r2) => decAttrs n ((k, .list xs) :: acc) r2
      | none => none
    | 'D' :: d =>
      match decKEnts (natOf d) [] r1 with
      | some (xs, r2) => decAttrs n ((k, .dict xs) :: acc) r2
      | none => none
    | _ => none
  | _, _ => none
partial def decEnts (n : Nat) (acc : List Ent) (r : List Str) : Option (List Ent × List Str) :=
  match n with
  | 0 => some (acc.reverse, r)
  | n + 1 => match decEnt r with
    | some (e, r') => decEnts n (e :: acc) r'
    | none => none
partial def decKEnts (n : Nat) (acc : List (Str × Ent)) (r : List Str) : Option (List (Str × Ent) × List Str) :=
  match n, r with
  | 0, r => some (acc.reverse, r)
  | n + 1, k :: r1 => match decEnt r1 with
    | some (e, r') => decKEnts n ((k, e) :: acc) r'
    | none => none
  | _ + 1, [] => none
end

partial def encJson : Json → List Str
  | .null => [['n']]
  | .bool true => [['t']]
  | .bool false => [['f']]
  | .num n => [('#' :: showNat n)]
  | .str s => [('s' :: s)]
  | .arr xs => ('[' :: showNat xs.length) :: (xs.map encJson).flatten
  | .obj kvs => ('{' :: showNat kvs.length) :: (kvs.map (fun kv => kv.1 :: encJson kv.2)).flatten

/-- coarse one-field rendering of a JSON value used for names / urls in entries -/
def renderJ : Json → Str
  | .null => "null".toList
  | .bool true => "true".toList
  | .bool false => "false".toList
  | .num n => '#' :: showNat n
  | .str s => 's' :: ':' :: s
  | .arr _ => "arr".toList
  | .obj _ => "obj".toList

def renderOpt : Option Json → Str
  | none => "-".toList
  | some j => renderJ j

def encEntries : List Entry → List Str
  | [] => []
  | e :: r => e.list :: e.cls :: renderJ e.name :: renderJ e.url :: renderOpt e.parent :: encEntries r

/-- `attr:key1,key2;` for every dict-valued attribute of an imported object -/
def dictKeys : List (Str × XAttr) → Str
  | [] => []
  | (k, .dict kvs) :: r => k ++ ':' :: joinSep ',' (kvs.map (·.1)) ++ ';' :: dictKeys r
  | _ :: r => dictKeys r

mutual
/-- the dict keys of every imported object, in the order of `entriesOf` -/
partial def keysPre : XObj → List Str
  | .text _ => []
  | .node _ _ _ _ _ attrs => dictKeys attrs :: (attrs.map (fun kv => keysAttr kv.2)).flatten
partial def keysAttr : XAttr → List Str
  | .list xs => (xs.map keysPre).flatten
  | .dict kvs => (kvs.map (fun kv => keysPre kv.2)).flatten
  | .scalar _ => []
end

def encEntriesK : List Entry → List Str → List Str
  | e :: r, k :: ks => e.list :: e.cls :: renderJ e.name :: renderJ e.url :: renderOpt e.parent :: k :: encEntriesK r ks
  | _, _ => []

/-- `remote` = `1`: `url` is the URL as written in `external:` (the model normalises it itself);
    `2`: the base is taken as it is (un-normalised, for `urljoin` alone); `0`: resolved local directory -/
def baseOf (remote url : Str) : Base :=
  if remote == ['1'] then remoteBase url
  else { remote := remote == ['2'], url := url }

def errOut (e : XErr) : List Str := ["err".toList, xerrName e]

def decNamed : Nat → List Str → List Named → Option (List Named × List Str)
  | 0, r, acc => some (acc.reverse, r)
  | n + 1, nm :: ex :: r, acc => decNamed n r ({ name := nm, ext := ex == ['1'] } :: acc)
  | _ + 1, _, _ => none

def decColls : Nat → List Str → Colls → Option Colls
  | 0, _, acc => some acc.reverse
  | n + 1, c :: cnt :: r, acc =>
    match decNamed (natOf cnt) r [] with
    | some (xs, r') => decColls n r' ((c, xs) :: acc)
    | none => none
  | _ + 1, _, _ => none

def showNamed : Option Named → List Str
  | none => ["none".toList]
  | some x => ["some".toList, x.name, if x.ext then ['1'] else ['0']]

/-- `<remote> <url> failed <exc>` | `<remote> <url> got json`, n times -/
partial def decProjects : Nat → List Str → List (Base × Fetch) → Option (List (Base × Fetch))
  | 0, [], acc => some acc.reverse
  | 0, _ :: _, _ => none
  | n + 1, rem :: url :: kind :: r, acc =>
    if kind == "failed".toList then
      match r with
      | e :: r' => decProjects n r' ((baseOf rem url, .failed e) :: acc)
      | [] => none
    else
      match decJson r with
      | some (doc, r') => decProjects n r' ((baseOf rem url, .got doc) :: acc)
      | none => none
  | _ + 1, _, _ => none

/-! `c16.assoc`: modules of B that use modules of A (directly or through modules of B).

  table := <count> key*                      (B's own entities: only the key matters)
  spec  := `A` | `O<count>` (local orig)* | `R<count>` (local orig)*
  mod   := name <public 0|1> <count> listed* table*4 (ownPub) table*4 (ownAll) <count> (target spec)*
-/
def ownItem (k : Str) : Item := { ext := false, cls := "local".toList, name := .str k, url := .null }

def decTbl : List Str → Option (Tbl × List Str)
  | cnt :: r =>
    let n := natOf cnt
    if r.length < n then none else some ((r.take n).map (fun k => (k, ownItem k)), r.drop n)
  | [] => none

def decPub (r : List Str) : Option (Pub × List Str) :=
  match decTbl r with
  | some (a, r1) => match decTbl r1 with
    | some (b, r2) => match decTbl r2 with
      | some (c, r3) => match decTbl r3 with
        | some (d, r4) => some (⟨a, b, c, d⟩, r4)
        | none => none
      | none => none
    | none => none
  | none => none

def decPairs : Nat → List Str → List (Str × Str) → Option (List (Str × Str) × List Str)
  | 0, r, acc => some (acc.reverse, r)
  | n + 1, a :: b :: r, acc => decPairs n r ((a, b) :: acc)
  | _ + 1, _, _ => none

def decSpec : List Str → Option (Spec × List Str)
  | ['A'] :: r => some (.all, r)
  | ('O' :: d) :: r => (decPairs (natOf d) r []).map (fun x => (.only x.1, x.2))
  | ('R' :: d) :: r => (decPairs (natOf d) r []).map (fun x => (.renaming x.1, x.2))
  | _ => none

def decUses : Nat → List Str → List (Str × Spec) → Option (List (Str × Spec) × List Str)
  | 0, r, acc => some (acc.reverse, r)
  | n + 1, t :: r, acc =>
    match decSpec r with
    | some (sp, r') => decUses n r' ((t, sp) :: acc)
    | none => none
  | _ + 1, [], _ => none

def decBMod : List Str → Option (BMod × List Str)
  | name :: pub :: cnt :: r =>
    let n := natOf cnt
    if r.length < n then none else
    match decPub (r.drop n) with
    | some (op, r1) => match decPub r1 with
      | some (oa, nu :: r2) => match decUses (natOf nu) r2 [] with
        | some (us, r3) => some ({ name := name, isPublic := pub == ['1'], publicList := r.take n, ownPub := op,
                                   ownAll := oa, uses := us }, r3)
        | none => none
      | _ => none
    | none => none
  | _ => none

def decBMods : Nat → List Str → List BMod → Option (List BMod)
  | 0, [], acc => some acc.reverse
  | 0, _ :: _, _ => none
  | n + 1, r, acc =>
    match decBMod r with
    | some (m, r') => decBMods n r' (m :: acc)
    | none => none

/-- the imported entries of a table, in the table's order: `<count> (key class name url)*` -/
def encExtOnly (t : Tbl) : List Str :=
  let xs := t.filter (fun kv => kv.2.ext)
  showNat xs.length :: (xs.map (fun kv => [kv.1, kv.2.cls, renderJ kv.2.name, renderJ kv.2.url])).flatten

def encPubExt (p : Pub) : List Str :=
  encExtOnly p.procs ++ encExtOnly p.absints ++ encExtOnly p.types ++ encExtOnly p.vars

end C16

open C16 in
def dispatchC16 : List Str → Option (List Str)
  | cmd :: args =>
    if cmd == "c16.export".toList then
      match decEnt args with
      | some (e, []) => some ("ok".toList :: encJson (exportE e))
      | _ => some ["bad-request".toList]
    else if cmd == "c16.dump".toList then
      -- c16.dump <version> <count> ent*
      match args with
      | v :: cnt :: r =>
        match decEnts (natOf cnt) [] r with
        | some (ms, []) => some ("ok".toList :: encJson (dumpModules v ms))
        | _ => some ["bad-request".toList]
      | _ => some ["bad-request".toList]
    else if cmd == "c16.import".toList then
      -- c16.import <remote 0|1> <base url> json
      match args with
      | rem :: url :: r =>
        match decJson r with
        | some (doc, []) =>
          match importDoc (baseOf rem url) doc with
          | .ok os => some ("ok".toList :: encEntriesK (entriesAll os) (os.map keysPre).flatten)
          | .error e => some (errOut e)
        | _ => some ["bad-request".toList]
      | _ => some ["bad-request".toList]
    else if cmd == "c16.load".toList then
      -- c16.load <remote> <base> failed <exc>  |  c16.load <remote> <base> got json
      match args with
      | rem :: url :: kind :: r =>
        let f : Option Fetch :=
          if kind == "failed".toList then (match r with | [e] => some (.failed e) | _ => none)
          else match decJson r with
            | some (doc, []) => some (.got doc)
            | _ => none
        match f with
        | some f =>
          match load (baseOf rem url) f with
          | .loaded os => some ["loaded".toList, showNat (entriesAll os).length]
          | .aborted w => some ["aborted".toList, w]
        | none => some ["bad-request".toList]
      | _ => some ["bad-request".toList]
    else if cmd == "c16.loadall".toList then
      -- c16.loadall <count> (<remote> <url> failed <exc> | <remote> <url> got json)*
      match args with
      | cnt :: r =>
        match decProjects (natOf cnt) r [] with
        | some ps =>
          match loadAll ps with
          | .loaded os => some ("ok".toList :: encEntriesK (entriesAll os) (os.map keysPre).flatten)
          | .aborted w => some ["err".toList, w]
        | none => some ["bad-request".toList]
      | _ => some ["bad-request".toList]
    else if cmd == "c16.rebase".toList then
      match args with
      | [rem, url, s] => some ["ok".toList, rebase (baseOf rem url) (afterFirstSlash s)]
      | _ => some ["bad-request".toList]
    else if cmd == "c16.index".toList then
      -- c16.index <written url>  ->  is it remote, the URL fetched, the base handed to dict2obj
      match args with
      | [u] =>
        if isRemote u then some ["ok".toList, ['1'], indexUrl u, (remoteBase u).url]
        else some ["ok".toList, ['0'], ['-'], ['-']]   -- a local path: nothing is fetched through urlopen
      | _ => some ["bad-request".toList]
    else if cmd == "c16.node".toList then
      -- c16.node =<parent_dir> <external 0|1> <class> =<name> <+url|-> <visible 0|1>  ->  none | some <URL of the node>
      match args with
      | [pd, ext, cls, nm, url, vis] =>
        match nodeUrl (pd.drop 1) { external := ext == ['1'], cls := cls, name := nm.drop 1, url := optField url,
                                    visible := vis == ['1'] } with
        | none => some ["none".toList]
        | some u => some ["some".toList, u]
      | _ => some ["bad-request".toList]
    else if cmd == "c16.assoc".toList then
      -- c16.assoc <remote> <base> json <count> mod*  ->  ok (name table*8)* : the imported entries of pub_* / all_*
      match args with
      | rem :: url :: r =>
        match decJson r with
        | some (doc, cnt :: r') =>
          match decBMods (natOf cnt) r' [] with
          | some ms =>
            match importDoc (baseOf rem url) doc with
            | .ok os =>
              some ("ok".toList :: ((correlateAll (extModulesOf os) ms []).map
                (fun x => x.1 :: (encPubExt x.2.1 ++ encPubExt x.2.2))).flatten)
            | .error e => some (errOut e)
          | none => some ["bad-request".toList]
        | _ => some ["bad-request".toList]
      | _ => some ["bad-request".toList]
    else if cmd == "c16.child".toList then
      -- c16.child <remote> <base> <module index> <attr|-> <index> =<name> <+kind|-> json
      --   -> importerr | nav | err <class> | none | some <class key> <name> <url>
      match args with
      | rem :: url :: mi :: attr :: si :: nm :: kd :: r =>
        match decJson r with
        | some (doc, []) =>
          match importDoc (baseOf rem url) doc with
          | .error _ => some ["importerr".toList]
          | .ok os =>
            let target : Option XObj :=
              match os[natOf mi]? with
              | none => none
              | some m =>
                if attr == ['-'] then some m else
                match m with
                | .node _ _ _ _ _ attrs =>
                  (match attrs.lookup attr with
                   | some (.list xs) => xs[natOf si]?
                   | _ => none)
                | .text _ => none
            match target with
            | none => some ["nav".toList]
            | some t =>
              match xFindChild t (nm.drop 1) (optField kd) with
              | .error .valueError => some ["err".toList, "ValueError".toList]
              | .error .typeError => some ["err".toList, "TypeError".toList]
              | .error .attrError => some ["err".toList, "AttributeError".toList]
              | .ok none => some ["none".toList]
              | .ok (some (.node cls n u _ _ _)) => some ["some".toList, cls, renderJ n, renderJ u]
              | .ok (some (.text _)) => some ["some".toList, "text".toList]
        | _ => some ["bad-request".toList]
      | _ => some ["bad-request".toList]
    else if cmd == "c16.pfind".toList then
      -- c16.pfind <remote> <base> =<name> <+kind|-> <+child|-> <+child kind|-> <link 0|1> json
      --   -> importerr | err <class> | none | some <class key> <name> <url>      (link = 1: with convert_link's fall-back)
      match args with
      | rem :: url :: nm :: kd :: ch :: ck :: lk :: r =>
        match decJson r with
        | some (doc, []) =>
          match importDoc (baseOf rem url) doc with
          | .error _ => some ["importerr".toList]
          | .ok os =>
            let res := if lk == ['1'] then xConvertLink os (nm.drop 1) (optField kd) (optField ch) (optField ck)
                       else xProjectFind os (nm.drop 1) (optField kd) (optField ch) (optField ck)
            match res with
            | .error .valueError => some ["err".toList, "ValueError".toList]
            | .error .typeError => some ["err".toList, "TypeError".toList]
            | .error .attrError => some ["err".toList, "AttributeError".toList]
            | .ok none => some ["none".toList]
            | .ok (some (.node cls n u _ _ _)) => some ["some".toList, cls, renderJ n, renderJ u]
            | .ok (some (.text _)) => some ["some".toList, "text".toList]
        | _ => some ["bad-request".toList]
      | _ => some ["bad-request".toList]
    else if cmd == "c16.href".toList then
      -- c16.href <output dir> <working dir> <U<context url> | P<path> | N> =<str(get_url()) of the item>  ->  ok <href>
      match args with
      | [base, cwd, pg, item] =>
        let page : PageOf :=
          match pg with
          | 'U' :: u => .context (pathSegs u)
          | 'P' :: q => .path (pathSegs q)
          | _ => .unknown
        some ["ok".toList, hrefOf (pathSegs base) (pathSegs cwd) page (item.drop 1)]
      | _ => some ["bad-request".toList]
    else if cmd == "c16.rewrite".toList then
      -- c16.rewrite json  ->  the document as a successful conversion leaves it
      match decJson args with
      | some (doc, []) => some ("ok".toList :: encJson (rewriteDoc doc))
      | _ => some ["bad-request".toList]
    else if cmd == "c16.use".toList then
      -- c16.use <name> <nLocal> (name ext)* <nExt> (name ext)*
      match args with
      | nm :: nl :: r =>
        match decNamed (natOf nl) r [] with
        | some (ls, ne :: r') =>
          match decNamed (natOf ne) r' [] with
          | some (es, []) => some (showNamed (resolveUse nm ls es))
          | _ => some ["bad-request".toList]
        | _ => some ["bad-request".toList]
      | _ => some ["bad-request".toList]
    else if cmd == "c16.find".toList then
      -- c16.find <name> <entity|-> <nColls> (coll count (name ext)*)*
      match args with
      | nm :: ent :: nc :: r =>
        match decColls (natOf nc) r [] with
        | some p =>
          match projectFind p nm (if ent == ['-'] then none else some ent) with
          | none => some ["valueerror".toList]
          | some res => some (showNamed res)
        | none => some ["bad-request".toList]
      | _ => some ["bad-request".toList]
    else none
  | [] => none

end Ford
