import FordModel.Proto
import FordModel.Reader
import FordModel.Fixed
import FordModel.FixedTree
import FordModel.FixedProject
import FordModel.Dispatch.C02
namespace Ford
open Proto Fixed

def bstr (b : Bool) : Str := if b then ['1'] else ['0']

/-- the `<var>` field: three characters `0`/`1` = `blankShort`, `col7Comment`, `spacedExcess`
    (anything else = the code as it is) -/
def parseVariant : Str → Variant
  | [a, b, c] => { blankShort := a == '1', col7Comment := b == '1', spacedExcess := c == '1' }
  | _ => {}

/-- driver commands of C14 (`<var>` = variant of the code under test, decided by the harness):
    `c14.conv <var> <lim> line*`      -> `ok` converted-line*
    `c14.analyse <var> <lim> line`    -> `ok` conv regular cont long excess
    `c14.read <var> <doc> <pre> <alt> <preAlt> <lim> line*`
                                      -> `ok` item* | `err` kind   (reader after converter)
    `c14.readtree <var> <doc> <pre> <alt> <preAlt> <fixed> <lim> <nfiles> (<name> <n> line*n)*nfiles main-line*`
                                      -> `ok` item* | `err` kind
                                         (reader with include expansion over the given files;
                                          `<fixed>` = 1: every file goes through the converter)
    `c14.form <ext> <n> extension*n fixed-extension*`
                                      -> `ok` `fixed` | `free` | `none`   (form selected for a file)
    `c14.cfg <ext> <preprocess> <limit-setting> <n1> extension*n1 <n2> fixed-extension*n2 fpp-extension*`
                                      -> `ok` `none` | `ok` fixed lim pp inc-fixed inc-lim inc-pp
                                         (constructor arguments of the reader of the file / of its INCLUDEd files)
    `c14.readprj <var> <doc> <pre> <alt> <preAlt> <fixed> <lim> <pp> <nfiles> (<name> <n> line*n)*nfiles main-line*`
                                      -> `ok` item* | `err` kind   (`readProjectFile`, identity preprocessor) -/
def dispatchC14 : List Str → Option (List Str)
  | cmd :: args =>
    if cmd == "c14.conv".toList then
      match args with
      | v :: lim :: lines => some ("ok".toList :: convertToFree (parseVariant v) (lim == ['1']) lines)
      | _ => some ["bad-request".toList]
    else if cmd == "c14.analyse".toList then
      match args with
      | [v, lim, line] =>
        let f := analyse (parseVariant v) (lim == ['1']) line
        some ["ok".toList, f.conv, bstr f.regular, bstr f.cont, bstr f.long, f.excess]
      | _ => some ["bad-request".toList]
    else if cmd == "c14.read".toList then
      match args with
      | v :: d :: p :: a :: pa :: lim :: lines =>
        match readAll { doc := d, pre := p, alt := a, preAlt := pa }
                ((convertToFree (parseVariant v) (lim == ['1']) lines).map dropNL) with
        | .ok items => some ("ok".toList :: items)
        | .error e => some ["err".toList, rerrName e]
      | _ => some ["bad-request".toList]
    else if cmd == "c14.readtree".toList then
      match args with
      | v :: d :: p :: a :: pa :: fx :: lim :: nf :: rest =>
        match parseFiles (natOf nf) rest with
        | none => some ["bad-request".toList]
        | some (fs, main) =>
          let m : Marks := { doc := d, pre := p, alt := a, preAlt := pa }
          let r := if fx == ['1'] then readFixedTree Include.readerCfg (parseVariant v) (lim == ['1']) m fs 8 main
                   else readFreeTree Include.readerCfg m fs 8 main
          match r with
          | .ok items => some ("ok".toList :: items)
          | .error e => some ["err".toList, ierrName e]
      | _ => some ["bad-request".toList]
    else if cmd == "c14.form".toList then
      match args with
      | ext :: n :: rest =>
        match sourceForm (rest.take (natOf n)) (rest.drop (natOf n)) ext with
        | some true => some ["ok".toList, "fixed".toList]
        | some false => some ["ok".toList, "free".toList]
        | none => some ["ok".toList, "none".toList]
      | _ => some ["bad-request".toList]
    else if cmd == "c14.cfg".toList then
      match args with
      | ext :: pre :: lim :: n1 :: rest =>
        let exts := rest.take (natOf n1)
        match rest.drop (natOf n1) with
        | n2 :: rest2 =>
          let s : ProjSettings := { extensions := exts, fixedExtensions := rest2.take (natOf n2),
                                    fppExtensions := effectiveFpp (pre == ['1']) (rest2.drop (natOf n2)),
                                    lengthLimit := lim == ['1'] }
          match fileCfg s ext with
          | none => some ["ok".toList, "none".toList]
          | some c =>
            let i := includeCfg c
            some ["ok".toList, bstr c.fixed, bstr c.lim, bstr c.pp, bstr i.fixed, bstr i.lim, bstr i.pp]
        | _ => some ["bad-request".toList]
      | _ => some ["bad-request".toList]
    else if cmd == "c14.readprj".toList then
      match args with
      | v :: d :: p :: a :: pa :: fx :: lim :: pp :: nf :: rest =>
        match parseFiles (natOf nf) rest with
        | none => some ["bad-request".toList]
        | some (fs, main) =>
          let m : Marks := { doc := d, pre := p, alt := a, preAlt := pa }
          let c : ReaderCfg := { fixed := fx == ['1'], lim := lim == ['1'], pp := pp == ['1'] }
          match readProjectFile Include.readerCfg (parseVariant v) c m id fs 8 main with
          | .ok items => some ("ok".toList :: items)
          | .error e => some ["err".toList, ierrName e]
      | _ => some ["bad-request".toList]
    else none
  | [] => none

end Ford
