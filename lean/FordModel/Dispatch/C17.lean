import FordModel.Proto
import FordModel.PageTree
import FordModel.PageTreeSpec
import FordModel.PageAlias
namespace Ford
open Proto
open Ford.PT

namespace C17D

def US : Char := '\x1f'
def RS : Char := '\x1e'
def GS : Char := '\x1d'

def splitOn (c : Char) (s : Str) : List Str :=
  let rec go : Str → Str → List Str
    | [], cur => [cur.reverse]
    | d :: ds, cur => if d == c then cur.reverse :: go ds [] else go ds (d :: cur)
  go s []

def splitList (c : Char) (s : Str) : List Str := if s.isEmpty then [] else splitOn c s

/-- `name<GS>value` pairs, `RS`-separated -/
def parseAliases (s : Str) : List (Str × Str) :=
  (splitList RS s).map (fun kv => match splitOn GS kv with
    | [k, v] => (k, v)
    | _ => (kv, []))

def parseLink (s : Str) : Link :=
  match splitOn GS s with
  | [a, r] => { alias := a, rest := r }
  | _ => { alias := [], rest := s }

/-- tokens: `D<US>name`, `E`, `F<US>name<US>(t|n)<US>title<US>ordered<US>copy<US>links<US>wenc`
    (`wenc` = the encoding the file is written in, empty for a pure ASCII file) -/
def parseEntries : Nat → List Str → List RawEntry × List Str
  | 0, ts => ([], ts)
  | _, [] => ([], [])
  | fuel + 1, t :: ts =>
    match splitOn US t with
    | [['E']] => ([], ts)
    | [['D'], name] =>
      let (cs, rest) := parseEntries fuel ts
      let (sibs, rest2) := parseEntries fuel rest
      (.dir name cs :: sibs, rest2)
    | [['F'], name, tf, title, ord, cp, lk, wenc] =>
      let (sibs, rest) := parseEntries fuel ts
      (.file name wenc { title := if tf == ['t'] then some title else none,
                         ordered := splitList RS ord, copySub := splitList RS cp,
                         links := (splitList RS lk).map parseLink } :: sibs, rest)
    | _ => ([], ts)

def parseTree (ts : List Str) : List RawEntry := (parseEntries (ts.length + 1) ts).1

def parseVariant (s : Str) : Variant :=
  { cc := if startsWith s "ignored".toList then .ignored else .asIs,
    mo := if s.reverse.take 5 == "skips".toList.reverse then .skips else .raises }

def absPath (s : Str) : PathS := (splitSlash s).filter (fun x => !x.isEmpty)

def joinL (c : Char) (l : List Str) : Str := joinSep c l

def showNode (base cwd : PathS) (top n : Node) : Str :=
  joinL US [ showPath n.path, n.title,
             joinL RS (n.hier.map (fun h => showPath (h.1 ++ [htmlName Gen.C17.indexName]))),
             joinL RS n.files, joinL RS n.copySub,
             joinL RS (navHrefs base top n), joinL RS (crumbHrefs base n),
             joinL RS (bodyHrefs base cwd n), topNavHref base top n ]

def showOut (p : PathS × Bool) : Str := if p.2 then showPath p.1 ++ ['/'] else showPath p.1

end C17D
open C17D

def dispatchC17 : List Str → Option (List Str)
  | cmd :: args =>
    if cmd == "c17.tree".toList then
      match args with
      | v :: base :: cwd :: enc :: pcs :: toks =>
        let b := absPath base
        let c := absPath cwd
        match getPageTreeProj CallSites.gen (parseVariant v) enc (splitList RS pcs) (parseTree toks) with
        | .page top =>
          some ("ok".toList :: (preorder top).map (showNode b c top) ++ ["--".toList] ++ (outputs top).map showOut)
        | .abort p => some ["abort".toList, showPath p]
        | _ => some ["none".toList]
      | _ => some ["bad-request".toList]
    else if cmd == "c17.spec".toList then
      match args with
      | enc :: toks => some ("ok".toList :: (expPages (viewL enc (parseTree toks))).map showPath)
      | _ => some ["bad-request".toList]
    else if cmd == "c17.assets".toList then
      match args with
      | enc :: pcs :: toks =>
        some ("ok".toList :: (expAssets (splitList RS pcs) (viewL enc (parseTree toks))).map showOut)
      | _ => some ["bad-request".toList]
    else if cmd == "c17.media".toList then
      match args with
      | has :: toks =>
        let md := if has == ['1'] then some (viewL [] (parseTree toks)) else none
        some ("ok".toList :: (mediaOutputs md).map showOut)
      | _ => some ["bad-request".toList]
    else if cmd == "c17.sort".toList then some ("ok".toList :: sortNames args)
    else if cmd == "c17.merged".toList then
      match args with
      | [ord, ns] => some ("ok".toList :: mergedList (splitList RS ord) (splitList RS ns))
      | _ => some ["bad-request".toList]
    else if cmd == "c17.relpath".toList then
      match args with
      | [t, s] => some ["ok".toList, showPath (relpath (absPath t) (absPath s))]
      | _ => some ["bad-request".toList]
    else if cmd == "c17.norm".toList then
      match args with
      | [t] => some ["ok".toList, showAbs (norm (splitSlash t))]
      | _ => some ["bad-request".toList]
    else if cmd == "c17.name".toList then
      match args with
      | [n] => some ["ok".toList, if isMd n then ['1'] else ['0'], htmlName n, if skipName n then ['1'] else ['0']]
      | _ => some ["bad-request".toList]
    else if cmd == "c17.fix".toList then
      match args with
      | [base, cur, cwd, href] => some ["ok".toList, fixAttrib (absPath base) (absPath cur) (absPath cwd) href]
      | _ => some ["bad-request".toList]
    else if cmd == "c17.alias".toList then
      match args with
      | al :: lines => some ("ok".toList :: PA.aliasRun (parseAliases al) lines)
      | _ => some ["bad-request".toList]
    else if cmd == "c17.guard".toList then
      match args with
      | [topdir, name] => some ["ok".toList, if guardSkips (absPath topdir) name then ['1'] else ['0']]
      | _ => some ["bad-request".toList]
    else none
  | [] => none

end Ford
