import FordModel.Proto
import FordModel.Access
import FordModel.AccessSpec
import FordModel.AccessNames
import FordModel.AccessImpl
import FordModel.AccessPage
namespace Ford
open Proto Access

namespace C04D

def splitOn (c : Char) (s : Str) : List Str :=
  let rec go : Str → Str → List Str
    | [], cur => [cur.reverse]
    | d :: ds, cur => if d == c then cur.reverse :: go ds [] else go ds (d :: cur)
  go s []

def names (s : Str) : List Str := (splitOn ',' s).filter (fun x => !x.isEmpty)

def permOf : Char → Option Perm
  | 'u' => some .pub | 'r' => some .priv | 't' => some .prot | _ => none

def attrOf (c : Char) : Attr := match permOf c with | some p => .acc p | none => .other

def permName : Perm → Str
  | .pub => "public".toList | .priv => "private".toList | .prot => "protected".toList

def catName : Cat → Str
  | .func => "func".toList | .sub => "sub".toList | .type => "type".toList
  | .iface => "iface".toList | .absIface => "absiface".toList | .var => "var".toList

def tstmtOf (s : Str) : Option TStmt :=
  match splitOn '/' s with
  | [['B'], [p]] => (permOf p).map .bare
  | [['K']] => some .contains
  | [['O']] => some .other
  | [['C'], ns, as] => some (.comp (names ns) (as.map attrOf))
  | [['N'], [g], ns, as] => some (.bind (g == '1') (names ns) (as.map attrOf))
  | _ => none

def bodyOf (s : Str) : Option (List TStmt) :=
  if s.isEmpty then some [] else (splitOn '|' s).mapM tstmtOf

def stmtOf (s : Str) : Option Stmt :=
  match splitOn ':' s with
  | [['B'], [p]] => (permOf p).map .bare
  | [['A'], [a], ns] => some (.access (attrOf a) (names ns))
  | [['V'], ns, as] => some (.var (names ns) (as.map attrOf))
  | [['T'], n, as, body] => (bodyOf body).map (.typeDef n (as.map attrOf))
  | [['I'], ['g'], n, ps, rs] => some (.iface .generic n (names ps) (names rs))
  | [['I'], ['a'], n, ps, rs] => some (.iface .abstract n (names ps) (names rs))
  | [['I'], ['p'], n, ps, rs] => some (.iface .plain n (names ps) (names rs))
  | [['S'], n] => some (.proc false n)
  | [['F'], n] => some (.proc true n)
  | [['K']] => some .contains
  | [['O']] => some .other
  | _ => none

def hexVal (c : Char) : Option Nat :=
  if '0' ≤ c ∧ c ≤ '9' then some (c.toNat - '0'.toNat)
  else if 'a' ≤ c ∧ c ≤ 'f' then some (c.toNat - 'a'.toNat + 10)
  else none

/-- a text sent as two hex digits per character (it may contain every separator of the protocol) -/
def unhex : Str → Option Str
  | [] => some []
  | a :: b :: r =>
    match hexVal a, hexVal b, unhex r with
    | some x, some y, some t => some (Char.ofNat (16 * x + y) :: t)
    | _, _, _ => none
  | _ => none

/-- a statement with its name lists as written: `Q:<attr>:<hex name list>`, `W:<hex entity list>:<attrs>`,
    `J:<hex generic-spec>:<procs>:<refs>`; everything else is an abstract statement -/
def rstmtOf (s : Str) : Option RStmt :=
  match splitOn ':' s with
  | [['Q'], [a], raw] => (unhex raw).map (.accessR (attrOf a))
  | [['W'], raw, as] => (unhex raw).map (fun t => .varR t (as.map attrOf))
  | [['J'], raw, ps, rs] => (unhex raw).map (fun t => .genericR t (names ps) (names rs))
  | _ => (stmtOf s).map .plain

/-- `M:<name>`: the body of a separate module procedure in the short form (`module procedure name`); anything else
    is a statement -/
def xstmtOf (s : Str) : Option XStmt :=
  match splitOn ':' s with
  | [['M'], n] => some (.impl n)
  | _ => (rstmtOf s).map .stmt

/-- `H:<name>:<perm>`: an interface body the host (ancestor module / parent submodule) makes visible -/
def hostOf (s : Str) : Option (Str × Perm) :=
  match splitOn ':' s with
  | [['H'], n, [p]] => (permOf p).map (fun q => (n, q))
  | _ => none

def isHost (s : Str) : Bool := s.take 2 == ['H', ':']

def colon (xs : List Str) : Str := joinSep ':' xs

def showEnt (e : Ent) : List Str :=
  [colon [['E'], catName e.cat, e.name, permName e.perm, if e.wrapper then ['w'] else ['-']]]
  ++ e.comps.map (fun k => colon [['C'], e.name, k.name, permName k.perm])
  ++ e.binds.map (fun k => colon [['N'], e.name, k.name, permName k.perm])
  ++ e.procs.map (fun k => colon [['P'], e.name, k.name, permName k.perm])
  ++ e.refs.map (fun k => colon [['R'], e.name, k.name, permName k.perm])

def tabName : Tab → Str
  | .procs => "procs".toList | .vars => "vars".toList | .types => "types".toList | .absints => "absints".toList

def showOut (o : Out) : List Str :=
  o.ents.flatMap showEnt ++ o.publicList.map (fun n => colon [['L'], n])
  ++ o.exports.map (fun x => colon [['X'], tabName x.1, x.2])

def pkindName : PKind → Str
  | .var => "var".toList | .type => "type".toList | .comp => "comp".toList | .bind => "bind".toList
  | .generic => "generic".toList | .member => "member".toList | .ref => "ref".toList | .wrapper => "wrapper".toList
  | .absIface => "absiface".toList | .func => "func".toList | .sub => "sub".toList | .mproc => "mproc".toList

/-- `Z:<kind>:<owner>:<name>:<word or ->`: one place of the module page with a visibility word -/
def showLine (l : PLine) : Str :=
  colon [['Z'], pkindName l.kind, l.owner, l.name, match l.shown with | some p => permName p | none => ['-']]

/-- variant field: `p`/`a` = attr_dict entry deleted per entity / after the loop, followed by `e` when the
    constructor takes its type's permission before the export tables are built and by `s` when process_attribs
    has a loop over the interface bodies of generic interfaces -/
def variantOf (s : Str) : Variant :=
  ⟨if s.contains 'a' then .afterLoop else .perEntity, s.contains 'e', s.contains 's'⟩

end C04D

open C04D in
def dispatchC04 : List Str → Option (List Str)
  | cmd :: args =>
    if cmd == "c04.run".toList then
      -- c04.run <variant> <m|s> stmt*      (variant letter `g`: generic-spec keys lose their blanks; `i`: access
      -- statements reach the short-form bodies of separate module procedures)
      -- fields `H:name:perm` (host interface bodies) and `M:name` (short-form implementations) may stand among them
      match args with
      | v :: scope :: fields =>
        match (fields.filter (fun f => !isHost f)).mapM xstmtOf, (fields.filter isHost).mapM hostOf with
        | some xs, some host =>
          let r := runXI (variantOf v) (v.contains 'g') (scope == ['s']) (v.contains 'i') host xs
          some ("ok".toList :: showOut r.out ++ r.impls.map (fun k => colon [['M'], k.name, permName k.perm])
                ++ (pageView (unitPerm (v.contains 'g') (scope == ['s']) xs) r).map showLine)
        | _, _ => some ["bad-request".toList]
      | _ => some ["bad-request".toList]
    else if cmd == "c04.spec".toList then
      -- c04.spec <attrs> <name> stmt*   (module entity)
      match args with
      | as :: n :: stmts =>
        match stmts.mapM stmtOf with
        | some ss => some ["ok".toList, permName (fortranAccess ss (as.map attrOf) n)]
        | none => some ["bad-request".toList]
      | _ => some ["bad-request".toList]
    else if cmd == "c04.tspec".toList then
      -- c04.tspec <c|b> <attrs> <body>
      match args with
      | [k, as, body] =>
        match bodyOf body with
        | some b => some ["ok".toList, permName (if k == ['c'] then componentAccess b (as.map attrOf) else bindingAccess b (as.map attrOf))]
        | none => some ["bad-request".toList]
      | _ => some ["bad-request".toList]
    else none
  | [] => none

end Ford
