import FordModel.Proto
import FordModel.Escape
import FordModel.Show
import FordModel.AttrStmt
import FordModel.ProcPrefix
import FordModel.DeclLine
import FordModel.SortComp
import FordModel.CharSel
import FordModel.ProcLine
import FordModel.Generated.C18
namespace Ford
open Proto Html Show

/-! request of `c18.sort`: the value of the option `sort`, the number of collections, then per collection its
    attribute name, the number of items and 16 fields per item (name; has permission, permission; obj; is variable,
    vartype, kind, strlen, proto[0]; has proctype, proctype; has retvar, its vartype, kind, strlen, proto[0]).
    Reply: per collection its name, the number of items and the names in the order after `sort_components`. -/
namespace Sort18
open Ford.SortComp

def optS (flag v : Str) : Option Str := if flag == ['1'] then some v else none

def parseItem : List Str → Option (Item × List Str)
  | name :: pf :: pv :: obj :: vf :: vt :: vk :: vl :: vp :: tf :: tv :: rf :: rt :: rk :: rl :: rp :: rest =>
    some ({ name := name, permission := optS pf pv, obj := obj,
            var := if vf == ['1'] then some ⟨vt, vk, vl, vp⟩ else none,
            proctype := optS tf tv,
            retvar := if rf == ['1'] then some ⟨rt, rk, rl, rp⟩ else none }, rest)
  | _ => none

def parseItems : Nat → List Str → Option (List Item × List Str)
  | 0, fs => some ([], fs)
  | n + 1, fs =>
    match parseItem fs with
    | some (it, r) =>
      match parseItems n r with
      | some (its, r') => some (it :: its, r')
      | none => none
    | none => none

def parseColls : Nat → List Str → Option Entity
  | 0, _ => some []
  | n + 1, name :: cnt :: fs =>
    match parseItems (natOf cnt) fs with
    | some (its, r) => (parseColls n r).map ((name, its) :: ·)
    | none => none
  | _ + 1, _ => none

def run (opt ncoll : Str) (fs : List Str) : List Str :=
  match optOf opt, parseColls (natOf ncoll) fs with
  | none, _ => ["keyerror".toList]
  | _, none => ["bad-request".toList]
  | some o, some e =>
    "ok".toList :: ((sortComponents Generated.C18.sortedCollections o e).map fun p =>
      p.1 :: Proto.showNat p.2.length :: p.2.map (·.name)).flatten

end Sort18

/-! request of `c18.procline`: proto, module level, permission, counted attribs, proctype, name, counted argument
    names, has result, result name, bindC.  Reply: the markup of `proc_line` (variant of the RESULT test as regenerated). -/
namespace ProcLine18
open Ford.ProcLine

def takeN : Nat → List Str → Option (List Str × List Str)
  | 0, fs => some ([], fs)
  | n + 1, f :: fs => (takeN n fs).map fun p => (f :: p.1, p.2)
  | _ + 1, [] => none

def run (fs : List Str) : List Str :=
  match fs with
  | proto :: ml :: perm :: na :: rest =>
    match takeN (natOf na) rest with
    | some (attribs, proctype :: name :: nargs :: rest2) =>
      match takeN (natOf nargs) rest2 with
      | some (args, [rf, rn, bind]) =>
        ["ok".toList, procLine Generated.C18.procLineResultCI (proto == ['1'])
          ⟨ml == ['1'], perm, attribs, proctype, name, args, if rf == ['1'] then some rn else none, bind⟩]
      | _ => ["bad-request".toList]
    | _ => ["bad-request".toList]
  | _ => ["bad-request".toList]

end ProcLine18

/-! request of `c18.cleanup`: kind, then counted lists (count first): argument names; the result
    (`-` or `N<name>`); interface procedures; items; attr_dict entries (key, counted attributes);
    param_dict (key, value); variables (name, full_type, permission, intent, optional, parameter,
    dimension, initial `N`/`S<text>`, counted attribs) -/
namespace Cleanup18
open AttrStmt

def readList : List Str → List Str × List Str
  | [] => ([], [])
  | c :: r => (r.take (natOf c), r.drop (natOf c))

def readVars : Nat → List Str → List DVar × List Str
  | 0, xs => ([], xs)
  | n + 1, nm :: ft :: pe :: it :: op :: pa :: dm :: ini :: rest =>
    let a := readList rest
    let v : DVar := ⟨nm, ft, pe, it, op == ['1'], pa == ['1'], a.1, dm,
                     match ini with | 'S' :: t => some t | _ => none⟩
    let r := readVars n a.2
    (v :: r.1, r.2)
  | _, xs => ([], xs)

def readDict : Nat → List Str → Dict × List Str
  | 0, xs => ([], xs)
  | n + 1, k :: rest =>
    let a := readList rest
    let r := readDict n a.2
    ((k, a.1) :: r.1, r.2)
  | _, xs => ([], xs)

def readPairs : Nat → List Str → List (Str × Str) × List Str
  | 0, xs => ([], xs)
  | n + 1, k :: v :: rest =>
    let r := readPairs n rest
    ((k, v) :: r.1, r.2)
  | _, xs => ([], xs)

def showVar (v : DVar) : List Str :=
  [['v'], v.name, v.ftype, v.permission, v.intent, if v.optional then ['1'] else ['0'],
   if v.parameter then ['1'] else ['0'], v.dimension,
   match v.initial with | none => ['N'] | some t => 'S' :: t, showNat v.attribs.length] ++ v.attribs

def showSlot : Slot → List Str
  | .name s => [['n'], s]
  | .proc s => [['p'], s]
  | .var v => showVar v

def stepsOf (kind : Str) : List CleanStep :=
  if kind == (chars! "proc") then Generated.C18.procCleanupSteps
  else if kind == (chars! "func") then Generated.C18.funcCleanupSteps
  else Generated.C18.unitCleanupSteps

def run (kind : Str) (xs : List Str) : List Str :=
  let a := readList xs
  match a.2 with
  | ret :: r1 =>
    let ifs := readList r1
    let items := readList ifs.2   -- each `1<name>` (has `attribs`) or `0<name>`
    match items.2 with
    | nd :: r2 =>
      let d := readDict (natOf nd) r2
      match d.2 with
      | np :: r3 =>
        let ps := readPairs (natOf np) r3
        match ps.2 with
        | nv :: r4 =>
          let vs := readVars (natOf nv) r4
          let st : PState := ⟨vs.1, a.1.map Slot.name,
            match ret with | 'N' :: t => some (.name t) | _ => none,
            ifs.1, items.1.map (fun s => ⟨s.drop 1, s.head? == some '1'⟩), some d.1, ps.1⟩
          match runCleanup (stepsOf kind) st with
          | none => ["err".toList, "attribute-error".toList]
          | some st' =>
            "ok".toList :: showNat st'.args.length :: (st'.args.map showSlot).flatten ++
              (match st'.ret with | none => [['-']] | some s => showSlot s) ++
              showNat st'.vars.length :: (st'.vars.map showVar).flatten
        | _ => ["bad-request".toList]
      | _ => ["bad-request".toList]
    | _ => ["bad-request".toList]
  | _ => ["bad-request".toList]

end Cleanup18

/-! `c18.prochead`: what `_procedure_initialize` / `FortranFunction._initialize` make of the groups of
    SUBROUTINE_RE / FUNCTION_RE: attributes (`N` = None, `S<text>`), arguments (`N` / `S(<list>)`), result name
    (`N` / `S<name>`), procedure name.  Answer: counted prefix keywords, counted argument names, then the result:
    `N<name>` (still a name) or `T` vartype kind strlen proto-name proto-args (each `N` / `S<text>`) -/
namespace ProcHead18
open ProcPrefix

def optOf : Str → Option Str
  | 'S' :: t => some t
  | _ => none

def showOpt : Option Str → Str
  | none => ['N']
  | some t => 'S' :: t

def run (attributes arguments result name : Str) : List Str :=
  let table := Generated.C18.procPrefixes
  let byWord := Generated.C18.prefixByWord
  let attrText := (optOf attributes).getD []
  let pa := procAttrs byWord table attrText
  let args := match optOf arguments with
    | some a => if a.isEmpty then [] else procArgs a
    | none => []
  let retName := match optOf result with
    | some r => if r.isEmpty then name else r
    | none => name
  match resultTypeOf byWord table attrText with
  | .error _ => ["err".toList, "unmodelled".toList]
  | .ok none =>
    "ok".toList :: showNat pa.1.length :: pa.1 ++ showNat args.length :: args ++ [pa.2, 'N' :: retName]
  | .ok (some p) =>
    "ok".toList :: showNat pa.1.length :: pa.1 ++ showNat args.length :: args ++
      [pa.2, ['T'], p.vartype, showOpt p.kind, showOpt p.strlen,
       showOpt (p.proto.map (·.1)), showOpt (p.proto.map (·.2))]

end ProcHead18

def terrName18 : TypeSpec.TErr → Str
  | .invalidDecl => "bad-number".toList   -- the four ValueErrors of parse_type (the recorder's name for ValueError)
  | .badType => "bad-number".toList
  | .badProto => "bad-number".toList
  | .tooMany => "bad-number".toList
  | .parenErr => "RuntimeError".toList
  | .attrErr => "no-match".toList
  | .unmodelled => "unsupported".toList

def rerrName18 : RErr → Str
  | .badEscape => "bad-escape".toList
  | .unsupported => "unsupported".toList
  | .badNumber => "bad-number".toList
  | .index => "index".toList
  | .noMatch => "no-match".toList
  | .emptyInit => "empty-init".toList

def tagStr : Bool × Str → Str
  | (cl, n) => (if cl then '/' else '+') :: n

def boolOf (s : Str) : Bool := s == ['1']

def varFields (v : VarShow) : List Str :=
  [v.name, v.dimension, if v.points then ['1'] else ['0'],
   match v.initial with | none => ['N'] | some t => 'S' :: t]

def dispatchC18 : List Str → Option (List Str)
  | cmd :: args =>
    if cmd == "c18.escape".toList then
      match args with
      | [s] => some ["ok".toList, Html.escape s]
      | _ => some ["bad-request".toList]
    else if cmd == "c18.html".toList then
      match args with
      | [s] => some ("ok".toList :: textContent s :: (elements s).map tagStr)
      | _ => some ["bad-request".toList]
    else if cmd == "c18.nbsp".toList then
      match args with
      | [s] => some ["ok".toList, nbsp s]
      | _ => some ["bad-request".toList]
    else if cmd == "c18.comma".toList then
      match args with
      | [s] => some ["ok".toList, commaSpace s]
      | _ => some ["bad-request".toList]
    else if cmd == "c18.tmpl".toList then
      match args with
      | [d, s] =>
        match tmplExpand (if boolOf d then doubleBs s else s) with
        | .ok t => some ["ok".toList, t]
        | .error e => some ["err".toList, rerrName18 e]
      | _ => some ["bad-request".toList]
    else if cmd == "c18.search".toList then
      match args with
      | [s] =>
        match searchQuote s with
        | some (i, n) => some ["ok".toList, showNat i, showNat n]
        | none => some ["ok".toList, "none".toList]
      | _ => some ["bad-request".toList]
    else if cmd == "c18.cut".toList then
      match args with
      | [s] => let segs := cutLits s; some ("ok".toList :: segMasked segs 0 :: segStrings segs)
      | [f, s] => let p := prepLine (boolOf f) s; some ("ok".toList :: p.masked :: p.strings)
      | _ => some ["bad-request".toList]
    else if cmd == "c18.reinsert".toList then
      match args with
      | nb :: dbl :: s :: strings =>
        match reinsert (boolOf nb) (boolOf dbl) strings s with
        | .ok t => some ["ok".toList, t]
        | .error e => some ["err".toList, rerrName18 e]
      | _ => some ["bad-request".toList]
    else if cmd == "c18.decl".toList then
      match args with
      | [s] =>
        match declVars s with
        | .ok vs => some ("ok".toList :: (vs.map varFields).flatten)
        | .error e => some ["err".toList, rerrName18 e]
      | [f, s] =>
        match declVarsOpt (boolOf f) s with
        | .ok vs => some ("ok".toList :: (vs.map varFields).flatten)
        | .error e => some ["err".toList, rerrName18 e]
      | [f, j, s] =>
        match declVarsOpt (boolOf f) s (boolOf j) with
        | .ok vs => some ("ok".toList :: (vs.map varFields).flatten)
        | .error e => some ["err".toList, rerrName18 e]
      | _ => some ["bad-request".toList]
    else if cmd == "c18.kind".toList then
      match args with
      | [s] => some ["ok".toList, kindOfArgs s]
      | _ => some ["bad-request".toList]
    else if cmd == "c18.namedim".toList then
      match args with
      | [s] => some ["ok".toList, (splitNameDim s).1, (splitNameDim s).2]
      | _ => some ["bad-request".toList]
    else if cmd == "c18.ftype".toList then
      match args with
      | [vt, k, l, p0, p1] => some ["ok".toList, fullType vt k l p0 p1]
      | _ => some ["bad-request".toList]
    else if cmd == "c18.fdecl".toList then
      match args with
      | ft :: dim :: par :: attribs => some ["ok".toList, fullDeclaration ft attribs dim (boolOf par)]
      | _ => some ["bad-request".toList]
    else if cmd == "c18.line".toList then
      -- lower option, eqJoin, inherited permission, statement -> per variable: name, dimension, points, initial,
      -- intent, optional, permission, parameter, vartype, kind, strlen, proto name, proto args, counted attribs
      match args with
      | [f, j, perm, s] =>
        match DeclLine.lineVars Generated.C18.declAttrRules (boolOf f) (boolOf j) perm s with
        | .error (.type e) => some ["err".toList, terrName18 e]
        | .error (.ent e) => some ["err".toList, rerrName18 e]
        | .ok vs =>
          some ("ok".toList :: (vs.map fun v =>
            varFields ⟨v.name, v.dimension, v.points, v.initial⟩ ++
            [v.attrs.intent, if v.attrs.optional then ['1'] else ['0'], v.attrs.permission,
             if v.attrs.parameter then ['1'] else ['0'], v.vartype, ProcHead18.showOpt v.kind,
             ProcHead18.showOpt v.strlen, ProcHead18.showOpt (v.proto.map (·.1)),
             ProcHead18.showOpt (v.proto.map (·.2)), showNat v.attrs.attribs.length] ++ v.attrs.attribs).flatten)
      | _ => some ["bad-request".toList]
    else if cmd == "c18.procattrs".toList then
      match args with
      | [s] =>
        let r := ProcPrefix.procAttrs Generated.C18.prefixByWord Generated.C18.procPrefixes s
        some ("ok".toList :: r.2 :: r.1)
      | _ => some ["bad-request".toList]
    else if cmd == "c18.prochead".toList then
      match args with
      | [a, b, c, d] => some (ProcHead18.run a b c d)
      | _ => some ["bad-request".toList]
    else if cmd == "c18.cleanup".toList then
      match args with
      | kind :: rest => some (Cleanup18.run kind rest)
      | _ => some ["bad-request".toList]
    else if cmd == "c18.sort".toList then
      match args with
      | opt :: ncoll :: rest => some (Sort18.run opt ncoll rest)
      | _ => some ["bad-request".toList]
    else if cmd == "c18.procline".toList then
      some (ProcLine18.run args)
    else if cmd == "c18.charsel".toList then
      -- the parameters of a character selector (blanks removed, split at commas) -> length, kind
      match CharSel.charSel Generated.C18.charSelRules args none none with
      | .ok (l, k) => some ["ok".toList, ProcHead18.showOpt l, ProcHead18.showOpt k]
      | .error _ => some ["err".toList]
    else none
  | [] => none

end Ford
