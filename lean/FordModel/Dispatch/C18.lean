import FordModel.Proto
import FordModel.Escape
import FordModel.Show
namespace Ford
open Proto Html Show

def rerrName18 : RErr → Str
  | .badEscape => "bad-escape".toList
  | .unsupported => "unsupported".toList
  | .badNumber => "bad-number".toList
  | .index => "index".toList
  | .noMatch => "no-match".toList
  | .emptyInit => "empty-init".toList

def tagStr : Bool × Str → Str
  | (cl, n) => (if cl then '/' else '+') :: n

def boolOf (s : Str) : Bool := s == ['1']

def varFields (v : VarShow) : List Str :=
  [v.name, v.dimension, if v.points then ['1'] else ['0'],
   match v.initial with | none => ['N'] | some t => 'S' :: t]

def dispatchC18 : List Str → Option (List Str)
  | cmd :: args =>
    if cmd == "c18.escape".toList then
      match args with
      | [s] => some ["ok".toList, Html.escape s]
      | _ => some ["bad-request".toList]
    else if cmd == "c18.html".toList then
      match args with
      | [s] => some ("ok".toList :: textContent s :: (elements s).map tagStr)
      | _ => some ["bad-request".toList]
    else if cmd == "c18.nbsp".toList then
      match args with
      | [s] => some ["ok".toList, nbsp s]
      | _ => some ["bad-request".toList]
    else if cmd == "c18.comma".toList then
      match args with
      | [s] => some ["ok".toList, commaSpace s]
      | _ => some ["bad-request".toList]
    else if cmd == "c18.tmpl".toList then
      match args with
      | [d, s] =>
        match tmplExpand (if boolOf d then doubleBs s else s) with
        | .ok t => some ["ok".toList, t]
        | .error e => some ["err".toList, rerrName18 e]
      | _ => some ["bad-request".toList]
    else if cmd == "c18.search".toList then
      match args with
      | [s] =>
        match searchQuote s with
        | some (i, n) => some ["ok".toList, showNat i, showNat n]
        | none => some ["ok".toList, "none".toList]
      | _ => some ["bad-request".toList]
    else if cmd == "c18.cut".toList then
      match args with
      | [s] => let segs := cutLits s; some ("ok".toList :: segMasked segs 0 :: segStrings segs)
      | [f, s] => let p := prepLine (boolOf f) s; some ("ok".toList :: p.masked :: p.strings)
      | _ => some ["bad-request".toList]
    else if cmd == "c18.reinsert".toList then
      match args with
      | nb :: dbl :: s :: strings =>
        match reinsert (boolOf nb) (boolOf dbl) strings s with
        | .ok t => some ["ok".toList, t]
        | .error e => some ["err".toList, rerrName18 e]
      | _ => some ["bad-request".toList]
    else if cmd == "c18.decl".toList then
      match args with
      | [s] =>
        match declVars s with
        | .ok vs => some ("ok".toList :: (vs.map varFields).flatten)
        | .error e => some ["err".toList, rerrName18 e]
      | [f, s] =>
        match declVarsOpt (boolOf f) s with
        | .ok vs => some ("ok".toList :: (vs.map varFields).flatten)
        | .error e => some ["err".toList, rerrName18 e]
      | [f, j, s] =>
        match declVarsOpt (boolOf f) s (boolOf j) with
        | .ok vs => some ("ok".toList :: (vs.map varFields).flatten)
        | .error e => some ["err".toList, rerrName18 e]
      | _ => some ["bad-request".toList]
    else if cmd == "c18.kind".toList then
      match args with
      | [s] => some ["ok".toList, kindOfArgs s]
      | _ => some ["bad-request".toList]
    else if cmd == "c18.namedim".toList then
      match args with
      | [s] => some ["ok".toList, (splitNameDim s).1, (splitNameDim s).2]
      | _ => some ["bad-request".toList]
    else if cmd == "c18.ftype".toList then
      match args with
      | [vt, k, l, p0, p1] => some ["ok".toList, fullType vt k l p0 p1]
      | _ => some ["bad-request".toList]
    else if cmd == "c18.fdecl".toList then
      match args with
      | ft :: dim :: par :: attribs => some ["ok".toList, fullDeclaration ft attribs dim (boolOf par)]
      | _ => some ["bad-request".toList]
    else none
  | [] => none

end Ford
