import FordModel.Proto
import FordModel.Use
import FordModel.UseBind
import FordModel.UseExt
namespace Ford
open Proto Use

namespace C06D

def splitCh (sep : Char) : Str → Str → List Str
  | [], cur => [cur.reverse]
  | c :: cs, cur => if c == sep then cur.reverse :: splitCh sep cs [] else splitCh sep cs (c :: cur)

def words (s : Str) : List Str := (splitCh ' ' s []).filter (fun w => !w.isEmpty)

/-- access keywords of a declaration, one letter each, in the order FORD meets them
    (`u` public, `r` private, `t` protected; anything else, e.g. `-`, is no keyword) -/
def permsOf (s : Str) : List Perm :=
  s.filterMap (fun c => if c = 'u' then some .pub else if c = 'r' then some .priv
                        else if c = 't' then some .prot else none)

def declOf (s : Str) : Decl :=
  match splitCh ':' s [] with
  | [n, k, a] => { name := n, kind := natOf k, accs := permsOf a }
  | _ => { name := s, kind := 0, accs := [] }

/-- one field per USE statement (the statement text as FORD's reader yields it);
    statements USE_RE does not match are not recorded by FORD -/
def takeUses (fixed : Bool) : Nat → List Str → List UseA × List Str
  | 0, fs => ([], fs)
  | n + 1, line :: fs =>
    let (us, rest) := takeUses fixed n fs
    match parseUseStmt line with
    | some (m, r) => (mkUse m r fixed :: us, rest)
    | none => (us, rest)
  | _ + 1, [] => ([], [])

/-- scopes: name, flags, pubNames, privNames, decls, nUses, statement* -/
def parseScopes (fixed : Bool) : Nat → List Str → List Scope
  | 0, _ => []
  | fuel + 1, name :: flags :: pubs :: privs :: decls :: nu :: fs =>
    let (us, rest) := takeUses fixed (natOf nu) fs
    { name := name, isMod := flags.contains 'M', defPub := flags.contains 'U',
      pubNames := words pubs, privNames := words privs,
      decls := (words decls).map declOf, uses := us } :: parseScopes fixed fuel rest
  | _ + 1, _ => []

def showEntry (p : Str × Ent) : Str := p.1 ++ ['='] ++ p.2.1 ++ ['.'] ++ p.2.2

def showTable (t : Table) : Str := joinSep ' ' (t.map showEntry)

def showItem : UItem → Str
  | .plain n => 'p' :: ':' :: n
  | .ren l r => 'r' :: ':' :: l ++ ('>' :: r)

def showState (g : List Scope) (k : Nat) (st : State) : List Str :=
  g.map (fun m =>
    let t := getTabs st m.name
    showNat k ++ ['|'] ++ m.name ++ ['|'] ++ showTable t.all ++ ['|'] ++ showTable t.pub)

/-- `root:host:name` triples (pre-order) naming the scopes of `all` that are contained procedures -/
def nestedOf (all : List Scope) (spec : Str) : List Nested :=
  (words spec).filterMap (fun w =>
    match splitCh ':' w [] with
    | [r, h, n] => (all.find? (fun s => s.name == n)).map (fun s => { root := r, host := h, scope := s })
    | _ => none)

/-- as `showState`, names in the lower-case form the harness observes FORD's objects in -/
def showStateL (g : List Scope) (k : Nat) (st : State) : List Str :=
  g.map (fun m =>
    let t := getTabs st m.name
    let low : Table → Table := fun tb => tb.map (fun p => (p.1, (lower p.2.1, p.2.2)))
    showNat k ++ ['|'] ++ lower m.name ++ ['|'] ++ showTable (low t.all) ++ ['|'] ++ showTable (low t.pub))

/-- `root:host:name[:i]` entries; `:i` marks the body of an interface block.  Such a body starts from
    the tables of the interface object, which ALIAS its host's `all_procs`, `all_absinterfaces` and
    `all_types` but has no `all_vars` (`getattr(self.parent, "all_vars", {})`): for the variable
    tables (k = 3) the host is a name no scope has, i.e. the empty table. -/
def nestedOfK (all : List Scope) (spec : Str) (k : Nat) : List Nested :=
  (words spec).filterMap (fun w =>
    match splitCh ':' w [] with
    | [r, h, n] => (all.find? (fun s => s.name == n)).map (fun s => { root := r, host := h, scope := s })
    | [r, h, n, _] => (all.find? (fun s => s.name == n)).map (fun s =>
        { root := r, host := if k == 3 then [] else h, scope := s })
    | _ => none)

end C06D
open C06D

def dispatchC06 : List Str → Option (List Str)
  | cmd :: args =>
    if cmd == "c06.run".toList || cmd == "c06.runfixed".toList then
      -- c06.run / c06.runfixed (variant after fixes/C06-rename-without-only.diff)
      match args with
      | order :: fs =>
        let g := parseScopes (cmd == "c06.runfixed".toList) (fs.length + 1) fs
        let o := words order
        some ("ok".toList :: ([0, 1, 2, 3].flatMap (fun k => showState g k (run k g o))))
      | _ => some ["bad-request".toList]
    else if cmd == "c06.runn".toList || cmd == "c06.runnfixed".toList then
      -- c06.runn <order> <root:host:name ...> <scope fields ...> : as c06.run, with contained procedures
      match args with
      | order :: nspec :: fs =>
        let all := parseScopes (cmd == "c06.runnfixed".toList) (fs.length + 1) fs
        let ns := nestedOf all nspec
        let g := all.filter (fun s => !(ns.any (fun x => x.scope.name == s.name)))
        let o := words order
        some ("ok".toList :: ([0, 1, 2, 3].flatMap (fun k => showState (g ++ ns.map (·.scope)) k (runN k g ns o))))
      | _ => some ["bad-request".toList]
    else if cmd == "c06.runb".toList || cmd == "c06.runbfixed".toList then
      -- c06.runb <order> <root:host:name[:i] ...> <extra_mods names ...> <unreached scopes ...> <scope fields ...> :
      -- the tables after `find_used_modules` (model `bindG` / `bindNsU`) and the ranklist loop; module
      -- names as declared
      match args with
      | order :: nspec :: exts :: unreached :: fs =>
        let all := parseScopes (cmd == "c06.runbfixed".toList) (fs.length + 1) fs
        let ns0 := nestedOfK all nspec 0
        let g := all.filter (fun s => !(ns0.any (fun x => x.scope.name == s.name)))
        let es : List ExtMod := (words exts).map (fun n => { name := n })
        let o := words order
        some ("ok".toList :: ([0, 1, 2, 3].flatMap (fun k =>
          let ns := nestedOfK all nspec k
          showStateL (g ++ ns.map (·.scope)) k (runN k (bindG g es) (bindNsU g es (words unreached) ns) o))))
      | _ => some ["bad-request".toList]
    else if cmd == "c06.runx".toList || cmd == "c06.runxfixed".toList then
      -- c06.runx <order of A> <order of B> <extra_mods names> <number of scopes of A> <scope fields of A, then of B> :
      -- project A correlated and externalized, project B correlated against the modules it loads (`twoStep`)
      match args with
      | orderA :: orderB :: exts :: na :: fs =>
        let all := parseScopes (cmd == "c06.runxfixed".toList) (fs.length + 1) fs
        let gA := all.take (natOf na)
        let gB := all.drop (natOf na)
        let es : List ExtMod := (words exts).map (fun n => { name := n })
        some ("ok".toList :: ([0, 1, 2, 3].flatMap (fun k =>
          showStateL gA k (run k (bindG gA es) (words orderA)) ++
          showStateL gB k (twoStep k gA (words orderA) gB es (words orderB)))))
      | _ => some ["bad-request".toList]
    else if cmd == "c06.bind".toList then
      -- c06.bind <name in the USE statement> <module names of the project> <names of extModules>
      match args with
      | [n, mods, exts] =>
        let g : List Scope := (words mods).map (fun m =>
          { name := m, isMod := true, defPub := true, pubNames := [], privNames := [], decls := [], uses := [] })
        let es : List ExtMod := (words exts).map (fun n => { name := n })
        some ["ok".toList, (bindName g es n).tag]
      | _ => some ["bad-request".toList]
    else if cmd == "c06.parse".toList then
      -- c06.parse <rest> : only flag, items
      match args with
      | [rest] =>
        let p := parseRest rest
        some ("ok".toList :: (if p.1 then ['1'] else ['0']) :: p.2.map showItem)
      | _ => some ["bad-request".toList]
    else if cmd == "c06.only".toList then
      match args with
      | [s] => some (match onlyMatch s with | some r => ["ok".toList, ['1'], r] | none => ["ok".toList, ['0'], s])
      | _ => some ["bad-request".toList]
    else if cmd == "c06.rename".toList then
      match args with
      | [s] => some (match renameSearch s with | some (a, b) => ["ok".toList, a, b] | none => ["ok".toList])
      | _ => some ["bad-request".toList]
    else if cmd == "c06.usestmt".toList then
      match args with
      | [s] => some (match parseUseStmt s with | some (a, b) => ["ok".toList, a, b] | none => ["ok".toList])
      | _ => some ["bad-request".toList]
    else if cmd == "c06.used".toList || cmd == "c06.usedfixed".toList then
      -- c06.used <rest> <pub names, space separated> : resulting (local=remote) pairs
      match args with
      | [rest, names] =>
        let pub : Table := (words names).map (fun n => (n, (['m'], n)))
        let t := getUsed (mkUse ['m'] rest (cmd == "c06.usedfixed".toList)) pub
        some ("ok".toList :: t.map (fun p => p.1 ++ ['='] ++ p.2.2))
      | _ => some ["bad-request".toList]
    else if cmd == "c06.used4".toList || cmd == "c06.used4fixed".toList then
      -- c06.used4 <rest> <names of pub_procs> <pub_absints> <pub_types> <pub_vars> : the four returned
      -- tables, entries `<k>:<local>=<remote>`
      match args with
      | [rest, n0, n1, n2, n3] =>
        let mk : Str → Table := fun names => (words names).map (fun n => (n, (['m'], n)))
        let ts := getUsedAll (mkUse ['m'] rest (cmd == "c06.used4fixed".toList)) [mk n0, mk n1, mk n2, mk n3]
        some ("ok".toList :: (ts.zipIdx.flatMap (fun (t, k) => t.map (fun p => showNat k ++ [':'] ++ p.1 ++ ['='] ++ p.2.2))))
      | _ => some ["bad-request".toList]
    else none
  | [] => none

end Ford
