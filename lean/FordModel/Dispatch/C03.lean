import FordModel.Proto
import FordModel.Reader
import FordModel.Admonition
import FordModel.Meta
import FordModel.Attach
import FordModel.MdState
import FordModel.Dispatch.C02
namespace Ford
open Proto

def aerrOut : AErr → List Str
  | .endNoStart i => ["err".toList, "end-without-start".toList, showNat i]
  | .typeMismatch i => ["err".toList, "type-mismatch".toList, showNat i]
  | .missingStart i => ["err".toList, "missing-start".toList, showNat i]
  | .index i => ["err".toList, "index".toList, showNat i]

def metaOut (m : MetaDict) : List Str :=
  m.flatMap (fun kv => ("K:".toList ++ kv.1) :: kv.2.map (fun v => "V:".toList ++ v))

def linesOut (ls : List Str) : List Str := ls.map (fun l => "L:".toList ++ l)

def admOut (a : Adm) : Str :=
  a.ty ++ [','] ++ showNat a.start ++ [','] ++ (match a.stop with | some e => showNat e | none => "-1".toList)

/-- request fields `E` (next document) / `L<line>` -> the documents -/
def mdDocs : List Str → List (List Str) → List (List Str)
  | [], acc => (acc.map List.reverse).reverse
  | f :: fs, acc =>
    match f, acc with
    | 'E' :: _, _ => mdDocs fs ([] :: acc)
    | 'L' :: l, d :: ds => mdDocs fs ((l :: d) :: ds)
    | _, _ => mdDocs fs acc

def mdOutFields (o : MdOut) : List Str :=
  "E".toList :: (o.links.map (fun l => "H:".toList ++ l) ++ o.foots.map (fun l => "F:".toList ++ l)
    ++ o.titles.map (fun l => "A:".toList ++ l))

def dispatchC03 : List Str → Option (List Str)
  | cmd :: args =>
    if cmd == "c03.adm".toList then
      match admRun admTypes args with
      | .ok ls => some ("ok".toList :: ls)
      | .error e => some (aerrOut e)
    else if cmd == "c03.find".toList then
      match findAdm admTypes args with
      | .ok adms => some ("ok".toList :: adms.map admOut)
      | .error e => some (aerrOut e)
    else if cmd == "c03.meta".toList then
      let r := metaSplit args
      some ("ok".toList :: metaOut r.1 ++ linesOut r.2)
    else if cmd == "c03.rmeta".toList then
      match args with
      | v :: doc =>
        let r := readMetadata (v.contains 'o') Gen.entityFields doc
        some ("ok".toList :: metaOut r.1 ++ linesOut r.2)
      | _ => some ["bad-request".toList]
    else if cmd == "c03.dedent".toList then
      some ("ok".toList :: dedent args)
    else if cmd == "c03.pipeline".toList then
      match admRun admTypes (dedent args) with
      | .ok ls => some ("ok".toList :: ls)
      | .error e => some (aerrOut e)
    else if cmd == "c03.attach".toList then
      match args with
      | v :: d :: p :: a :: pa :: lines =>
        match readAll { doc := d, pre := p, alt := a, preAlt := pa } lines with
        | .ok items =>
          some ("ok".toList ::
            (entDocs (v.contains 'o') Gen.entityFields (v.contains 'm') (attach d items)).flatMap
              (fun e => ("E:".toList ++ e.1) :: (metaOut e.2.1 ++ linesOut e.2.2)))
        | .error e => some ["err".toList, rerrName e]
      | _ => some ["bad-request".toList]
    else if cmd == "c03.mdstate".toList then
      match args with
      | v :: fs => some ("ok".toList :: (markdownAll (v.contains 'a') mdEmpty (mdDocs fs [])).flatMap mdOutFields)
      | _ => some ["bad-request".toList]
    else if cmd == "c03.classify".toList then
      match args with
      | [l] => some ["ok".toList, (toString (repr (classify l))).toList]
      | _ => some ["bad-request".toList]
    else none
  | [] => none

end Ford
