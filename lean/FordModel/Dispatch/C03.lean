import FordModel.Proto
import FordModel.Reader
import FordModel.Admonition
import FordModel.Meta
import FordModel.Attach
import FordModel.AttachIface
import FordModel.MdState
import FordModel.DocConvert
import FordModel.Basic.Split
import FordModel.Dispatch.C02
import FordModel.IncludeMarks
import FordModel.Summary
namespace Ford
open Proto

def aerrOut : AErr → List Str
  | .endNoStart i => ["err".toList, "end-without-start".toList, showNat i]
  | .typeMismatch i => ["err".toList, "type-mismatch".toList, showNat i]
  | .missingStart i => ["err".toList, "missing-start".toList, showNat i]
  | .index i => ["err".toList, "index".toList, showNat i]

def metaOut (m : MetaDict) : List Str :=
  m.flatMap (fun kv => ("K:".toList ++ kv.1) :: kv.2.map (fun v => "V:".toList ++ v))

def linesOut (ls : List Str) : List Str := ls.map (fun l => "L:".toList ++ l)

def admOut (a : Adm) : Str :=
  a.ty ++ [','] ++ showNat a.start ++ [','] ++ (match a.stop with | some e => showNat e | none => "-1".toList)

/-- request fields `E` (next document) / `L<line>` -> the documents -/
def mdDocs : List Str → List (List Str) → List (List Str)
  | [], acc => (acc.map List.reverse).reverse
  | f :: fs, acc =>
    match f, acc with
    | 'E' :: _, _ => mdDocs fs ([] :: acc)
    | 'L' :: l, d :: ds => mdDocs fs ((l :: d) :: ds)
    | _, _ => mdDocs fs acc

def mdOutFields (o : MdOut) : List Str :=
  "E".toList :: (o.links.map (fun l => "H:".toList ++ l) ++ o.foots.map (fun l => "F:".toList ++ l)
    ++ o.titles.map (fun l => "A:".toList ++ l))

/-- request field of `c03.convert`: the optional attributes (comma separated, `-` = none) one
    registered entity has after parsing; the extra word `inh` marks a public component of a type
    that another type of the project extends (`FortranType.correlate` lists it in the extending
    type as well).  Every entity gets a non-empty dummy metadata so that a reset is visible. -/
def centOfField (fix : Bool) (f : Str) : CEnt :=
  let as := if f == ['-'] then [] else parenSplit ',' f
  let e : CEnt := { attrs := as.filter (fun a => a != ['d', 'o', 'c'] && a != ['i', 'n', 'h']), docList := [],
                    doc := if as.contains ['d', 'o', 'c'] then some [] else none, md := [(['m'], [])] }
  if as.contains ['i', 'n', 'h'] then inheritStep fix [['p']] e else e

def idxWhere (p : CEnt → Bool) : Nat → List CEnt → List Nat
  | _, [] => []
  | i, e :: es => if p e then i :: idxWhere p (i + 1) es else idxWhere p (i + 1) es

def dispatchC03 : List Str → Option (List Str)
  | cmd :: args =>
    if cmd == "c03.adm".toList then
      match admRun admTypes args with
      | .ok ls => some ("ok".toList :: ls)
      | .error e => some (aerrOut e)
    else if cmd == "c03.find".toList then
      match findAdm admTypes args with
      | .ok adms => some ("ok".toList :: adms.map admOut)
      | .error e => some (aerrOut e)
    else if cmd == "c03.meta".toList then
      let r := metaSplit args
      some ("ok".toList :: metaOut r.1 ++ linesOut r.2)
    else if cmd == "c03.rmeta".toList then
      match args with
      | v :: doc =>
        let r := readMetadata (v.contains 'o') Gen.entityFields doc
        some ("ok".toList :: metaOut r.1 ++ linesOut r.2)
      | _ => some ["bad-request".toList]
    else if cmd == "c03.dedent".toList then
      some ("ok".toList :: dedent args)
    else if cmd == "c03.pipeline".toList then
      match admRun admTypes (dedent args) with
      | .ok ls => some ("ok".toList :: ls)
      | .error e => some (aerrOut e)
    else if cmd == "c03.attach".toList then
      match args with
      | v :: d :: p :: a :: pa :: lines =>
        match readAll { doc := d, pre := p, alt := a, preAlt := pa } lines with
        | .ok items =>
          some ("ok".toList ::
            (entDocsW (v.contains 'w') (v.contains 'o') Gen.entityFields (v.contains 'm') (attachW d items)).flatMap
              (fun e => ("E:".toList ++ e.1) :: (metaOut e.2.1 ++ linesOut e.2.2)))
        | .error e => some ["err".toList, rerrName e]
      | _ => some ["bad-request".toList]
    else if cmd == "c03.attachfs".toList then
      -- c03.attachfs <flags> <doc> <pre> <alt> <preAlt> <nfiles> (<name> <nlines> <line>*)* <line of the main file>*
      -- the entities of a source file that pulls text in with `include`: reader with include expansion (the
      -- nested readers get the markers `Gen.includeMarkSrc` says), then the attach model
      match args with
      | v :: d :: p :: a :: pa :: nf :: rest =>
        match parseFiles (natOf nf) rest with
        | none => some ["bad-request".toList]
        | some (fs, main) =>
          match IncMarks.readFSM Gen.includeMarkSrc Include.readerCfg fs (fs.length + 2)
                  { doc := d, pre := p, alt := a, preAlt := pa } main with
          | .ok items =>
            some ("ok".toList ::
              (entDocsW (v.contains 'w') (v.contains 'o') Gen.entityFields (v.contains 'm') (attachW d items)).flatMap
                (fun e => ("E:".toList ++ e.1) :: (metaOut e.2.1 ++ linesOut e.2.2)))
          | .error e => some ["err".toList, ierrName e]
      | _ => some ["bad-request".toList]
    else if cmd == "c03.readfs".toList then
      -- c03.readfs <doc> <pre> <alt> <preAlt> <nfiles> (<name> <nlines> <line>*)* <line of the main file>*
      match args with
      | d :: p :: a :: pa :: nf :: rest =>
        match parseFiles (natOf nf) rest with
        | none => some ["bad-request".toList]
        | some (fs, main) =>
          match IncMarks.readFSM Gen.includeMarkSrc Include.readerCfg fs (fs.length + 2)
                  { doc := d, pre := p, alt := a, preAlt := pa } main with
          | .ok items => some ("ok".toList :: items)
          | .error e => some ["err".toList, ierrName e]
      | _ => some ["bad-request".toList]
    else if cmd == "c03.mdstate".toList then
      match args with
      | v :: fs => some ("ok".toList :: (markdownAll (v.contains 'a') mdEmpty (mdDocs fs [])).flatMap mdOutFields)
      | _ => some ["bad-request".toList]
    else if cmd == "c03.convert".toList then
      match args with
      | v :: fs =>
        let reg := fs.map (centOfField (v.contains 'i'))
        let out := convertAll Gen.markdownSkipAttrs id reg
        some ("ok".toList :: (convIdx Gen.markdownSkipAttrs reg).map showNat
              ++ ["P".toList] ++ (idxWhere (fun e => e.doc.isSome) 0 reg).map showNat
              ++ ["R".toList] ++ (idxWhere (fun e => e.md.isEmpty) 0 out).map showNat)
      | _ => some ["bad-request".toList]
    else if cmd == "c03.summary".toList then
      -- c03.summary <f> <doc> <U<url> | -> <S<converted summary metadata> | ->  (f = 'p': the variant with
      -- fixes/C03-summary-without-paragraph.diff)
      match args with
      | [v, doc, u, ms] =>
        let url := match u with | 'U' :: r => some r | _ => none
        let m := match ms with | 'S' :: r => some r | _ => none
        some ["ok".toList, summaryOfV (v.contains 'p') doc m url]
      | _ => some ["bad-request".toList]
    else if cmd == "c03.para".toList then
      match args with
      | [doc] =>
        match paraCapture doc with
        | some (a, b, c) => some ["ok".toList, a, b, c]
        | none => some ["none".toList]
      | _ => some ["bad-request".toList]
    else if cmd == "c03.classify".toList then
      match args with
      | [l] => some ["ok".toList, (toString (repr (classify l))).toList]
      | _ => some ["bad-request".toList]
    else none
  | [] => none

end Ford
