import FordModel.Proto
import FordModel.Graph
import FordModel.GraphLabel
namespace Ford
open Proto Graph

namespace C13D

def splitOn (sep : Char) (s : Str) : List Str :=
  let rec go : Str → Str → List Str
    | [], cur => [cur.reverse]
    | c :: cs, cur => if c == sep then cur.reverse :: go cs [] else go cs (c :: cur)
  go s []

def natList (s : Str) : List Nat :=
  if s.isEmpty then [] else (splitOn ',' s).map natOf

def natOpt (s : Str) : Option Nat := if s.isEmpty then none else some (natOf s)

def flag (s : Str) (i : Nat) : Bool := s.getD i '0' == '1'

def kindOf (s : Str) : Kind :=
  match s with
  | ['m'] => .mod | ['s'] => .submod | ['t'] => .type | ['p'] => .proc
  | ['g'] => .prog | ['f'] => .file | ['b'] => .block | _ => .ext

/-- kind;ptype;flags;uses;anc;comps;calls;bindings;modprocs;impl;deps;boundprocs;internals;maxDepth;maxNodes;cls -/
def parseEnt (s : Str) : Ent :=
  let f := splitOn ';' s
  let g := fun i => f.getD i []
  let fl := g 2
  { kind := kindOf (g 0)
    isBoundType := g 1 == ['b']
    isIface := g 1 == ['i']
    visible := flag fl 0, visibleF := flag fl 1, isBound := flag fl 2
    deferred := flag fl 3, extUrl := flag fl 4, graph := flag fl 5
    uses := natList (g 3), anc := natOpt (g 4), comps := natList (g 5)
    calls := natList (g 6), bindings := natList (g 7), modprocs := natList (g 8)
    impl := natOpt (g 9), deps := natList (g 10), boundprocs := natList (g 11)
    internals := natList (g 12), maxDepth := natOf (g 13), maxNodes := natOf (g 14), cls := natOf (g 15) }

def showNats (l : List Nat) : Str := joinSep ',' (l.map showNat)

def showEdge (e : Edge) : Str :=
  showNat e.tail ++ ['>'] ++ showNat e.head ++ [':'] ++ (match e.style with | .solid => ['s'] | .dashed => ['d'])

def showEdges (l : List Edge) : Str := joinSep ',' (l.map showEdge)

def showTrunc (t : Option Nat) : Str := match t with | none => "-1".toList | some n => showNat n

/-- `__str__` of the graph over `roots`: n(othing) / t(able) / s(vg) -/
def shownCode (tab : Table) (roots : List Node) (g : GState) : Str :=
  match shownAs roots.length (cfgOf false tab {} .module roots).maxNodes g with
  | .nothing => ['n'] | .table => ['t'] | .svg => ['s']

def showStyle : Style → Str | .solid => ['s'] | .dashed => ['d']

/-- The order of the edges inside a hop (`sorted(...)` over idents, dict order) is not modelled, and
    `tableRows` looks at the *first* edge: the rows are given for the two orders that matter, the
    self-loops of the root last (`loopsFirst = false`) and first. -/
def reorder (loopsFirst : Bool) (es : List Edge) : List Edge :=
  let loops := es.filter fun e => e.tail == e.head
  let others := es.filter fun e => e.tail != e.head
  if loopsFirst then loops ++ others else others ++ loops

/-- rows of the table fall-back (`node:style,...`), empty unless the graph is shown as a table -/
def showRows (ft loopsFirst : Bool) (tab : Table) (roots : List Node) (g : GState) : Str :=
  match shownAs roots.length (cfgOf false tab {} .module roots).maxNodes g, roots with
  | .table, r :: _ =>
    joinSep ',' ((tableRows ft r (reorder loopsFirst g.hopEdges)).map fun (n, s) => showNat n ++ [':'] ++ showStyle s)
  | _, _ => []

/-- label|added|edges|truncated|hopNodes|hopEdges|shown|rows|rows with the self-loops first|rowspan of the
    root's cell|number of `<tr>` (the last two 0 unless the graph is shown as a table) -/
def showGraph (ft : Bool) (tab : Table) (roots : List Node) (label : Str) (g : GState) (fr : Bool := false) : Str :=
  let isTable := shownCode tab roots g == ['t']
  joinSep '|' [label, showNats g.added, showEdges g.edges, showTrunc g.truncated,
    showNats g.hopNodes, showEdges g.hopEdges, shownCode tab roots g, showRows ft false tab roots g,
    showRows ft true tab roots g, showNat (if isTable then rootSpan fr g else 0),
    showNat (if isTable then tableTrs g else 0)]

def className : GClass → Str
  | .module => "module".toList | .uses => "uses".toList | .usedBy => "usedby".toList
  | .file => "file".toList | .efferent => "efferent".toList | .afferent => "afferent".toList
  | .type => "type".toList | .inherits => "inherits".toList | .inheritedBy => "inheritedby".toList
  | .call => "call".toList | .calls => "calls".toList | .calledBy => "calledby".toList

def classOf (s : Str) : GClass :=
  [GClass.module, .uses, .usedBy, .file, .efferent, .afferent, .type, .inherits, .inheritedBy,
    .call, .calls, .calledBy].foldl (fun acc c => if className c == s then c else acc) .module

def relName : Rel → Str
  | .uses => "uses".toList | .anc => "anc".toList | .ext => "ext".toList | .comp => "comp".toList
  | .call => "call".toList | .iface => "iface".toList | .dep => "dep".toList

def showLink (l : Link) : Str := showNat l.src ++ ['/'] ++ relName l.rel ++ ['/'] ++ showNat l.dst

def showData (label : Str) (nd : NodeData) : Str :=
  joinSep '|' [label, showNats nd.created, joinSep ',' (nd.fwd.map showLink), joinSep ',' (nd.inv.map showLink)]

end C13D

open C13D in
def dispatchC13 : List Str → Option (List Str)
  | cmd :: args =>
    if cmd == "c13.all".toList then
      -- c13.all <variant: asis|fixed, optionally followed by +b> <order> ent*  : the whole GraphManager run
      -- (`fixed`: CallGraph counts callees that are roots once; `+b`: bindings to hidden procedures are roots)
      match args with
      | variant :: order :: ents =>
        let tab := ents.map parseEnt
        -- variant: asis|fixed, then any of +b (bindings to hidden procedures are roots), +t (table rows
        -- decided by the first edge that is not a self-loop)
        let vs := splitOn '+' variant
        let ft := vs.contains ['t']
        -- +r: the root's cell of the table spans the rows written for the edges (fixes/C13-table-rootspan.diff)
        let fr := vs.contains ['r']
        let r := graphAll (vs.head? == some "fixed".toList) (vs.contains ['b']) tab (natList order)
        if !r.ok then some ["fuel".toList]
        else
          let regs := registered tab (natList order)
          some (["ok".toList,
                 showGraph ft tab r.useRoots "proj:module".toList r.useGraph fr,
                 showGraph ft tab (regs.filter (isKind tab .type)) "proj:type".toList r.typeGraph fr,
                 showGraph ft tab r.callRoots "proj:call".toList r.callGraph fr,
                 showGraph ft tab (regs.filter (isKind tab .file)) "proj:file".toList r.fileGraph fr,
                 showData "data1".toList r.nd1, showData "data2".toList r.nd2]
                ++ r.perEntity.map fun (e, c, g) => showGraph ft tab [e] (showNat e ++ [':'] ++ className c) g fr)
      | _ => some ["bad-request".toList]
    else if cmd == "c13.callnodes".toList then
      -- c13.callnodes <calls> ent*
      match args with
      | calls :: ents =>
        let tab := ents.map parseEnt
        match callNodesAux tab (callFuel tab + (natList calls).length) (natList calls) [] [] with
        | some r => some ["ok".toList, showNats r]
        | none => some ["fuel".toList]
      | _ => some ["bad-request".toList]
    else if cmd == "c13.bfs".toList then
      -- c13.bfs <class> <maxNesting> <maxNodes> <roots> <fwd links a/r/t,...> <inv links> ent*
      -- (graph over explicitly given adjacency: used with adjacency read from the real nodes)
      match args with
      | cls :: mn :: mx :: roots :: ents =>
        let tab := ents.map parseEnt
        let rs := natList roots
        match create tab (createFuel tab + tab.length) (List.range tab.length) {} with
        | none => some ["fuel".toList]
        | some nd =>
          let c := classOf cls
          let cfg : Cfg := { succ := succOf tab nd c, nested := c.nested, filterAdded := c.filterAdded false,
                             maxNesting := natOf mn, maxNodes := natOf mx }
          some ["ok".toList, showGraph false tab rs cls (runGraph cfg rs)]
      | _ => some ["bad-request".toList]
    else if cmd == "c13.complabels".toList then
      -- c13.complabels <component prototypes in declaration order>
      -- -> the dict `comp_types` of the new node in insertion order (`t:i.j,...`: label of `t` = positions i, j)
      --    and, for each of its keys, the entry `comp_of[new node]` of that node
      match args with
      | comps :: _ =>
        let cs := natList comps
        let d := compLoop cs 0 []
        let showLabel := fun (k : Nat) (l : List Nat) => showNat k ++ [':'] ++ joinSep '.' (l.map showNat)
        some ["ok".toList, joinSep ',' (d.map fun (k, l) => showLabel k l),
              joinSep ',' (d.map fun (k, _) => showLabel k (compOfLoop k cs 0 []))]
      | _ => some ["bad-request".toList]
    else if cmd == "c13.proclabel".toList then
      -- c13.proclabel <show_proc_parent 0|1> <has parent 0|1> <has binder 0|1> <name> <parent> <binder>
      -- -> the label `ProcNode.__init__` gives the node
      match args with
      | sp :: hp :: hb :: name :: parent :: binder :: _ =>
        some ["ok".toList, procLabel (sp == ['1'])
          { name := name, parent := if hp == ['1'] then some parent else none,
            binder := if hb == ['1'] then some binder else none }]
      | _ => some ["bad-request".toList]
    else none
  | [] => none

end Ford
