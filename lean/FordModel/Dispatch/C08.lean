import FordModel.Proto
import FordModel.Calls
import FordModel.CallsTable
import FordModel.CallsLine
namespace Ford
open Proto Calls

def c08Intr : List Str := Calls.intr

def showChain (c : Chain) : Str := joinSep '%' c

def boolStr (b : Bool) : Str := if b then ['1'] else ['0']

def dispatchC08 : List Str → Option (List Str)
  | cmd :: args =>
    if cmd == "c08.unit".toList then
      -- statements of one unit body (reader output) -> recorded chains
      let s := runUnit Generated.C08.guards Generated.C08.cascade c08Intr args
      some ((if s.err then "err".toList else "ok".toList) :: s.calls.map showChain)
    else if cmd == "c08.resolve".toList then
      -- c08.resolve <vars,> <types,> <procs,> chain*   (chains joined with %)
      match args with
      | vs :: ts :: ps :: chains =>
        let sp (x : Str) : List Str := if x.isEmpty then [] else splitOn ',' x []
        some ("ok".toList :: resolve1 (sp vs) (sp ts) (sp ps) (chains.map (fun c => splitOn '%' c [])))
      | _ => some ["bad-request".toList]
    else if cmd == "c08.scope".toList then
      -- c08.scope <args,> <ret|-> <retTyped 0/1> <hprocs,> <htypes,> <hvars,> <n> stmt*n chain*
      --   stmt = T|attr;attr|name;name   or   A|keyword|name;name
      match args with
      | as :: ret :: rt :: hp :: ht :: hv :: n :: rest =>
        let sp (c : Char) (x : Str) : List Str := if x.isEmpty then [] else splitOn c x []
        let k := natOf n
        let stmts : List Scope.SpecStmt := (rest.take k).filterMap (fun f =>
          match splitOn '|' f [] with
          | [t, a, b] => if t == ['T'] then some (.tdecl (sp ';' a) (sp ';' b)) else some (.astmt a (sp ';' b))
          | _ => none)
        let u : Scope.Unit := { stmts := stmts, args := sp ',' as,
                                ret := if ret == ['-'] then none else some ret, retTyped := rt == ['1'] }
        let h : Scope.Host := { procs := sp ',' hp, types := sp ',' ht, vars := sp ',' hv }
        let chains := (rest.drop k).map (fun c => splitOn '%' c [])
        some ("ok".toList :: joinSep ',' (scopeNames u) :: keptCalls h u chains)
      | _ => some ["bad-request".toList]
    else if cmd == "c08.chains".toList then
      -- c08.chains <args,> <ret|-> <retTyped 0/1> <hprocs,> <htypes,> <hvars,> <vtypes n:t;> <fnret n:t;>
      --            <tprocs n:t;> <ntypes> typedef*ntypes <n> stmt*n <K|F> chain*
      --   typedef = name|binding:owner;...|component:type;...|parent;...
      --   K: `unit.calls` after correlate;  F: `_find_chain_item` per chain
      match args with
      | as :: ret :: rt :: hp :: ht :: hv :: vt :: fr :: tp :: nt :: rest =>
        let sp (c : Char) (x : Str) : List Str := if x.isEmpty then [] else splitOn c x []
        let pair (x : Str) : Str × Str := match splitOn ':' x [] with
          | [a, b] => (a, b)
          | a :: _ => (a, [])
          | [] => ([], [])
        let pairs (x : Str) : List (Str × Str) := (sp ';' x).map pair
        let opt (x : Str × Str) : Str × Option Str := (x.1, if x.2.isEmpty then none else some x.2)
        let kt := natOf nt
        let tds : List Chain.TypeDef := (rest.take kt).filterMap (fun f =>
          match splitOn '|' f [] with
          | [n, b, c, p] => some { name := n, bound := pairs b, comps := pairs c, parents := sp ';' p }
          | _ => none)
        let w : Chain.World := { types := tds, procs := (pairs tp).map opt }
        match rest.drop kt with
        | n :: rest2 =>
          let k := natOf n
          let stmts : List Scope.SpecStmt := (rest2.take k).filterMap (fun f =>
            match splitOn '|' f [] with
            | [t, a, b] => if t == ['T'] then some (.tdecl (sp ';' a) (sp ';' b)) else some (.astmt a (sp ';' b))
            | _ => none)
          let u : Scope.Unit := { stmts := stmts, args := sp ',' as,
                                  ret := if ret == ['-'] then none else some ret, retTyped := rt == ['1'] }
          let h : Scope.Host := { procs := sp ',' hp, types := sp ',' ht, vars := sp ',' hv }
          match rest2.drop k with
          | mode :: chains =>
            let chs := chains.map (fun c => splitOn '%' c [])
            if mode == ['K'] then
              some ("ok".toList :: (keptAll w h u (pairs vt) ((pairs fr).map opt) chs).map Chain.showKept)
            else
              some ("ok".toList :: chs.map (fun ch =>
                match chainItem w h u (pairs vt) ((pairs fr).map opt) ch with
                | some i => Chain.showItem i
                | none => ['-']))
          | [] => some ["bad-request".toList]
        | [] => some ["bad-request".toList]
      | _ => some ["bad-request".toList]
    else if cmd == "c08.strip".toList then
      match args with
      | [d, s] => some ("ok".toList :: stripParen s (natOf d))
      | _ => some ["bad-request".toList]
    else if cmd == "c08.callre".toList then
      match args with
      | [s] => some ("ok".toList :: callFindAll s)
      | _ => some ["bad-request".toList]
    else if cmd == "c08.subcall".toList then
      match args with
      | [s] => some (match subcallChain s with | some g => ["ok".toList, g] | none => ["none".toList])
      | _ => some ["bad-request".toList]
    else if cmd == "c08.chain".toList then
      match args with
      | [s] => some ("ok".toList :: chainOf s)
      | _ => some ["bad-request".toList]
    else if cmd == "c08.mask".toList then
      match args with
      | [s] => some ["ok".toList, maskQuotes s]
      | _ => some ["bad-request".toList]
    else if cmd == "c08.rx".toList then
      -- c08.rx <NAME> <s> : does the hand-written recogniser match (plus its group where used)
      match args with
      | [name, s] =>
        let n := String.ofList name
        if n == "FORMAT_RE" || n == "ARITH_GOTO_RE" then
          -- generated parse tree, interpreted
          some ["ok".toList, boolStr (Rx.guardTest Generated.C08.guards n s)]
        else if n == "BLOCK_RE" then some ["ok".toList, boolStr (blockRe s)]
        else if n == "VARIABLE_RE" then some ["ok".toList, boolStr (variableRe s)]
        else if n == "ATTRIB_RE" then some ["ok".toList, boolStr (attribRe s)]
        else if n == "USE_RE" then some ["ok".toList, boolStr (useRe s)]
        else if n == "COMMON_RE" then some ["ok".toList, boolStr (commonRe s)]
        else if n == "ASSOCIATE_RE" then
          some (match associateRe s with | some g => ["ok".toList, ['1'], g] | none => ["ok".toList, ['0']])
        else if n == "END_RE" then
          some (match endRe s with
            | some (some k) => ["ok".toList, ['1'], k]
            | some none => ["ok".toList, ['1'], "-".toList]
            | none => ["ok".toList, ['0']])
        else some ["bad-request".toList]
      | _ => some ["bad-request".toList]
    else if cmd == "c08.qsplit".toList then
      -- c08.qsplit <s> : `quote_split(";", s)`
      match args with
      | [s] => some ("ok".toList :: quoteSplit ';' s)
      | _ => some ["bad-request".toList]
    else if cmd == "c08.lines".toList then
      -- completed logical lines of a unit body -> the statements the reader delivers
      some ("ok".toList :: unitStatements args)
    else if cmd == "c08.phys".toList then
      -- physical lines of a unit body (comments, `&` continuations, `;`) -> the statements
      some (match readAll Marks.default args with
        | .ok items => "ok".toList :: items.filter (fun s => s.head? != some '!')
        | .error _ => ["err".toList])
    else if cmd == "c08.fixed".toList then
      -- c08.fixed <variant: 3 x 0/1> <limit 0/1> card* : fixed-form cards (with terminator) -> the statements
      match args with
      | v :: lim :: cards =>
        let var : Fixed.Variant := match v with
          | [a, b, c] => { blankShort := a == '1', col7Comment := b == '1', spacedExcess := c == '1' }
          | _ => {}
        some ("ok".toList :: fixedStatements var (lim == ['1']) cards)
      | _ => some ["bad-request".toList]
    else if cmd == "c08.gate".toList then
      -- c08.gate <blocklevel> <masked line> : branch taken
      match args with
      | [b, s] => some ["ok".toList, (gateName Generated.C08.guards Generated.C08.cascade s (natOf b : Nat)).toList]
      | _ => some ["bad-request".toList]
    else none
  | [] => none

end Ford
