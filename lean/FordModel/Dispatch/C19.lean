import FordModel.Proto
import FordModel.Fs
import FordModel.FsPages
import FordModel.FsGlob
namespace Ford
open Proto Fs

namespace C19D

def splitCharAux (sep : Char) : Str → Str → List Str
  | [], cur => [cur.reverse]
  | c :: cs, cur => if c = sep then cur.reverse :: splitCharAux sep cs [] else splitCharAux sep cs (c :: cur)

/-- inner separator of a field: U+001F -/
def us : Char := Char.ofNat 31

/-- separator inside a token: U+001E -/
def rs : Char := Char.ofNat 30

def parts (f : Str) : List Str := splitCharAux us f []

def absPath (s : Str) : Path := norm (splitSlash s)

def showPath (p : Path) : Str := if p = [] then ['/'] else p.flatMap (fun s => '/' :: s)

def pkName : PK → Str
  | .rmtree => "rmtree".toList | .rm => "rm".toList | .mk => "mk".toList | .wr => "wr".toList
  | .chmod => "chmod".toList | .utime => "utime".toList | .mvFrom => "mvfrom".toList | .mvTo => "mvto".toList
  | .symlink => "symlink".toList

def showPrim (p : Prim) : Str := pkName p.kind ++ ' ' :: showPath p.path

def parseTree (es : List Str) : Tree :=
  es.foldl (fun t e =>
    match e with
    | '0' :: r => { t with walk := t.walk ++ [(0, r)] }
    | '1' :: r => { t with walk := t.walk ++ [(1, r)] }
    | '2' :: r => { t with walk := t.walk ++ [(2, r)] }
    | '3' :: r => { t with walk := t.walk ++ [(3, r)] }
    | 'L' :: r =>
      match splitCharAux rs r [] with
      | [rel, target] => { t with links := t.links ++ [(rel, absPath target)] }
      | _ => t
    | 'T' :: r => { t with touch := t.touch ++ [r] }
    | _ => t) ⟨[], [], []⟩

def onLastPage (s : Site) (f : Page → Page) : Site :=
  match s.pages.getLast? with
  | some pg => { s with pages := s.pages.dropLast ++ [f pg] }
  | none => s

def isOne (s : Str) : Bool := s == ['1']

def mdOf (args : List Str) : MdMeta :=
  match args with
  | ok :: n :: rest =>
    let k := natOf n
    { ok := isOne ok, ordered := rest.take k, copy := rest.drop k }
  | _ => { ok := false }

/-- fields that describe the page tree as input (page directory, what lies on disk, metadata) -/
def stepPin (pin : PageIn) (tag : Str) (args : List Str) : Option PageIn :=
  if tag == "pdir".toList then some { pin with pageDir := absPath (args.headD []) }
  else if tag == "pnode".toList then
    match args with
    | p :: k :: rest =>
      if k == ['d'] then some { pin with nodes := pin.nodes ++ [(absPath p, .dir rest)] }
      else if k == ['m'] then some { pin with nodes := pin.nodes ++ [(absPath p, .file (some (mdOf rest)))] }
      else some { pin with nodes := pin.nodes ++ [(absPath p, .file none)] }
    | _ => some pin
  else if tag == "plink".toList then
    match args with
    | [a, b] => some { pin with links := pin.links ++ [(absPath a, absPath b)] }
    | _ => some pin
  else if tag == "pproj".toList then some { pin with projCopy := args }
  else if tag == "ptree".toList then
    match args with
    | loc :: item :: has :: es =>
      some { pin with trees := pin.trees ++ [((loc, item), if isOne has then some (parseTree es) else none)] }
    | _ => some pin
  else none

structure St where
  c : Cfg := {}
  s : Site := {}
  pin : PageIn := {}
  hasPin : Bool := false

def step0 (st : Cfg × Site) (field : Str) : Cfg × Site :=
  let (c, s) := st
  match parts field with
  | tag :: args =>
    if tag == "var".toList then
      ({ c with repaired := args.head? == some "repaired".toList,
                subGuard := args.drop 1 == ["guard".toList] }, s)
    else if tag == "dir".toList then ({ c with dir := absPath (args.headD []) }, s)
    else if tag == "link".toList then
      match args with
      | [a, b] => ({ c with links := c.links ++ [(absPath a, absPath b)] }, s)
      | _ => st
    else if tag == "out".toList then ({ c with out := args.headD [] }, s)
    else if tag == "gdir".toList then ({ c with gdir := some (args.headD []) }, s)
    else if tag == "mathjax".toList then ({ c with mathjax := some (args.headD []) }, s)
    else if tag == "src".toList then ({ c with srcDirs := c.srcDirs ++ [args.headD []] }, s)
    else if tag == "flag".toList then
      match args with
      | [n, v] =>
        if n == "graph".toList then ({ c with graph := isOne v }, s)
        else if n == "search".toList then ({ c with search := isOne v }, s)
        else if n == "inclsrc".toList then ({ c with inclSrc := isOne v }, s)
        else if n == "externalize".toList then ({ c with externalize := isOne v }, s)
        else if n == "css".toList then ({ c with css := isOne v }, s)
        else st
      | _ => st
    else if tag == "outkind".toList then ({ c with outKind := natOf (args.headD []) }, s)
    else if tag == "outmissing".toList then ({ c with outMissing := natOf (args.headD []) }, s)
    else if tag == "gmissing".toList then ({ c with gMissing := natOf (args.headD []) }, s)
    else if tag == "old".toList then
      -- symbolic link in the old output / graph directory: location, physical target, is-directory, removal fails
      match args with
      | [a, b, d, k] =>
        ({ c with links := c.links ++ [(absPath a, absPath b)],
                  old := c.old ++ [{ loc := absPath a, target := absPath b, isDir := isOne d, kept := isOne k }] }, s)
      | _ => st
    else if tag == "pre".toList then ({ c with pre := c.pre ++ [absPath (args.headD [])] }, s)
    else if tag == "lib".toList then (c, { s with libs := s.libs ++ [parseTree args] })
    else if tag == "searchtree".toList then (c, { s with searchTree := parseTree args })
    else if tag == "media".toList then (c, { s with mediaTree := some (parseTree args) })
    else if tag == "doc".toList then
      match args with
      | [d, n, k] => (c, { s with docs := s.docs ++ [(d, n, natOf k)] })
      | _ => st
    else if tag == "list".toList then (c, { s with lists := s.lists ++ [args.headD []] })
    else if tag == "srcfile".toList then (c, { s with srcFiles := s.srcFiles ++ [args.headD []] })
    else if tag == "page".toList then
      match args with
      | [l, n] => (c, { s with pages := s.pages ++ [{ loc := splitSlash l, stem := n, copies := [], files := [] }] })
      | _ => st
    else if tag == "pcopy".toList then
      match args with
      | item :: has :: es =>
        (c, onLastPage s (fun pg => { pg with copies := pg.copies ++
          [{ item := item, tree := if isOne has then some (parseTree es) else none }] }))
      | _ => st
    else if tag == "pfile".toList then
      (c, onLastPage s (fun pg => { pg with files := pg.files ++ [args.headD []] }))
    else if tag == "graphfile".toList then (c, { s with graphs := s.graphs ++ [args.headD []] })
    else st
  | [] => st

def step (st : St) (field : Str) : St :=
  match parts field with
  | tag :: args =>
    match stepPin st.pin tag args with
    | some pin => { st with pin := pin, hasPin := true }
    | none => let (c, s) := step0 (st.c, st.s) field; { st with c := c, s := s }
  | [] => st

def parseSt (fs : List Str) : St := fs.foldl step {}

/-- configuration and site; the static pages are those the input page tree gives -/
def parse (fs : List Str) : Cfg × Site :=
  let st := parseSt fs
  (st.c, if st.hasPin then withPages st.c.subGuard (outDir st.c) st.s (some st.pin) else st.s)

def showNode (n : PNode) : Str :=
  joinSlash n.loc ++ us :: pyStem (pyStem n.name) ++ us :: joinSep rs n.copy ++ us :: joinSep rs n.files

def b01 (b : Bool) : Str := if b then ['1'] else ['0']

end C19D

open C19D in
def dispatchC19 : List Str → Option (List Str)
  | cmd :: args =>
    if cmd == "c19.run".toList then
      let (c, s) := parse args
      let g := match graphDir c with | some g => showPath g | none => ['-']
      some ((if refuses c then "refused".toList else "ok".toList) :: showPath (outDir c) :: g ::
            b01 (noEscape s) :: (runPhys c s).map showPrim)
    else if cmd == "c19.guard".toList then
      -- output dir, page location, copy_subdir items: target of each item and the guard's verdict
      match args with
      | o :: loc :: items =>
        let op := absPath o
        let to := op ++ ["page".toList] ++ splitSlash loc
        some ("ok".toList :: items.map (fun it =>
          let dst := norm (joinRaw to it)
          b01 (guardAccepts op dst) ++ ' ' :: showPath dst))
      | _ => some ["bad-request".toList]
    else if cmd == "c19.pages".toList then
      -- the page tree of the input, both variants: location, stem, copy_subdir, files of every node
      let st := parseSt args
      some ("ok".toList :: (pageTree false st.pin).map showNode ++ ["--".toList] ++ (pageTree true st.pin).map showNode)
    else if cmd == "c19.relpath".toList then
      match args with
      | [p, s] => some ["ok".toList, joinSlash (relpath (splitSlash p) (splitSlash s)),
                        b01 (relOutside (splitSlash p) (splitSlash s))]
      | _ => some ["bad-request".toList]
    else if cmd == "c19.norm".toList then
      match args with
      | [s] => some ["ok".toList, showPath (norm (splitSlash s))]
      | _ => some ["bad-request".toList]
    else if cmd == "c19.ident".toList then
      match args with
      | [n, k] => some ["ok".toList, identFile n (natOf k)]
      | _ => some ["bad-request".toList]
    else if cmd == "c19.saferel".toList then
      match args with
      | [s] => some ["ok".toList, b01 (safeRel s)]
      | _ => some ["bad-request".toList]
    else if cmd == "c19.fnmatch".toList then
      match args with
      | [name, pat] => some ["ok".toList, b01 (FsGlob.fnmatch name pat)]
      | _ => some ["bad-request".toList]
    else if cmd == "c19.refuses".toList then
      -- project directory, raw output_dir, raw src_dir entries: the refusal on the settings as written
      match args with
      | d :: o :: srcs => some ["ok".toList, b01 (refuses { dir := absPath d, out := o, srcDirs := srcs })]
      | _ => some ["bad-request".toList]
    else if cmd == "c19.refusestr".toList then
      match args with
      | o :: srcs => some ["ok".toList, b01 (FsGlob.refusesStr o srcs)]
      | _ => some ["bad-request".toList]
    else if cmd == "c19.keepsrc".toList then
      -- variant, output directory, number of user exclude_dir entries, those entries, the files found
      match args with
      | v :: o :: n :: rest =>
        let k := natOf n
        some ("ok".toList :: FsGlob.keepSources (isOne v) (rest.take k) o (rest.drop k))
      | _ => some ["bad-request".toList]
    else if cmd == "c19.parents".toList then
      match args with
      | [s] => some ("ok".toList :: (parents (absPath s)).map showPath)
      | _ => some ["bad-request".toList]
    else none
  | [] => none

end Ford
