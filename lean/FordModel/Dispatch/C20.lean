import FordModel.Proto
import FordModel.ProjectLoop
import FordModel.EnumValues
import FordModel.IncludeNest
namespace Ford
open Proto

namespace C20D

def lastSeg (s : String) : Str :=
  ((s.toList.reverse.takeWhile (· != '.')).reverse)

def skName (k : SK) : Str := lastSeg (toString (repr k))
def repName (r : Rep) : Str := lastSeg (toString (repr r))
def errName (e : Err) : Str := lastSeg (toString (repr e))
def branchName (b : Branch) : Str := lastSeg (toString (repr b))

def allSK : List SK :=
  [.contains, .perm, .attrib, .attribParen, .dataStmt, .endUnit, .endUnitSub, .endUnitFun, .endBlock,
   .endAssociate, .modproc, .blockdata, .block, .associate, .module, .submodule, .program, .subroutine,
   .subroutineBare, .function, .typedFunction, .type, .interface, .interfaceAnon, .absInterface,
   .absGeneric, .enum, .variable, .variableParen, .use, .callParen, .callBare, .other,
   .namelist, .common, .format, .arithGoto]

def skOf (n : Str) : SK := (allSK.find? (fun k => skName k == n)).getD .other

def boolOf (s : Str) : Bool := s == ['1']

def cfgOf (d f r : Str) : Cfg := { dbg := boolOf d, force := boolOf f, skipReported := boolOf r }

def stmtsOf : List Str → List Stmt
  | k :: n :: rest => { kind := skOf k, name := n } :: stmtsOf rest
  | _ => []

def commaJoin (xs : List Str) : Str := joinSep ',' xs

def showOutcome : Outcome → List Str
  | .registered paths reps => ["ok".toList, "registered".toList, [], commaJoin (reps.map repName)] ++ paths
  | .skipped e reps => ["ok".toList, "skipped".toList, errName e, commaJoin (reps.map repName)]

/-- split the argument list at fields equal to "|" -/
def splitBar : List Str → List Str → List (List Str)
  | [], cur => [cur.reverse]
  | x :: xs, cur => if x == ['|'] then cur.reverse :: splitBar xs [] else splitBar xs (x :: cur)

def srcOf : List Str → Str × Src
  | name :: tag :: rest =>
    if tag == ['U'] then (name, .undecodable)
    else if tag == ['R'] then (name, .readerError)
    else (name, .stmts (stmtsOf rest))
  | [name] => (name, .stmts [])
  | [] => ([], .stmts [])

def natStr (n : Nat) : Str := (toString n).toList

def showNames (ns : List NameKey) : Str := commaJoin (ns.map (fun k => k.1 ++ '/' :: k.2))

def showObs : Markup.Obs → List Str
  | .shown t => ["ok".toList, "shown".toList, t]
  | .raised => ["ok".toList, "raised".toList]
  | .unknown => ["ok".toList, "unknown".toList]

def showPiece : Markup.Piece → Str
  | .lit s => "lit:".toList ++ s
  | .msg => "msg".toList
  | .msgEscaped => "escape(msg)".toList

def showArg : Markup.Arg → Str
  | .markup ps => "str(".toList ++ joinSep '+' (ps.map showPiece) ++ [')']
  | .text ps => "Text(".toList ++ joinSep '+' (ps.map showPiece) ++ [')']

def showState (st : ProjState) (names : List NameKey) : List Str :=
  ["ok".toList,
   commaJoin (st.reg.files.map (·.1)),
   commaJoin st.reg.modules, commaJoin st.reg.submodules, commaJoin st.reg.procedures,
   commaJoin st.reg.programs, commaJoin st.reg.blockdata,
   commaJoin (st.warned.map (fun w => w.1 ++ '=' :: errName w.2)),
   match st.aborted with | some (n, e) => n ++ '=' :: errName e | none => [],
   'N' :: '=' :: showNames names]

/-- enumerators of one ENUM block: pairs of fields, name and `~` (no value) or `=` ++ the text after `=` -/
def enumeratorsOf : List Str → List EnumValues.Enumerator
  | n :: i :: rest =>
    { name := n, initial := (match i with | '=' :: t => some t | _ => none) } :: enumeratorsOf rest
  | _ => []

def showInt (i : Int) : Str := (toString i).toList

def showEnum (es : List EnumValues.Enumerator) : List Str :=
  match EnumValues.enumCleanup es with
  | .ok vs => ["ok".toList, "values".toList, commaJoin (vs.map showInt)]
  | .error n => ["ok".toList, "raised".toList, n]

def splitComma : Str → Str → List Str
  | [], cur => [cur.reverse]
  | c :: cs, cur => if c == ',' then cur.reverse :: splitComma cs [] else splitComma cs (c :: cur)

def pathOf (s : Str) : IncludeNest.Path := IncludeNest.joinPath [] s
def showPath (p : IncludeNest.Path) : Str := '/' :: joinSep '/' p

/-- one file: path, `U` | `R` | `I`, items -/
def incFileOf : List Str → Option (IncludeNest.Path × IncludeNest.FileBody)
  | p :: k :: its =>
    some (pathOf p, if k == ['U'] then .undecodable else if k == ['R'] then .refusedAfter its else .items its)
  | _ => none

def showIncErr : IncludeNest.IncErr → List Str
  | .missing n => ["missing".toList, n]
  | .undecodable f => ["undecodable".toList, showPath f]
  | .refused f => ["refused".toList, showPath f]
  | .recursion => ["recursion".toList]

end C20D

open C20D in
def dispatchC20 : List Str → Option (List Str)
  | cmd :: args =>
    if cmd == "c20.parse".toList then
      match args with
      | d :: f :: r :: rest => some (showOutcome (parseFile (cfgOf d f r) (stmtsOf rest)))
      | _ => some ["bad-request".toList]
    else if cmd == "c20.enum".toList then
      -- one ENUM block -> the values `_cleanup` works out | the enumerator it raises for
      some (showEnum (enumeratorsOf args))
    else if cmd == "c20.parseenums".toList then
      -- cfg, statements | enumerators of the 1st ENUM block | of the 2nd ... -> outcome of the file's constructor
      match args with
      | d :: f :: r :: rest =>
        match splitBar rest [] with
        | ss :: enums => some (showOutcome (EnumValues.fileWithEnums (parseFile (cfgOf d f r) (stmtsOf ss))
                                 ((enums.filter (fun l => !l.isEmpty)).map enumeratorsOf)))
        | [] => some ["bad-request".toList]
      | _ => some ["bad-request".toList]
    else if cmd == "c20.include".toList then
      -- depth, top file, inc_dirs (comma separated) | file | file ...  ->  items | error
      match splitBar args [] with
      | (d :: top :: dirs) :: files =>
        let fs := files.filterMap incFileOf
        let incDirs := ((splitComma (dirs.headD []) []).filter (fun x => !x.isEmpty)).map pathOf
        match IncludeNest.readFile fs incDirs (natOf d) (pathOf top) with
        | .ok its => some ("ok".toList :: "items".toList :: its)
        | .error e => some ("ok".toList :: "error".toList :: showIncErr e)
      | _ => some ["bad-request".toList]
    else if cmd == "c20.row".toList then
      match args with
      | [k] => some ("ok".toList :: (matchRow (skOf k)).map branchName)
      | _ => some ["bad-request".toList]
    else if cmd == "c20.cascade".toList then
      some ("ok".toList :: Gen.cascade.map (fun bg => branchName bg.1))
    else if cmd == "c20.project".toList then
      match args with
      | d :: f :: r :: rest =>
        let files := (splitBar rest []).filter (fun l => !l.isEmpty)
        some (showState (loadProject (cfgOf d f r) (files.map srcOf)) (projectNames (cfgOf d f r) (files.map srcOf)))
      | _ => some ["bad-request".toList]
    else if cmd == "c20.rxlist".toList then
      -- one field per pattern: name=loops,loops that can be re-entered after a failure,of those not functional
      some ("ok".toList :: Gen.patterns.map (fun p =>
        p.1 ++ '=' :: commaJoin [natStr (Rx.allLoops p.2).length, natStr (Rx.loopsCF p.2 true).length,
                                 natStr (Rx.badLoops p.2).length]))
    else if cmd == "c20.rxmatch".toList then
      -- pattern index, subject  ->  does `pattern.match(subject)` succeed
      match args with
      | [i, s] =>
        match Gen.patterns[natOf i]? with
        | some p => some ["ok".toList, (if Rx.matchesAt0 p.2 s then ['1'] else ['0'])]
        | none => some ["bad-request".toList]
      | _ => some ["bad-request".toList]
    else if cmd == "c20.mkescape".toList then
      -- rich.markup.escape
      match args with
      | [s] => some ["ok".toList, Markup.escape s]
      | _ => some ["bad-request".toList]
    else if cmd == "c20.mkrender".toList then
      -- emoji flag, markup  ->  rich.markup.render(markup).plain | raised | unknown
      match args with
      | [e, s] => some (showObs (Markup.render { emoji := boolOf e, tbl := Gen.emojiSample } s))
      | _ => some ["bad-request".toList]
    else if cmd == "c20.warn".toList then
      -- message  ->  what ford.console.warn puts on the terminal
      match args with
      | [m] => some (showObs (Markup.warnShown Gen.emojiSample Gen.warnSpec m))
      | _ => some ["bad-request".toList]
    else if cmd == "c20.progress".toList then
      -- path  ->  what the progress bar makes of the current file
      match args with
      | [p] => some (showObs (Markup.progressObs Gen.emojiSample Gen.progressSpec p))
      | _ => some ["bad-request".toList]
    else if cmd == "c20.rejectionmsg".toList then
      match args with
      | [p, e] => some ["ok".toList, Markup.rejectionText Gen.rejectionRules p e]
      | _ => some ["bad-request".toList]
    else if cmd == "c20.diagspec".toList then
      some ["ok".toList, joinSep ',' (Gen.warnSpec.args.map showArg),
            (if Gen.warnSpec.markup then "markup" else "nomarkup").toList,
            (if Gen.warnSpec.emoji then "emoji" else "noemoji").toList,
            (if Gen.progressSpec.markup then "progress:markup" else "progress:plain").toList,
            (if Gen.progressSpec.escaped then "progress:escaped" else "progress:raw").toList]
    else none
  | [] => none

end Ford
