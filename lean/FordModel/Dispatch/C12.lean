import FordModel.Proto
import FordModel.Order
namespace Ford
open Proto Order

namespace C12D

def splitSlash (s : Str) : Order.Path :=
  let rec go : Str → Str → List Str
    | [], cur => [cur.reverse]
    | c :: cs, cur => if c == '/' then cur.reverse :: go cs [] else go cs (c :: cur)
  go s []

def joinSlash (p : Order.Path) : Str := joinSep '/' p

/-- triples uid dir name -/
def parseEnts : List Str → List Ent
  | u :: d :: n :: rest => ⟨natOf u, d, n⟩ :: parseEnts rest
  | _ => []

/-- ops: `R path` | `W path content` -/
def parseOps : List Str → List Op
  | t :: p :: rest =>
    if t == ['R'] then Op.rmtree (splitSlash p) :: parseOps rest
    else match rest with
      | c :: rest' => Op.write (splitSlash p) c :: parseOps rest'
      | [] => []
  | _ => []

def parseInit : Nat → List Str → FS × List Str
  | 0, rest => ([], rest)
  | n + 1, p :: c :: rest => let (fs, r) := parseInit n rest; ((splitSlash p, c) :: fs, r)
  | _ + 1, rest => ([], rest)

/-- files: records `F path base content uid name`, `U list uid dir name`,
    `I list uid dir name` (entity inside the last unit), `T list uid dir name` (file-level procedure) -/
def addInner (f : SrcFile) (it : Item) : SrcFile :=
  match f.units.reverse with
  | [] => f
  | u :: us => { f with units := (({ u with inner := u.inner ++ [it] }) :: us).reverse }

def parseFiles : List Str → List SrcFile → List SrcFile
  | t :: a :: b :: c :: d :: rest, acc =>
    if t == ['F'] then
      match rest with
      | e :: rest' =>
        parseFiles rest' ({ path := a, base := b, content := c, ent := ⟨natOf d, "sourcefile".toList, e⟩,
                            units := [], top := [] } :: acc)
      | [] => acc.reverse
    else
      match acc with
      | [] => []
      | f :: fs =>
        let ent : Ent := ⟨natOf b, c, d⟩
        if t == ['U'] then parseFiles rest ({ f with units := f.units ++ [{ list := a, ent := ent, inner := [] }] } :: fs)
        else if t == ['I'] then parseFiles rest (addInner f { list := a, ent := ent } :: fs)
        else parseFiles rest ({ f with top := f.top ++ [{ list := a, ent := ent }] } :: fs)
  | _, acc => acc.reverse

/-- `n` records `dir has(0|1)` -/
def parseDirs : Nat → List Str → List (Str × Bool)
  | 0, _ => []
  | n + 1, d :: h :: rest => (d, h == ['1']) :: parseDirs n rest
  | _ + 1, _ => []

/-- levels of an inheritance chain, root first: `n` then `n` records `name priv(0|1)` -/
def parseLevel : Nat → List Str → List Binding × List Str
  | 0, rest => ([], rest)
  | n + 1, a :: b :: rest => let (l, r) := parseLevel n rest; (⟨a, b == ['1']⟩ :: l, r)
  | _ + 1, rest => ([], rest)

def parseLevels : Nat → List Str → List (List Binding)
  | 0, _ => []
  | k + 1, n :: rest => let (l, r) := parseLevel (natOf n) rest; l :: parseLevels k r
  | _ + 1, [] => []

/-- pairs `ident label` -/
def parseNodes : List Str → List Node
  | i :: l :: rest => ⟨i, l⟩ :: parseNodes rest
  | _ => []

def takeN : Nat → List Str → List Str × List Str
  | 0, rest => ([], rest)
  | n + 1, x :: rest => let (a, r) := takeN n rest; (x :: a, r)
  | _ + 1, [] => ([], [])

/-- `n` then `n` fields -/
def takeCounted : List Str → List Str × List Str
  | n :: rest => (rest.take (natOf n), rest.drop (natOf n))
  | [] => ([], [])

/-- pairs `path real-path` -/
def parseAliases : List Str → List (Order.Path × Order.Path)
  | p :: r :: rest => (splitSlash p, splitSlash r) :: parseAliases rest
  | _ => []

/-- records of 14 fields: uid name obj permission vartype kind strlen proto proctype hasRetvar rv.vartype rv.kind rv.strlen rv.proto -/
def parseComps : List Str → List Comp
  | u :: n :: o :: pm :: vt :: k :: sl :: pr :: pt :: hr :: rvt :: rk :: rsl :: rpr :: rest =>
    ⟨natOf u, n, o, pm, ⟨vt, k, sl, pr⟩, pt, if hr == ['1'] then some ⟨rvt, rk, rsl, rpr⟩ else none⟩ :: parseComps rest
  | _ => []

def showKind : FileKind → List Str
  | .fortran p f => ["fortran".toList, (if p then ['1'] else ['0']), (if f then ['1'] else ['0'])]
  | .extra => ["extra".toList]
  | .skipped => ["skipped".toList]

def variantOf (s : Str) : Variant :=
  if s == "repaired".toList then .repaired else if s == "asIs".toList then .asIs else variantOfTree

end C12D

open C12D in
def dispatchC12 : List Str → Option (List Str)
  | cmd :: args =>
    if cmd == "c12.sort".toList then
      some ("ok".toList :: sortOn id args)
    else if cmd == "c12.number".toList then
      some ("ok".toList :: (number (parseEnts args)).flatMap (fun p => [Order.showNat p.1.uid, p.2]))
    else if cmd == "c12.fs".toList then
      match args with
      | n :: rest =>
        let (fs, r) := parseInit (natOf n) rest
        some ("ok".toList :: (run (parseOps r) fs).flatMap (fun e => [joinSlash e.1, e.2]))
      | [] => some ["bad-request".toList]
    else if cmd == "c12.site".toList then
      match args with
      | v :: rest =>
        let files := parseFiles rest []
        let order := parseOrder (variantOf v) files
        let s := siteOf order
        some (["ok".toList, "order".toList] ++ order.map (·.path)
          ++ ["idents".toList] ++ s.idents.flatMap (fun p => [Order.showNat p.1, p.2])
          ++ ["search".toList] ++ s.search.map Order.showNat
          ++ ["src".toList] ++ s.srcTree.flatMap (fun e => [joinSlash e.1, e.2])
          ++ ["lists".toList] ++ (Gen.C12.pageListOrder.flatMap fun pl =>
                ("#".toList ++ pl.1) :: (projectList order pl.1).map (fun e => Order.showNat e.uid)))
      | [] => some ["bad-request".toList]
    else if cmd == "c12.variant".toList then
      some ["ok".toList, (if Gen.C12.fileIterSorted then "repaired".toList else "asIs".toList),
            (if Gen.C12.usesIterSorted then "sorted".toList else "unsorted".toList),
            (if Gen.C12.countKeyLower then "lower".toList else "asWritten".toList),
            (if Gen.C12.incDirsOrdered then "ordered".toList else "hash".toList),
            (if Gen.C12.inheritedIterOrdered then "ordered".toList else "hash".toList),
            (if Gen.C12.nodeLtByIdent then "ident".toList else "other".toList),
            (if Gen.C12.entityLtByIdent then "ident".toList else "other".toList),
            (if Gen.C12.pageListNatural then "natural".toList else "keyed".toList),
            (if Gen.C12.extensionBySuffix then "suffix".toList else "firstMatch".toList)]
    else if cmd == "c12.filekind".toList then
      -- c12.filekind <name> <n> exts.. <n> fixed.. <n> fpp.. <n> extra..   (lists in the order the settings hold them)
      match args with
      | name :: rest =>
        let (e, r1) := takeCounted rest
        let (f, r2) := takeCounted r1
        let (p, r3) := takeCounted r2
        let (x, _) := takeCounted r3
        some ("ok".toList :: showKind (fileKindTree id ⟨e, f, p, x⟩ name))
      | [] => some ["bad-request".toList]
    else if cmd == "c12.find".toList then
      -- c12.find <configuration> <out> <n> src dirs.. <n> user exclude dirs.. <n> extensions.. then the files
      match args with
      | cfg :: out :: rest =>
        let (sd, r1) := takeCounted rest
        let (ex, r2) := takeCounted r1
        let (es, files) := takeCounted r2
        let fs : FS := files.map (fun f => (splitSlash f, []))
        some ("ok".toList :: (findSourcesTree cfg (sd.map splitSlash) (ex.map splitSlash) (splitSlash out) es fs).map joinSlash)
      | _ => some ["bad-request".toList]
    else if cmd == "c12.include".toList then
      -- c12.include <own dir> <own has 0|1> <n> {dir has}: the directory the include file is taken from
      -- (the configured order stands in for the unknown iteration order when the tree goes through a set)
      match args with
      | own :: oh :: n :: rest =>
        let dirs := parseDirs (natOf n) rest
        let has : Str → Bool := fun d => if d == own then oh == ['1'] else (dirs.find? (fun p => p.1 == d)).any (·.2)
        match resolveIncludeTree id has own (dirs.map (·.1)) with
        | some d => some ["ok".toList, "some".toList, d]
        | none => some ["ok".toList, "none".toList]
      | _ => some ["bad-request".toList]
    else if cmd == "c12.inherit".toList then
      -- c12.inherit <b|c> <levels> {n {name priv}}: bindings / components a type shows, chain root first
      match args with
      | kind :: k :: rest =>
        let levels := parseLevels (natOf k) rest
        let r := if kind == ['b'] then chainBindings Gen.C12.inheritedIterOrdered id levels
                 else chainComps Gen.C12.inheritedIterOrdered id levels
        some ("ok".toList :: r.map (·.name))
      | _ => some ["bad-request".toList]
    else if cmd == "c12.nodes".toList then
      -- c12.nodes <node|entity> {ident label}: `sorted()` of the objects, given in the iteration order of the set
      match args with
      | kind :: rest =>
        let ns := parseNodes rest
        let r := if kind == "entity".toList then sortEntitiesTree ns else emitNodesTree ns
        some ("ok".toList :: r.map (·.ident))
      | [] => some ["bad-request".toList]
    else if cmd == "c12.pages".toList then
      -- c12.pages <n> {ordered_subpage} {listdir result}: the names get_page_tree walks, in order
      match args with
      | n :: rest =>
        let (ordered, enum) := takeN (natOf n) rest
        some ("ok".toList :: pageFileListTree ordered enum)
      | [] => some ["bad-request".toList]
    else if cmd == "c12.colours".toList then
      -- c12.colours {ident label}: the nodes of a hop in the order the collection hands them out;
      -- answer: ident colour-number ... in emission order (`add_nodes` of the tree)
      let ns := parseNodes args
      some ("ok".toList :: (hopColoursTree id ns).flatMap (fun e => [e.1, Proto.showNat e.2]))
    else if cmd == "c12.findlisted".toList then
      -- c12.findlisted <n> src dirs.. <n> exclude dirs.. <n> extensions.. then {path real-path} in enumeration order
      let (sd, r1) := takeCounted args
      let (ex, r2) := takeCounted r1
      let (es, r3) := takeCounted r2
      let al := parseAliases r3
      let real : Order.Path → Order.Path := fun p => ((al.find? (fun e => e.1 == p)).map (·.2)).getD p
      some ("ok".toList :: (findSourcesListedTree real (sd.map splitSlash) (ex.map splitSlash) es (al.map (·.1))).map joinSlash)
    else if cmd == "c12.sortcomp".toList then
      -- c12.sortcomp <mode> {14 fields per entity, in source order}: uids after sort_components
      match args with
      | mode :: rest => some ("ok".toList :: (sortComponents mode (parseComps rest)).map (fun c => Proto.showNat c.uid))
      | [] => some ["bad-request".toList]
    else if cmd == "c12.writeout".toList then
      -- c12.writeout <out> <nInit> init... then groups of writes separated by a field "|" : path content ...
      match args with
      | out :: n :: rest =>
        let (fs, r) := parseInit (natOf n) rest
        let rec groups : List Str → List (Order.Path × Str) → List (List (Order.Path × Str))
          | [], cur => [cur.reverse]
          | [x], cur => if x == ['|'] then [cur.reverse, []] else [cur.reverse]
          | x :: y :: rest, cur =>
            if x == ['|'] then cur.reverse :: groups (y :: rest) []
            else groups rest ((splitSlash x, y) :: cur)
        some ("ok".toList :: (run (writeoutOps (splitSlash out) (groups r [])) fs).flatMap (fun e => [joinSlash e.1, e.2]))
      | _ => some ["bad-request".toList]
    else none
  | [] => none

end Ford
