import FordModel.Proto
import FordModel.Parse
import FordModel.TypeSpec
import FordModel.Mask
import FordModel.Attribs
import FordModel.TypeHead
import FordModel.Entity
import FordModel.FuncHead
import FordModel.SrcFiles
namespace Ford
open Proto Parse

namespace C01D

def splitColon (s : Str) : List Str :=
  let rec go : Str → Str → List Str
    | [], cur => [cur.reverse]
    | c :: cs, cur => if c == ':' then cur.reverse :: go cs [] else go cs (c :: cur)
  go s []

def b (s : Str) : Bool := s == ['1']

def itemOf (s : Str) : Item :=
  match (splitColon s).map String.ofList with
  | ["doc"] => .doc | ["contains"] => .contains | ["access"] => .access | ["sequence"] => .sequence
  | ["format"] => .format | ["attrib", d] => .attrib (d == "1")
  | ["endblock"] => .endBlock | ["endassoc"] => .endAssoc | ["end"] => .endUnit
  | ["modproc", m, id] => .modproc (m == "1") id.toNat!
  | ["blockdata", id] => .blockData id.toNat! | ["block"] => .block | ["associate"] => .associate
  | ["module", id] => .module id.toNat! | ["submodule", id] => .submodule id.toNat!
  | ["program", id] => .program id.toNat! | ["subroutine", id] => .subroutine id.toNat!
  | ["namelist", id] => .namelist id.toNat! | ["function", id] => .function id.toNat!
  | ["type", id] => .typeDef id.toNat! | ["interface", g, a, id] => .interface (g == "1") (a == "1") id.toNat!
  | ["enum", id] => .enum id.toNat! | ["boundproc", id] => .boundproc id.toNat!
  | ["common", id] => .common id.toNat! | ["final", id] => .final id.toNat!
  | ["variable", id] => .variable id.toNat! | ["use", id] => .use id.toNat!
  | ["goto"] => .arithGoto | ["call"] => .call | ["subcall"] => .subcall
  | _ => .other

def ckStr : CK → String
  | .file => "file" | .module => "module" | .submodule => "submodule" | .program => "program"
  | .subroutine => "subroutine" | .function => "function" | .modprocImpl => "modprocimpl"
  | .type => "type" | .interface => "interface" | .enum => "enum" | .blockdata => "blockdata"

def lkStr : LeafK → String
  | .variable => "variable" | .boundproc => "boundproc" | .final => "final" | .use => "use"
  | .common => "common" | .namelist => "namelist" | .modprocRef => "modprocref"

mutual
partial def showNode : Node → String
  | .mk k id g a evs =>
    "(" ++ ckStr k ++ " " ++ toString id ++ " " ++ (if g then "1" else "0") ++ " " ++ (if a then "1" else "0")
      ++ String.join (evs.map fun e => " " ++ showEv e) ++ ")"
partial def showEv : Ev → String
  | .inl n => showNode n
  | .inr (lk, id) => lkStr lk ++ ":" ++ toString id
end

def optStr : Option Str → Str
  | none => "-".toList
  | some s => '+' :: s

def tErrStr (e : TypeSpec.TErr) : String := (reprStr e).replace "Ford.TypeSpec.TErr." ""

def mErrStr (e : Mask.Err) : String := (reprStr e).replace "Ford.Mask.Err." ""

/-- split at every `sep` (no nesting) -/
def splitOn (sep : Char) (s : Str) : List Str :=
  let rec go : Str → Str → List Str
    | [], cur => [cur.reverse]
    | c :: cs, cur => if c == sep then cur.reverse :: go cs [] else go cs (c :: cur)
  go s []

/-- a list field: the empty field is the empty list -/
def listOf (sep : Char) (s : Str) : List Str := if s.isEmpty then [] else splitOn sep s

def optOf (s : Str) : Option Str :=
  match s with
  | '+' :: r => some r
  | _ => none

def entOf (s : Str) : Attribs.Ent :=
  match splitOn '^' s with
  | [n, d, i] => ⟨n, d, optOf i⟩
  | _ => ⟨s, [], none⟩

/-- `D|attr~attr|name^dims^init~..` or `A|kw|rest` -/
def stmtOf (s : Str) : Attribs.Stmt :=
  match splitOn '|' s with
  | [['D'], as, es] => .decl (listOf '~' as) ((listOf '~' es).map entOf)
  | [['A'], kw, rest] => .attr kw rest
  | _ => .attr [] []

def bStr (x : Bool) : Str := if x then ['1'] else ['0']

def varStr (v : Attribs.Var) : Str :=
  joinSep '^' [v.name, joinSep '~' v.attribs, v.dimension, v.intent, bStr v.optional, v.permission,
               bStr v.parameter, optStr v.initial]

def errStr (e : Err) : String := (reprStr e).replace "Ford.Parse.Err." ""
def excStr (e : Exc) : String := (reprStr e).replace "Ford.Parse.Exc." ""

end C01D

def dispatchC01 : List Str → Option (List Str)
  | cmd :: args =>
    if cmd == "c01.parse".toList then
      match parseFile (args.map C01D.itemOf) with
      | .ok (n, errs) => some ["ok".toList, (C01D.showNode n).toList, (String.intercalate "," (errs.map C01D.errStr)).toList]
      | .error e => some ["exc".toList, (C01D.excStr e).toList]
    else if cmd == "c01.parsetype".toList then
      match args with
      | [s] =>
        match TypeSpec.parseType s with
        | .ok p => some ["ok".toList, p.vartype, p.rest, C01D.optStr p.kind, C01D.optStr p.strlen,
                         C01D.optStr (p.proto.map (·.1)), C01D.optStr (p.proto.map (·.2))]
        | .error e => some ["err".toList, (C01D.tErrStr e).toList]
      | _ => some ["bad-args".toList]
    else if cmd == "c01.mask".toList then
      match args with
      | [s] =>
        match Mask.mask s with
        | .ok (m, strs) => some ("ok".toList :: m :: strs)
        | .error e => some ["err".toList, (C01D.mErrStr e).toList]
      | _ => some ["bad-args".toList]
    else if cmd == "c01.restore".toList then
      match args with
      | s :: strs =>
        match Mask.restore Mask.nbsp s strs with
        | .ok r => some ["ok".toList, r]
        | .error e => some ["err".toList, (C01D.mErrStr e).toList]
      | _ => some ["bad-args".toList]
    else if cmd == "c01.attrs".toList then
      match args with
      | c1 :: c2 :: c3 :: c4 :: bd :: inherit :: stmts =>
        match Attribs.run ⟨C01D.b c1, C01D.b c2, C01D.b c3, C01D.b c4⟩ (C01D.b bd) inherit (stmts.map C01D.stmtOf) with
        | .ok vs => some ("ok".toList :: vs.map C01D.varStr)
        | .error _ => some ["exc".toList, "indexError".toList]
      | _ => some ["bad-args".toList]
    else if cmd == "c01.typere".toList then
      match args with
      | [s] =>
        if !TypeHead.modelled s then some ["unmodelled".toList]
        else
          match TypeHead.typeRe s with
          | some h => some ["some".toList, C01D.optStr h.attrs, h.name, C01D.optStr h.params]
          | none => some ["none".toList]
      | _ => some ["bad-args".toList]
    else if cmd == "c01.typestmt".toList then
      match args with
      | [inh, s] =>
        if !TypeHead.modelled s then some ["unmodelled".toList]
        else
          match TypeHead.typeStmt inh s with
          | some t =>
            some (["some".toList, t.name, C01D.optStr t.base, t.permission, showNat t.attribs.length]
                  ++ t.attribs ++ t.parameters)
          | none => some ["none".toList]
      | _ => some ["bad-args".toList]
    else if cmd == "c01.varre".toList then
      match args with
      | [s] =>
        if !TypeHead.modelled s then some ["unmodelled".toList]
        else
          match TypeHead.varRe s with
          | some (g1, g2) => some ["some".toList, g1, g2]
          | none => some ["none".toList]
      | _ => some ["bad-args".toList]
    else if cmd == "c01.entity".toList then
      match args with
      | [s] => some ["ok".toList, (Entity.mkVar s).name, (Entity.mkVar s).spec]
      | _ => some ["bad-args".toList]
    else if cmd == "c01.args".toList then
      -- `c01.args <n> a1 .. an e1 .. em` : n dummy argument names, then the declared entities
      match args with
      | n :: rest =>
        let k := (String.ofList n).toNat!
        let r := Entity.cleanup (rest.take k) (rest.drop k)
        some (["ok".toList, showNat r.1.length]
          ++ r.1.flatMap (fun a => match a with
                | .declared v => ["d".toList, v.name, v.spec]
                | .implicit nm => ["i".toList, nm, []])
          ++ r.2.flatMap (fun v => [v.name, v.spec]))
      | _ => some ["bad-args".toList]
    else if cmd == "c01.funcre".toList then
      match args with
      | [s] =>
        if !TypeHead.modelled s then some ["unmodelled".toList]
        else
          match FuncHead.funcRe s with
          | some g => some ["some".toList, C01D.optStr g.attributes, g.name, C01D.optStr g.arguments,
                            C01D.optStr g.result, C01D.optStr g.bindC]
          | none => some ["none".toList]
      | _ => some ["bad-args".toList]
    else if cmd == "c01.funcstmt".toList then
      -- `c01.funcstmt <typed> <statement> e1 .. em` : is the text in front of FUNCTION a type specification,
      -- the (masked) statement, the entities the declarations of the function name
      match args with
      | typed :: s :: ents =>
        if !TypeHead.modelled s then some ["unmodelled".toList]
        else
          match FuncHead.funcRe s with
          | none => some ["none".toList]
          | some g =>
            let r := FuncHead.funcCleanup (C01D.b typed) g ents
            let bind : List Str := match g.bindC with
              | none => ["-".toList]
              | some t => match FuncHead.bindText t with
                | some x => ['+' :: x]
                | none => ["!".toList]
            some (["some".toList, g.name] ++ bind ++ [showNat r.1.length]
              ++ r.1.flatMap (fun a => match a with
                    | .declared v => ["d".toList, v.name, v.spec]
                    | .implicit nm => ["i".toList, nm, []])
              ++ (match r.2.1 with
                    | .prefixTyped nm => ["p".toList, nm, []]
                    | .declared v => ["d".toList, v.name, v.spec]
                    | .implicit nm => ["i".toList, nm, []])
              ++ r.2.2.flatMap (fun v => [v.name, v.spec]))
      | _ => some ["bad-args".toList]
    else if cmd == "c01.files".toList then
      -- `c01.files <cwd> <dirs> <exts> <exclude_dir> <exclude> entry ..` : lists separated by `|`, an entry is
      -- `F<path>` or `D<path>`
      match args with
      | cwd :: dirs :: exts :: exdirs :: excl :: entries =>
        let c : SrcFiles.Cfg :=
          ⟨C01D.listOf '|' dirs, C01D.listOf '|' exts, C01D.listOf '|' exdirs, C01D.listOf '|' excl, cwd,
           entries.map fun e => ⟨e.drop 1, e.head? == some 'F'⟩⟩
        if !SrcFiles.modelled c then some ["unmodelled".toList]
        else some (["ok".toList, joinSep '|' (SrcFiles.excludeAfter c)] ++ SrcFiles.findAllFiles c)
      | _ => some ["bad-args".toList]
    else none
  | [] => none

end Ford
