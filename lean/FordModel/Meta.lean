/-
  Model of `ford.utils.meta_preprocessor` (the four regexes and the loop), of the
  one-line heuristic in `FortranBase.read_metadata`, and of `textwrap.dedent`
  as `FortranBase.markdown` applies it to the joined doc lines.
-/
import FordModel.Basic.Chars
import FordModel.Generated.C03
namespace Ford

def isKeyChar (c : Char) : Bool := isAlpha c || isDigit c || c == '_' || c == '-'

/-- `META_RE.match(line)` = `^[ ]{0,3}(?P<key>[A-Za-z0-9_-]+):\s*(?P<value>.*)`:
    (key as written, value) -/
def metaRe (line : Str) : Option (Str × Str) :=
  let sp := line.takeWhile (· == ' ')
  if sp.length > 3 then none else
  let r := line.dropWhile (· == ' ')
  let key := r.takeWhile isKeyChar
  if key.isEmpty then none else
  match r.dropWhile isKeyChar with
  | ':' :: v => some (key, lstrip v)
  | _ => none

/-- `META_MORE_RE.match(line)` = `^[ ]{4,}(?P<value>.*)`, value already `.strip()`ped -/
def metaMoreRe (line : Str) : Option Str :=
  if line.take 4 == [' ', ' ', ' ', ' '] then some (strip line) else none

/-- `BEGIN_RE.match` = `^-{3}(\s.*)?` : the optional group never makes the match fail -/
def beginRe (line : Str) : Bool := startsWith line ['-', '-', '-']

/-- `END_RE.match` = `^(-{3}|\.{3})(\s.*)?` -/
def metaEndRe (line : Str) : Bool := startsWith line ['-', '-', '-'] || startsWith line ['.', '.', '.']

abbrev MetaDict := List (Str × List Str)

/-- `meta[key].append(value)` on an insertion-ordered `defaultdict(list)` -/
def addMeta : MetaDict → Str → Str → MetaDict
  | [], k, v => [(k, [v])]
  | (k', vs) :: rest, k, v => if k' == k then (k', vs ++ [v]) :: rest else (k', vs) :: addMeta rest k v

/-- the `while lines:` loop -/
def metaLoop : List Str → Option Str → MetaDict → MetaDict × List Str
  | [], _, md => (md, [])
  | line :: rest, key, md =>
    if isBlank line || metaEndRe line then (md, rest)
    else
      match metaRe line with
      | some (k, v) => metaLoop rest (some (lower k)) (addMeta md (lower k) (strip v))
      | none =>
        match metaMoreRe line, key with
        | some v, some k => metaLoop rest (some k) (addMeta md k v)
        | _, _ => (md, line :: rest)

/-- `meta_preprocessor(lines)` for a list argument -/
def metaSplit (lines : List Str) : MetaDict × List Str :=
  match lines with
  | [] => ([], [])
  | l :: rest => if beginRe l then metaLoop rest none [] else metaLoop (l :: rest) none []

/-- the `len(self.doc_list) == 1` test of `read_metadata`.  `tb = false`: as the code is.
    `tb = true`: with fixes/C03-oneline-rule-trailing-blank.diff applied, where empty doc lines at
    the end (the reader emits one for a blank or plain-comment line that follows a doc comment)
    do not count (finding C03-oneline-text-with-colon-lost-before-blank-line). -/
def isOneLine (tb : Bool) : List Str → Bool
  | [] => false
  | [_] => true
  | _ :: r :: rest => tb && (r :: rest).all isBlank

/-- the `len(self.doc_list) == 1 and ":" in self.doc_list[0]` heuristic of `read_metadata`:
    the key test is `words.lower() in field_names` (case-insensitive, dataclass fields only) -/
def readMetaFix (tb : Bool) (fields : List Str) (doc : List Str) : List Str :=
  match doc with
  | [] => doc
  | l :: _ =>
    if isOneLine tb doc && l.contains ':' then
      let w := strip (l.takeWhile (· != ':'))
      if fields.contains (lower w) then doc else [] :: doc
    else doc

/-- `read_metadata` on a non-empty doc list: (md, remaining doc_list) -/
def readMetadata (tb : Bool) (fields : List Str) (doc : List Str) : MetaDict × List Str :=
  match doc with
  | [] => ([], [])
  | _ => metaSplit (readMetaFix tb fields doc)

/-! ### textwrap.dedent on a list of lines (the text is `"\n".join(lines)`) -/

def isSpTab (c : Char) : Bool := c == ' ' || c == '\t'

def commonPrefix : Str → Str → Str
  | a :: as, b :: bs => if a == b then a :: commonPrefix as bs else []
  | _, _ => []

def margin : List Str → Option Str
  | [] => none
  | l :: ls =>
    if l.isEmpty then margin ls
    else
      match margin ls with
      | none => some (l.takeWhile isSpTab)
      | some m => some (commonPrefix (l.takeWhile isSpTab) m)

def dedent (lines : List Str) : List Str :=
  let ls := lines.map (fun l => if l.all isSpTab then [] else l)
  match margin ls with
  | none => ls
  | some m => ls.map (fun l => if l.isEmpty then l else l.drop m.length)

end Ford
