/-
  C16, round 6 - looking up a child of an *imported* object: `[[module:entity]]`,
  `[[module:entity(kind)]]`, `[[type:component]]`, `[[type:binding]]` into an external project.

  ford/sourceform.py: `FortranBase.find_child` / `children` / `iterator`, `_find_in_list`, run on the
  objects `dict2obj` builds (External.lean: `XObj`): the attributes such an object has are the keys of
  ATTRIBUTES its description carries (`setattr` in `dict2obj`) and what the class's `__init__` sets
  (`Gen.classDefaults`).  `Gen.childrenOrder`, `Gen.sublinkTypes`, `Gen.classDefaults` are probed from
  the code on every run (translate/c16.py).

  Also the state `dict2obj` leaves behind: it stores the stripped `external_url` back into the dictionary
  it was given (`rewriteJ`), which is why every load has to start from a freshly parsed description.
-/
import FordModel.External
namespace Ford.Ext
open Ford

/-- the exceptions that can leave `find_child` on an imported object -/
inductive CErr where
  | valueError   -- unknown class of entity / "... cannot have child ..."
  | typeError    -- iterating `None`, a number, a bool
  | attrError    -- `.lower()` of a name that is not a string
  deriving DecidableEq, Repr

def kList : Str := ['l', 'i', 's', 't']
def kDict : Str := ['d', 'i', 'c', 't']
def kStr : Str := ['s', 't', 'r']

/-- what iterating `getattr(obj, a)` gives, as far as `_find_in_list` is concerned -/
inductive AVal where
  | items (xs : List XObj)   -- a list: its items
  | nothing                  -- iterable, but holds no entity (a dict yields its keys, a string its characters)
  | notIterable              -- `None`, a number, a bool
  | absent                   -- `hasattr` is false

/-- the attribute as the class's `__init__` left it -/
def defaultVal (cls a : Str) : AVal :=
  match (Gen.classDefaults.lookup cls).bind (fun row => row.lookup a) with
  | none => .absent
  | some shape => if shape == kList || shape == kDict || shape == kStr then .nothing else .notIterable

/-- `getattr(obj, a)` of an imported object of class `cls` whose description set `attrs` -/
def attrVal (cls : Str) (attrs : List (Str × XAttr)) (a : Str) : AVal :=
  match attrs.lookup a with
  | some (.list xs) => .items xs
  | some (.dict _) => .nothing
  | some (.scalar (.str _)) => .nothing
  | some (.scalar _) => .notIterable
  | none => defaultVal cls a

/-- `_find_in_list`: strings are skipped, the first entity whose lower-cased name is the lower-cased
    name sought; a name that is not a string has no `.lower()` -/
def xFindIn (name : Str) : List XObj → Except CErr (Option XObj)
  | [] => .ok none
  | .text _ :: r => xFindIn name r
  | .node cls (.str n) url parent pt attrs :: r =>
    if lower name == lower n then .ok (some (.node cls (.str n) url parent pt attrs)) else xFindIn name r
  | .node _ _ _ _ _ _ :: _ => .error .attrError

/-- `_find_in_list(self.children, name)`: `children` is a lazy chain over the attributes in
    `order` - an attribute that cannot be iterated raises only when the search gets that far -/
def findLazy (name : Str) (cls : Str) (attrs : List (Str × XAttr)) : List Str → Except CErr (Option XObj)
  | [] => .ok none
  | a :: r =>
    match attrVal cls attrs a with
    | .notIterable => .error .typeError
    | .items xs =>
      match xFindIn name xs with
      | .error e => .error e
      | .ok (some o) => .ok (some o)
      | .ok none => findLazy name cls attrs r
    | .nothing => findLazy name cls attrs r
    | .absent => findLazy name cls attrs r

/-- `obj.find_child(name, kind)` for an imported object -/
def xFindChild : XObj → Str → Option Str → Except CErr (Option XObj)
  | .text _, _, _ => .error .attrError
  | .node cls _ _ _ _ attrs, name, none => findLazy name cls attrs Gen.childrenOrder
  | .node cls _ _ _ _ attrs, name, some kind =>
    match Gen.sublinkTypes.lookup (lower kind) with
    | none => .error .valueError
    | some a =>
      match attrVal cls attrs a with
      | .absent => .error .valueError
      | .notIterable => .error .typeError
      | .nothing => .ok none
      | .items xs => xFindIn name xs

/-- the tail of `Project.find(name, entity, child_name, child_entity)` once the search for `name` has
    ended (at an imported object or nowhere) -/
def viaParent (top : Option XObj) (child : Option Str) (childKind : Option Str) : Except CErr (Option XObj) :=
  match top, child with
  | some p, some c => xFindChild p c childKind
  | r, _ => .ok r

/-- what `convert_link` links a reference to: the child, or - when the child is not found - the parent
    ("linking to page for ... instead"); a ValueError of `Project.find` ends the run -/
def resolveRef (top : Option XObj) (child : Option Str) (childKind : Option Str) : Except CErr (Option XObj) :=
  match viaParent top child childKind with
  | .error e => .error e
  | .ok (some o) => .ok (some o)
  | .ok none => .ok top

def xName : XObj → Option Json
  | .node _ n _ _ _ _ => some n
  | .text _ => none

def xUrl : XObj → Option Json
  | .node _ _ u _ _ _ => some u
  | .text _ => none

/-- what a look-up came to, as text: for `decide` and for the non-vacuity examples -/
def outcome : Except CErr (Option XObj) → List Str
  | .error .valueError => [['V', 'a', 'l', 'u', 'e', 'E', 'r', 'r', 'o', 'r']]
  | .error .typeError => [['T', 'y', 'p', 'e', 'E', 'r', 'r', 'o', 'r']]
  | .error .attrError => [['A', 't', 't', 'r', 'i', 'b', 'u', 't', 'e', 'E', 'r', 'r', 'o', 'r']]
  | .ok none => [['n', 'o', 'n', 'e']]
  | .ok (some (.node cls (.str n) (.str u) _ _ _)) => [cls, n, u]
  | .ok (some _) => [['o', 't', 'h', 'e', 'r']]

/-- the text of a JSON string (empty for anything else) -/
def jsonText : Json → Str
  | .str s => s
  | _ => []

/-! ## `Project.find` among the objects loaded from external projects

`Project.find(name, entity, child_name, child_entity)` for a name B does not define itself (B's own entities
come first, collection by collection: `projectFind`, External.lean): the objects `dict2obj` appended, list by
list in LINK_TYPES order, without the classes `Project.find` never returns by their bare name
(`Gen.findSkips`, probed), then the child. -/

def xCls : XObj → Str
  | .node cls _ _ _ _ _ => cls
  | .text _ => []

mutual
/-- the objects in the order `dict2obj` appends them (an object before its children, children in
    ATTRIBUTES order) - `entriesOf`, with the objects themselves -/
def nodesOf : XObj → List XObj
  | .text _ => []
  | .node cls name url parent pt attrs => .node cls name url parent pt attrs :: nodesAttrs attrs
def nodesAttrs : List (Str × XAttr) → List XObj
  | [] => []
  | (_, a) :: r => nodesAttr a ++ nodesAttrs r
def nodesAttr : XAttr → List XObj
  | .list xs => nodesList xs
  | .dict kvs => nodesDict kvs
  | .scalar _ => []
def nodesList : List XObj → List XObj
  | [] => []
  | o :: r => nodesOf o ++ nodesList r
def nodesDict : List (Str × XObj) → List XObj
  | [] => []
  | (_, o) :: r => nodesOf o ++ nodesDict r
end

/-- the project list an object of class `cls` is appended to -/
def projListOf (cls : Str) : Str := ((Gen.entities.lookup cls).map (·.1)).getD []

/-- `getattr(project, c)` as far as it holds imported objects -/
def loadedObjs (c : Str) (os : List XObj) : List XObj := (nodesList os).filter (fun o => projListOf (xCls o) == c)

/-- `_find_in_list(x for x in collection if not isinstance(x, <skipped classes>), name)` -/
def xFindTop (skip : List Str) (name : Str) : List XObj → Except CErr (Option XObj)
  | [] => .ok none
  | .text _ :: r => xFindTop skip name r
  | .node cls n url parent pt attrs :: r =>
    if skip.contains cls then xFindTop skip name r else
    match n with
    | .str s => if lower name == lower s then .ok (some (.node cls n url parent pt attrs)) else xFindTop skip name r
    | _ => .error .attrError

def findLoadedWith (skip : List Str) (os : List XObj) (name : Str) : Option Str → Except CErr (Option XObj)
  | some kind =>
    match Gen.linkTypes.lookup (lower kind) with
    | none => .error .valueError
    | some c => xFindTop skip name (loadedObjs c os)
  | none => xFindTop skip name ((Gen.linkTypes.map (fun kv => loadedObjs kv.2 os)).flatten)

/-- the search for `name` among the imported objects, as the code is -/
def findLoaded (os : List XObj) (name : Str) (kind : Option Str) : Except CErr (Option XObj) :=
  findLoadedWith Gen.findSkips os name kind

/-- `Project.find(name, kind, child, childKind)` for a name B does not define -/
def xProjectFind (os : List XObj) (name : Str) (kind : Option Str) (child childKind : Option Str) :
    Except CErr (Option XObj) :=
  match findLoaded os name kind with
  | .error e => .error e
  | .ok top => viaParent top child childKind

/-- `convert_link` without a context: the reference, or - when only the child is missing - its parent -/
def xConvertLink (os : List XObj) (name : Str) (kind : Option Str) (child childKind : Option Str) :
    Except CErr (Option XObj) :=
  match xProjectFind os name kind child childKind with
  | .error e => .error e
  | .ok (some o) => .ok (some o)
  | .ok none =>
    match child with
    | some _ => findLoaded os name kind
    | none => .ok none

/-! ## The description after `dict2obj` has run on it

`extDict["external_url"] = extDict["external_url"].split("/", 1)[-1]` is stored back into the dictionary.
The rewriting happens before anything that can raise later on, and only in the dictionaries `dict2obj`
reaches; here: the state after a conversion that succeeded. -/

def setKey (k : Str) (v : Json) : List (Str × Json) → List (Str × Json)
  | [] => []
  | (k', v') :: r => if k' == k then (k', v) :: r else (k', v') :: setKey k v r

mutual
/-- the dictionary `dict2obj` was given, afterwards -/
def rewriteJ : Json → Json
  | .obj kvs =>
    let kvs' := rewritePairs kvs
    match kvs.lookup kUrl with
    | some (.str s) => if s.isEmpty then .obj kvs' else .obj (setKey kUrl (.str (afterFirstSlash s)) kvs')
    | _ => .obj kvs'
  | j => j
/-- the values under the keys of ATTRIBUTES: lists and dicts of descriptions -/
def rewritePairs : List (Str × Json) → List (Str × Json)
  | [] => []
  | (k, v) :: r => (k, if Gen.attributes.contains k then rewriteVal v else v) :: rewritePairs r
def rewriteVal : Json → Json
  | .arr xs => .arr (rewriteItems xs)
  | .obj kvs => .obj (rewriteKV kvs)
  | j => j
def rewriteItems : List Json → List Json
  | [] => []
  | x :: r => (if truthy x then rewriteJ x else x) :: rewriteItems r
def rewriteKV : List (Str × Json) → List (Str × Json)
  | [] => []
  | (k, x) :: r => (k, if truthy x then rewriteJ x else x) :: rewriteKV r
end

/-- a whole document after `load_external_modules` converted it (list of module descriptions, or the
    `modules` entry of a dict with metadata) -/
def rewriteDoc : Json → Json
  | .arr xs => .arr (xs.map rewriteJ)
  | .obj kvs =>
    if (kvs.lookup Gen.metadataName).isSome then
      match kvs.lookup kModules with
      | some (.arr xs) => .obj (setKey kModules (.arr (xs.map rewriteJ)) kvs)
      | _ => .obj kvs
    else .obj kvs
  | j => j

end Ford.Ext
