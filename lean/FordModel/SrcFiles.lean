/-
  Which source files make up the project (property C01: "each program unit ... appears exactly once", "nothing
  undeclared is reported"): `ford.fortran_project.find_all_files`, whose result `Project.__init__` sorts and
  hands file by file to the parser - a file returned twice is parsed twice and every program unit in it is
  documented twice.

      src_files: Set[Path] = set()
      for src_dir, extension in product(settings.src_dir, file_extensions):
          src_files.update(Path(src_dir).glob(f"**/*.{extension}"))
      for exclude_dir in settings.exclude_dir:
          src_files = {src for src in src_files if not fnmatch(str(src), f"{exclude_dir}/*")}
      bottom_level_dirs = [src_dir.name for src_dir in settings.src_dir]
      for i, exclude in enumerate(settings.exclude):
          exclude_path = Path(exclude)
          if (not exclude_path.is_file() and exclude_path.parent.name not in bottom_level_dirs
                  and "*" not in exclude):
              settings.exclude[i] = f"**/{exclude}"
      for exclude in settings.exclude:
          src_files = {src for src in src_files if not fnmatch(os.path.relpath(src), exclude)}

  String level: a path is the text `str(path)` gives (components joined by `/`, no `.`/`..`/doubled slashes -
  pathlib has normalised the settings and the harness writes clean relative patterns); the directory tree is
  the list of its entries (files and directories) with these texts.  A Python `set` is a list without
  repetitions (`addNew`); the order of a set is not observable (the caller sorts).  `fnmatch` is modelled for
  patterns without `[` (`*` = any run of characters, `/` included; `?` = one character); the dispatcher answers
  `unmodelled` for a pattern with a bracket and for a file outside the working directory (`os.path.relpath`
  would climb with `..`).
  Import-free of Mathlib on purpose (compiled driver).
-/
import FordModel.Basic.Chars
import FordModel.TypeSpec
namespace Ford.SrcFiles
open Ford Ford.TypeSpec

/-- an entry of the directory tree -/
structure Entry where
  path : Str
  isFile : Bool
  deriving DecidableEq, Repr

structure Cfg where
  /-- `settings.src_dir` -/
  dirs : List Str
  /-- `extensions + fixed_extensions + extra_filetypes.keys()` -/
  exts : List Str
  /-- `settings.exclude_dir` -/
  exdirs : List Str
  /-- `settings.exclude` -/
  excl : List Str
  /-- `os.getcwd()` -/
  cwd : Str
  tree : List Entry
  deriving Repr

/-- `fnmatch.fnmatch(s, pat)` (POSIX) for a pattern without `[` -/
def fnm : Str → Str → Bool
  | [], [] => true
  | [], _ :: _ => false
  | p :: ps, [] => p == '*' && fnm ps []
  | p :: ps, c :: s =>
    if p == '*' then fnm ps (c :: s) || fnm (p :: ps) s
    else if p == '?' then fnm ps s
    else p == c && fnm ps s
termination_by p s => p.length + s.length

/-- what follows the last `/` (`PurePath.name`) -/
def nameOf (p : Str) : Str := (p.reverse.takeWhile (· != '/')).reverse

/-- an entry `Path(d).glob("**/*.e")` yields: below `d` at any depth, its name ends in `.e` -/
def globHit (d e : Str) (x : Entry) : Bool :=
  startsWith x.path (d ++ ['/']) && ('.' :: e).isSuffixOf (nameOf x.path)

/-- `set.add` -/
def addNew (acc : List Str) (x : Str) : List Str := if acc.contains x then acc else acc ++ [x]

/-- `set.update` -/
def insertAll : List Str → List Str → List Str
  | acc, [] => acc
  | acc, x :: xs => insertAll (addNew acc x) xs

/-- the hits of every (directory, extension) pair in the order of `itertools.product` -/
def hits (dirs exts : List Str) (tree : List Entry) : List Str :=
  dirs.flatMap fun d => exts.flatMap fun e => (tree.filter (globHit d e)).map (·.path)

/-- the first loop -/
def collect (dirs exts : List Str) (tree : List Entry) : List Str := insertAll [] (hits dirs exts tree)

/-- the `exclude_dir` loop -/
def dropDirs : List Str → List Str → List Str
  | [], fs => fs
  | d :: ds, fs => dropDirs ds (fs.filter fun s => !fnm (d ++ (chars! "/*")) s)

/-- `Path(ex)` taken relative to the working directory -/
def absOf (cwd ex : Str) : Str := if ex.head? == some '/' then ex else cwd ++ ('/' :: ex)

/-- `Path(ex).parent.name` -/
def parentName (ex : Str) : Str :=
  nameOf ((ex.reverse.dropWhile (· != '/')).drop 1).reverse

/-- the rewriting loop: one entry of `settings.exclude` afterwards -/
def rewrite (c : Cfg) (ex : Str) : Str :=
  if !(c.tree.any fun x => x.isFile && x.path == absOf c.cwd ex)
      && !((c.dirs.map nameOf).contains (parentName ex)) && !ex.contains '*'
  then (chars! "**/") ++ ex else ex

/-- `os.path.relpath(src)` for a path below the working directory -/
def relTo (cwd s : Str) : Str := if startsWith s (cwd ++ ['/']) then s.drop (cwd.length + 1) else s

/-- the `exclude` loop -/
def dropFiles (cwd : Str) : List Str → List Str → List Str
  | [], fs => fs
  | p :: ps, fs => dropFiles cwd ps (fs.filter fun s => !fnm p (relTo cwd s))

/-- `find_all_files(settings)` as a list without an observable order -/
def findAllFiles (c : Cfg) : List Str :=
  dropFiles c.cwd (c.excl.map (rewrite c)) (dropDirs c.exdirs (collect c.dirs c.exts c.tree))

/-- `settings.exclude` afterwards (the loop writes the rewritten patterns back) -/
def excludeAfter (c : Cfg) : List Str := c.excl.map (rewrite c)

/-- the inputs this model answers -/
def modelled (c : Cfg) : Bool :=
  (c.exdirs ++ c.excl).all (fun p => !p.contains '[') &&
  c.tree.all (fun x => startsWith x.path (c.cwd ++ ['/']))

end Ford.SrcFiles
