/-
  C04 - the second observation point of the property: the visibility word printed next to every entity on the
  generated **module page** (`ford/templates/mod_page.html`, macros `variable_list`, `interface`, `absinterface`,
  `type_summary`, `proc_entry` / `proc_line`, and `FortranBoundProcedure.full_declaration`).

  The page is a function of the objects `correlate` leaves: `pageView` lists, for a unit's result (`XOut`), every
  place where a visibility word is printed - kind of place, the object it is listed under, the entity's name, the
  word.  *Whose* permission a template prints at each kind of place is a measured table (`pageSrc` in
  Generated/C04.lean: the translator gives every object of a probe module a unique token as its permission,
  renders the real page and looks which token stands where); the model follows the table, the theorems of
  Props/C04.lean need it to say "the entity's own" everywhere.
-/
import FordModel.AccessImpl
namespace Ford.Access

structure PLine where
  kind : PKind
  /-- the type / generic interface the entity is listed under; empty for an entity listed by the module itself -/
  owner : Str
  name : Str
  shown : Option Perm
  deriving DecidableEq, Repr

def srcOf (k : PKind) : PSrc :=
  match pageSrc.find? (fun x => x.1 = k) with
  | some x => x.2
  | none => .none

def shownPerm (k : PKind) (own owner : Perm) : Option Perm :=
  match srcOf k with
  | .own => some own
  | .owner => some owner
  | .none => none

/-- the module procedure a `module procedure r` reference of a generic interface resolves to: looked up in
    `all_procs`, a dict in which an interface entry replaces the procedure of the same name (a generic interface
    named after its own specific procedure: the reference finds the interface, no procedure line is printed) -/
def procPerm (es : List Ent) (n : Str) : Option Perm :=
  if es.any (fun e => decide (e.cat = .iface) && decide (e.name = n)) then none
  else (es.find? (fun e => (e.cat = .func ∨ e.cat = .sub) ∧ e.name = n)).map (·.perm)

/-- the places at which one entity of the unit (and what is listed under it) gets a visibility word -/
def entLines (unit : Perm) (es : List Ent) (e : Ent) : List PLine :=
  match e.cat with
  | .var => [⟨.var, [], e.name, shownPerm .var e.perm unit⟩]
  | .type =>
    ⟨.type, [], e.name, shownPerm .type e.perm unit⟩ ::
      (e.comps.map (fun k => ⟨.comp, e.name, k.name, shownPerm .comp k.perm e.perm⟩)
       ++ e.binds.map (fun k => ⟨.bind, e.name, k.name, shownPerm .bind k.perm e.perm⟩))
  | .iface =>
    if e.wrapper then [⟨.wrapper, [], e.name, shownPerm .wrapper e.perm unit⟩]
    else
      ⟨.generic, [], e.name, shownPerm .generic e.perm unit⟩ ::
        (e.procs.map (fun k => ⟨.member, e.name, k.name, shownPerm .member k.perm e.perm⟩)
         ++ e.refs.filterMap (fun r => (procPerm es r.name).map (fun p => ⟨.ref, e.name, r.name, shownPerm .ref p e.perm⟩)))
  | .absIface => [⟨.absIface, [], e.name, shownPerm .absIface e.perm unit⟩]
  | .func => [⟨.func, [], e.name, shownPerm .func e.perm unit⟩]
  | .sub => [⟨.sub, [], e.name, shownPerm .sub e.perm unit⟩]

/-- the module page: every place with a visibility word (`unit` = the module's own `permission`) -/
def pageView (unit : Perm) (o : XOut) : List PLine :=
  o.out.ents.flatMap (entLines unit o.out.ents)
  ++ o.impls.map (fun k => ⟨.mproc, [], k.name, shownPerm .mproc k.perm unit⟩)

/-- the unit's own `permission` when the page is written (the last bare statement, else the initial value) -/
def unitPerm (g sub : Bool) (xs : List XStmt) : Perm :=
  (((xstmts xs).map (keyed g)).foldl step (init sub)).perm

end Ford.Access
