/-
  C09 — `FortranBase.get_dir` / `get_url` (+ the three overrides), `anchor`,
  and the link the markdown `[[..]]` processor computes for an entity.

  An entity is given with its ancestors: `chain = self :: parent :: grandparent ...`.
  The class tuples of the `isinstance` tests, the class hierarchy, the overrides
  and the directories `writeout` creates are regenerated from the source
  (Generated/C09.lean).  Import-free (driver).
-/
import FordModel.Path
namespace Ford.Url
open Ford.Path

structure Node where
  cls : Str        -- Python class name
  obj : Str        -- `self.obj`
  ident : Str      -- `self.ident`
  named : Bool     -- `bool(self.name)`
  generic : Bool   -- `self.generic` (interfaces)
  deriving Repr, DecidableEq

/-- shapes of the `get_dir` overrides found in the source -/
inductive Override where
  | const (d : Str)            -- `return "<d>"`
  | ifIfaceProc (d : Str)      -- `if self.is_interface_procedure: return "<d>"` else super
  | ifNamed                    -- `if self.name: return super().get_dir()` else None
  deriving Repr, DecidableEq

structure Tables where
  /-- class -> its MRO (class names, itself first) -/
  mro : List (Str × List Str)
  /-- class -> value of `self.obj` -/
  objOf : List (Str × Str)
  dirSelf : List Str
  dirChild : List Str
  dirParent : List Str
  anchorClasses : List Str
  /-- the class whose instances are `FortranInterface`s (for `is_interface_procedure`) -/
  ifaceClass : Str
  overrides : List (Str × Override)
  /-- directories made by `Documentation.writeout` -/
  outDirs : List Str

def lookup {β} (k : Str) : List (Str × β) → Option β
  | [] => none
  | (a, b) :: r => if a = k then some b else lookup k r

def mroOf (T : Tables) (cls : Str) : List Str := (lookup cls T.mro).getD [cls]

/-- `isinstance(n, tuple of classes)` -/
def isinst (T : Tables) (n : Node) (classes : List Str) : Bool :=
  (mroOf T n.cls).any fun c => classes.contains c

/-- the first class in the MRO that overrides `get_dir` -/
def overrideOf (T : Tables) (cls : Str) : Option Override :=
  (mroOf T cls).findSome? fun c => lookup c T.overrides

/-- `isinstance(self.parent, (...))` (False when there is no parent) -/
def parentIs (T : Tables) : List Node → Bool
  | p :: _ => isinst T p T.dirParent
  | [] => false

/-- `FortranBase.get_dir` -/
def baseDir (T : Tables) : List Node → Option Str
  | [] => none
  | n :: rest =>
    if isinst T n T.dirSelf || (isinst T n T.dirChild && parentIs T rest) then some n.obj else none

/-- `FortranProcedure.is_interface_procedure` -/
def isIfaceProc (T : Tables) : List Node → Bool
  | _ :: p :: _ => isinst T p [T.ifaceClass] && !p.generic
  | _ => false

/-- `self.get_dir()` with the overrides -/
def getDir (T : Tables) : List Node → Option Str
  | [] => none
  | n :: rest =>
    match overrideOf T n.cls with
    | none => baseDir T (n :: rest)
    | some (.const d) => some d
    | some (.ifIfaceProc d) => if isIfaceProc T (n :: rest) then some d else baseDir T (n :: rest)
    | some .ifNamed => if n.named then baseDir T (n :: rest) else none

def hexDigit (n : Nat) : Char :=
  if n < 10 then Char.ofNat (48 + n) else Char.ofNat (55 + n)

/-- `urllib.parse.quote` on ASCII input (safe = "/") -/
def quote : Str → Str
  | [] => []
  | c :: cs =>
    if isAlpha c || isDigit c || c = '_' || c = '.' || c = '-' || c = '~' || c = '/' then c :: quote cs
    else '%' :: hexDigit (c.toNat / 16) :: hexDigit (c.toNat % 16) :: quote cs

/-- `self.anchor` -/
def anchor (n : Node) : Str := n.obj ++ '-' :: quote n.ident

/-- A URL inside the documentation: directory, file stem, fragment. -/
structure Loc where
  dir : Str
  stem : Str
  frag : Option Str
  deriving Repr, DecidableEq

/-- `self.get_url()` (no external URLs) -/
def getUrl (T : Tables) : List Node → Option Loc
  | [] => none
  | n :: rest =>
    match getDir T (n :: rest) with
    | some d => some ⟨d, n.ident, none⟩
    | none =>
      if isinst T n T.anchorClasses && !rest.isEmpty then
        match getUrl T rest with
        | some u => some ⟨u.dir, u.stem, some (anchor n)⟩
        | none => none
      else none

def htmlExt : Str := ['.', 'h', 't', 'm', 'l']

def Loc.file (u : Loc) : List Seg := [u.dir, u.stem ++ htmlExt]

def Loc.render (u : Loc) : Str :=
  u.dir ++ '/' :: u.stem ++ htmlExt ++ (match u.frag with | some f => '#' :: f | none => [])

/-- the "non-existent" sibling directory `MetaMarkdown.convert` makes links relative to -/
def virtualDir : Seg :=
  ['n', 'o', 'n', '-', 'e', 'x', 'i', 's', 't', 'e', 'n', 't', ' ', 'd', 'i', 'r']

/-- `current_path` for the docs of an entity whose URL is `u`:
    `base_url / Path(url).parent.parent / "non-existent dir"` -/
def docCurrentPath (base : List Seg) (u : Loc) : List Seg :=
  base ++ (dirOf (dirOf u.file)) ++ [virtualDir]

/-- path part of the `href` `FordLinkProcessor.convert_link` writes for target `t`
    inside the docs of an entity with URL `ctx` -/
def docLinkPath (base : List Seg) (ctx t : Loc) : List Seg :=
  relpathPy (base ++ t.file) (docCurrentPath base ctx)

/-- `BasePage.project_url` for a page file (segments below the output directory) -/
def projectUrl (base page : List Seg) : List Seg := relpathPy base (base ++ dirOf page)

/-- `{{ project_url }}/<target>` as written on `page` -/
def navHref (base page target : List Seg) : List Seg := projectUrl base page ++ target

end Ford.Url
