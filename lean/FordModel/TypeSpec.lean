/-
  Model of `ford.sourceform.parse_type` (the decomposition of the type
  specification of a declaration into vartype / kind / len / proto / rest),
  character level, ASCII input.  Every regular expression the function uses is
  given a deterministic scanner here (`VAR_TYPE_STRING`, `VARKIND_RE`, `KIND_RE`,
  `LEN_RE`, `PROTO_RE`, `DOUBLE_PREC_RE`, `DOUBLE_CMPLX_RE`) and
  `ford.utils.get_parens` is mirrored statement by statement.

  Inputs the model does not cover answer `.error .unmodelled` (never a default):
  a line feed in the string (`.` of the regexes stops there) and a quote
  character inside a kind expression of a `character` declaration (FORD then
  re-inserts the captured literal through `re.sub`).
  Import-free on purpose (compiled driver).
-/
import FordModel.Basic.Chars
namespace Ford.TypeSpec

/-- `(chars! "abc")` is the literal `['a', 'b', 'c']` (string literals are byte arrays in this Lean
    version; unfolding `String.toList` on them inside `simp`/unification is very slow) -/
macro "chars! " s:str : term => do
  let elems := s.getString.toList.toArray.map fun c => Lean.Syntax.mkCharLit c
  `([$elems,*])

inductive TErr where
  | invalidDecl      -- ValueError "Invalid variable declaration"
  | parenErr         -- RuntimeError "Couldn't parse parentheses" (get_parens)
  | badType          -- ValueError "Bad declaration of variable type"
  | attrErr          -- AttributeError: `match.group(2)` is None (`()` matched by the first alternative)
  | badProto         -- ValueError "Bad type, class, or procedure prototype specification"
  | tooMany          -- ValueError "Bad declaration of `character`, too many parameters"
  | unmodelled
  deriving DecidableEq, Repr

structure Parsed where
  vartype : Str
  rest : Str
  kind : Option Str := none
  strlen : Option Str := none
  proto : Option (Str × Str) := none
  deriving DecidableEq, Repr

/-! ## scanners -/

/-- match the (lower-case) keyword `kw` at the start of `s`, ignoring case; answer the remainder -/
def kwCI : Str → Str → Option Str
  | [], s => some s
  | _ :: _, [] => none
  | k :: ks, c :: cs => if lowerChar c == k then kwCI ks cs else none

/-- `\s*` -/
def skipWs : Str → Str
  | [] => []
  | c :: cs => if isSpace c then skipWs cs else c :: cs

/-- `kw1\s*kw2` -/
def kw2CI (k1 k2 : Str) (s : Str) : Option Str :=
  match kwCI k1 s with
  | some r => kwCI k2 (skipWs r)
  | none => none

def firstSome : List (Option Str) → Option Str
  | [] => none
  | some r :: _ => some r
  | none :: l => firstSome l

/-- `VAR_TYPE_STRING` matched at position 0 (alternatives in source order); the remainder -/
def varTypeRest (s : Str) : Option Str :=
  firstSome
    [kwCI (chars! "integer") s, kwCI (chars! "real") s, kw2CI (chars! "double") (chars! "precision") s,
     kwCI (chars! "character") s, kwCI (chars! "complex") s, kw2CI (chars! "double") (chars! "complex") s,
     kwCI (chars! "logical") s, kwCI (chars! "type") s, kwCI (chars! "class") s, kwCI (chars! "procedure") s,
     kwCI (chars! "enumerator") s]

/-- `vartype = match.group().lower()` followed by the two `DOUBLE_*_RE` normalisations -/
def normVartype (m : Str) : Str :=
  let v := lower m
  if (kw2CI (chars! "double") (chars! "precision") v).isSome then (chars! "double precision")
  else if (kw2CI (chars! "double") (chars! "complex") v).isSome then (chars! "double complex")
  else v

def isStop (c : Char) : Bool := isAlpha c || c == '_' || c == ':' || c == ',' || c == ' '

/-- `ford.utils.get_parens(line)` with `retlevel = retblevel = 0` -/
def getParensAux : Str → Int → Int → Str → Except TErr Str
  | [], lv, bl, acc => if lv == 0 && bl == 0 then .ok acc.reverse else .error .parenErr
  | c :: cs, lv, bl, acc =>
    if c == '(' then getParensAux cs (lv + 1) bl (c :: acc)
    else if c == ')' then getParensAux cs (lv - 1) bl (c :: acc)
    else if c == '[' then getParensAux cs lv (bl + 1) (c :: acc)
    else if c == ']' then getParensAux cs lv (bl - 1) (c :: acc)
    else if isStop c && lv == 0 && bl == 0 then .ok acc.reverse
    else getParensAux cs lv bl (c :: acc)

def getParens (s : Str) : Except TErr Str := getParensAux s 0 0 []

/-- index of the last `)` -/
def lastClose : Str → Option Nat
  | [] => none
  | c :: cs =>
    match lastClose cs with
    | some j => some (j + 1)
    | none => if c == ')' then some 0 else none

/-- result of a `VARKIND_RE` match: which group took part and its text -/
inductive VK where
  | g1 (s : Str)
  | g2 (s : Str)
  deriving DecidableEq, Repr

/-- `VARKIND_RE = \((.*)\)|\*\s*(\d+|\(.*\))` tried at the start of `s` -/
def vkAt : Str → Option VK
  | '(' :: r =>
    match lastClose r with
    | some j => some (.g1 (r.take j))
    | none => none
  | '*' :: r =>
    let r' := skipWs r
    let ds := r'.takeWhile isDigit
    if !ds.isEmpty then some (.g2 ds)
    else
      match r' with
      | '(' :: r'' =>
        match lastClose r'' with
        | some j => some (.g2 ('(' :: r''.take (j + 1)))
        | none => none
      | _ => none
  | _ => none

/-- `VARKIND_RE.search` (leftmost match) -/
def vkSearch : Str → Option VK
  | [] => none
  | c :: cs =>
    match vkAt (c :: cs) with
    | some r => some r
    | none => vkSearch cs

def removeWs (s : Str) : Str := s.filter (fun c => !isSpace c)

/-- `KIND_RE.match(arg)` = `kind\s*=\s*([^,\s]+)`, IGNORECASE: group 1 -/
def kindMatch (arg : Str) : Option Str :=
  match kwCI (chars! "kind") arg with
  | none => none
  | some r =>
    match skipWs r with
    | '=' :: r' =>
      let e := (skipWs r').takeWhile (fun c => c != ',' && !isSpace c)
      if e.isEmpty then none else some e
    | _ => none

/-- second alternative of `LEN_RE`: `(\d+)` -/
def lenAlt2 (arg : Str) : Option Str :=
  let ds := arg.takeWhile isDigit
  if ds.isEmpty then none else some ds

/-- first alternative of `LEN_RE`: `len\s*=\s*(\w+|\*|:|\d+)` -/
def lenAlt1 (arg : Str) : Option Str :=
  match kwCI (chars! "len") arg with
  | none => none
  | some r =>
    match skipWs r with
    | '=' :: r' =>
      let v := skipWs r'
      let w := v.takeWhile isWord
      if !w.isEmpty then some w
      else
        match v with
        | '*' :: _ => some ['*']
        | ':' :: _ => some [':']
        | _ => none
    | _ => none

/-- `LEN_RE.match(arg)` = `(?:len\s*=\s*(\w+|\*|:|\d+)|(\d+))`, IGNORECASE: `group(1) or group(2)` -/
def lenMatch (arg : Str) : Option Str :=
  match lenAlt1 arg with
  | some x => some x
  | none => lenAlt2 arg

/-- `PROTO_RE.match(args)` = `(\*|\w+)\s*(?:\((.*)\))?` : groups 1 and 2 ("" when absent) -/
def protoMatch (args : Str) : Option (Str × Str) :=
  let after (g1 r : Str) : Str × Str :=
    match skipWs r with
    | '(' :: r' =>
      match lastClose r' with
      | some j => (g1, r'.take j)
      | none => (g1, [])
    | _ => (g1, [])
  match args with
  | '*' :: r => some (after ['*'] r)
  | _ =>
    let w := args.takeWhile isWord
    if w.isEmpty then none else some (after w (args.drop w.length))

def splitComma (s : Str) : List Str :=
  let rec go : Str → Str → List Str
    | [], cur => [cur.reverse]
    | c :: cs, cur => if c == ',' then cur.reverse :: go cs [] else go cs (c :: cur)
  go s []

def hasQuote (s : Str) : Bool := s.any isQuote

/-- the loop over the (at most two) parameters of `character(...)` -/
def charArgs : List Str → Option Str → Option Str → Except TErr (Option Str × Option Str)
  | [], len, kind => .ok (len, kind)
  | a :: as, len, kind =>
    match (if len.isNone then lenMatch a else none) with
    | some l => charArgs as (some l) kind
    | none =>
      match (if kind.isNone then kindMatch a else none) with
      | some k => if hasQuote k then .error .unmodelled else charArgs as len (some k)
      | none =>
        if len.isNone then charArgs as (some a) kind
        else if kind.isNone then charArgs as len (some a)
        else charArgs as len kind

def isProtoType (v : Str) : Bool :=
  v == (chars! "type") || v == (chars! "class") || v == (chars! "procedure")

/-- the part of `parse_type` after `kindstr = get_parens(rest)` and `rest = rest[len(kindstr):].strip()` -/
def finish (vartype kindstr rest : Str) : Except TErr Parsed :=
  if kindstr.length < 3 && !(vartype == (chars! "type") || vartype == (chars! "class")
        || vartype == (chars! "character")) && !(startsWith kindstr ['*']) then
    .ok { vartype, rest }
  else
    match vkSearch kindstr with
    | none =>
      if vartype == (chars! "character") then .ok { vartype, rest, strlen := some ['1'] }
      else .error .badType
    | some vk =>
      let sa : Except TErr (Bool × Str) :=
        match vk with
        | .g1 g => if g.isEmpty then .error .attrErr else .ok (false, strip g)
        | .g2 g =>
          let a := strip g
          .ok (true, if startsWith a ['('] then strip ((a.drop 1).dropLast) else a)
      match sa with
      | .error e => .error e
      | .ok (star, args0) =>
        let args := removeWs args0
        if isProtoType vartype then
          match protoMatch args with
          | none => .error .badProto
          | some p => .ok { vartype, rest, proto := some p }
        else if vartype == (chars! "character") then
          if star then .ok { vartype, rest, strlen := some args }
          else
            let as := splitComma args
            if as.length > 2 then .error .tooMany
            else
              match charArgs as none none with
              | .error e => .error e
              | .ok (len, kind) => .ok { vartype, rest, kind, strlen := some (len.getD ['1']) }
        else
          .ok { vartype, rest, kind := some ((kindMatch args).getD args) }

/-- `rest = re.sub(r"^\*\s+", "*", rest)`: blanks after the asterisk of `real * 8`, `character * (10)` -/
def starNorm : Str → Str
  | '*' :: r => '*' :: skipWs r
  | s => s

/-- `parse_type(string, capture_strings, extra_vartypes=())` -/
def parseType (s : Str) : Except TErr Parsed :=
  if s.contains '\n' then .error .unmodelled else
  match varTypeRest s with
  | none => .error .invalidDecl
  | some after =>
    let vartype := normVartype (s.take (s.length - after.length))
    let rest0 := starNorm (strip after)
    match getParens rest0 with
    | .error e => .error e
    | .ok kindstr => finish vartype kindstr (strip (rest0.drop kindstr.length))

end Ford.TypeSpec
