/-
  The statement that opens a derived type definition (property C01: "each ... derived type ... appears exactly
  once ... with its declared name", "independent of keyword/identifier letter case and of equivalent spellings
  of the same declaration", "nothing undeclared is reported").

  Mirrors, character by character,

    * `FortranContainer.TYPE_RE`
        ^type(?:\s+|\s*(,.*)?::\s*)((?!(?:is\s*\())\w+)\s*(\([^()]*\))?\s*$          (IGNORECASE)
      as the deterministic scanner a backtracking engine amounts to on it: alternative 1 (`\s+`) before
      alternative 2; `\s*`, `\w+`, `[^()]*` greedy - giving back characters never helps, because what follows
      each of them cannot start with a character of the run; `(,.*)` greedy, so the engine takes the *last*
      `::` after which the rest of the pattern matches (`colonsSplit`); the negative look-ahead that keeps the
      SELECT TYPE guard `type is (..)` out (`guardAhead`);
    * `FortranType._initialize` up to `self.parameters`: name = group 2, the attribute list = group 1 without
      its comma, stripped, split by `SPLIT_RE` (`\s*,\s*`), every piece classified (`EXTENDS_RE.search`,
      `public`/`private`, `external`, anything else kept as written);
    * `EXTENDS_RE` = extends\s*\(\s*(?P<base>[^()\s]+)\s*\)  (IGNORECASE, `search`).

  Input alphabet: printable ASCII and TAB (the dispatcher answers `unmodelled` for anything else: Python's
  `\s`, `\w` and case folding know more characters than `isSpace`, `isWord`, `lowerChar`).
-/
import FordModel.Basic.Chars
import FordModel.TypeSpec
namespace Ford.TypeHead
open Ford Ford.TypeSpec

/-- the three groups of `TYPE_RE` -/
structure Head where
  /-- group 1: `, attribute-list ` up to the `::`, as written (with the comma) -/
  attrs : Option Str
  /-- group 2 -/
  name : Str
  /-- group 3: `( .. )` -/
  params : Option Str
  deriving DecidableEq, Repr

/-- `\w*` : the run and what follows it -/
def spanWord : Str → Str × Str
  | [] => ([], [])
  | c :: cs => if isWord c then ((spanWord cs).1.cons c, (spanWord cs).2) else ([], c :: cs)

/-- `[^()]*` : the run and what follows it -/
def spanNoParen : Str → Str × Str
  | [] => ([], [])
  | c :: cs => if c == '(' || c == ')' then ([], c :: cs) else ((spanNoParen cs).1.cons c, (spanNoParen cs).2)

/-- `(?:is\s*\()` matches here (the look-ahead of group 2, IGNORECASE) -/
def guardAhead (s : Str) : Bool :=
  match kwCI (chars! "is") s with
  | some r => (skipWs r).head? == some '('
  | none => false

/-- `(\([^()]*\))?\s*$` : `some none` = matched without the group, `some (some p)` = with group 3 = `p` -/
def paramsEnd : Str → Option (Option Str)
  | [] => some none
  | '(' :: r =>
    match (spanNoParen r).2 with
    | ')' :: r' => if (skipWs r').isEmpty then some (some ('(' :: ((spanNoParen r).1 ++ [')']))) else none
    | _ => none
  | _ => none

/-- `((?!(?:is\s*\())\w+)\s*(\([^()]*\))?\s*$` : (group 2, group 3) -/
def nameTail (s : Str) : Option (Str × Option Str) :=
  if guardAhead s then none
  else if (spanWord s).1.isEmpty then none
  else
    match paramsEnd (skipWs (spanWord s).2) with
    | some p => some ((spanWord s).1, p)
    | none => none

/-- `::\s*` + `nameTail` right here; `acc` = what group 1 has consumed (reversed) -/
def atColons (acc : Str) : Str → Option (Str × Str × Option Str)
  | ':' :: ':' :: r =>
    match nameTail (skipWs r) with
    | some (n, p) => some (acc.reverse, n, p)
    | none => none
  | _ => none

/-- `.*::\s*` + `nameTail`, `.*` greedy: the last `::` after which the rest matches.  `acc` = what `.*` has
    consumed so far (reversed); the answer is (text before the `::`, group 2, group 3) -/
def colonsSplit : Str → Str → Option (Str × Str × Option Str)
  | _, [] => none
  | acc, c :: cs =>
    match colonsSplit (c :: acc) cs with
    | some x => some x
    | none => atColons acc (c :: cs)

/-- `TYPE_RE.match(line)` -/
def typeRe (line : Str) : Option Head :=
  match kwCI (chars! "type") line with
  | none => none
  | some r =>
    -- first alternative: `\s+`
    match (if (skipWs r).length < r.length then nameTail (skipWs r) else none) with
    | some (n, p) => some ⟨none, n, p⟩
    | none =>
      -- second alternative: `\s*(,.*)?::\s*`
      match skipWs r with
      | ',' :: t =>
        match colonsSplit [','] t with
        | some (a, n, p) => some ⟨some a, n, p⟩
        | none => none
      | ':' :: ':' :: t =>
        match nameTail (skipWs t) with
        | some (n, p) => some ⟨none, n, p⟩
        | none => none
      | _ => none

/-! ### `FortranType._initialize` -/

/-- `SPLIT_RE.split(s.strip())` (`\s*,\s*`): stripping the text and splitting it at every comma together with
    the blanks around the comma leaves the pieces between the commas without the blanks at their ends (the
    first piece has no blank in front and the last none behind because the text was stripped) -/
def splitStripped (s : Str) : List Str := (splitComma s).map strip

/-- `[^()\s]*` -/
def spanBase : Str → Str × Str
  | [] => ([], [])
  | c :: cs =>
    if c == '(' || c == ')' || isSpace c then ([], c :: cs) else ((spanBase cs).1.cons c, (spanBase cs).2)

/-- `EXTENDS_RE` anchored here: group `base` -/
def extendsAt (s : Str) : Option Str :=
  match kwCI (chars! "extends") s with
  | none => none
  | some r =>
    match skipWs r with
    | '(' :: r1 =>
      if (spanBase (skipWs r1)).1.isEmpty then none
      else
        match skipWs (spanBase (skipWs r1)).2 with
        | ')' :: _ => some (spanBase (skipWs r1)).1
        | _ => none
    | _ => none

/-- `EXTENDS_RE.search(s)` : the leftmost position at which it matches -/
def extendsSearch : Str → Option Str
  | [] => none
  | c :: cs =>
    match extendsAt (c :: cs) with
    | some b => some b
    | none => extendsSearch cs

/-- what `_initialize` records of the statement -/
structure TypeInfo where
  name : Str
  /-- `self.extends` -/
  base : Option Str
  attribs : List Str
  permission : Str
  parameters : List Str
  deriving DecidableEq, Repr

/-- one round of `for attrib in attriblist:` -/
def attrStep (t : TypeInfo) (attrib : Str) : TypeInfo :=
  match extendsSearch attrib with
  | some b => { t with base := some b }
  | none =>
    if lower (strip attrib) == (chars! "public") || lower (strip attrib) == (chars! "private") then
      { t with permission := lower (strip attrib) }
    else if lower (strip attrib) == (chars! "external") then { t with attribs := t.attribs ++ [(chars! "external")] }
    else { t with attribs := t.attribs ++ [strip attrib] }

/-- `FortranType._initialize(line)`; `inherited` = the permission handed down by the parent -/
def typeInit (inherited : Str) (h : Head) : TypeInfo :=
  let t0 : TypeInfo := ⟨h.name, none, [], inherited, []⟩
  let t1 :=
    match h.attrs with
    | some a => if a.isEmpty then t0 else (splitStripped (a.drop 1)).foldl attrStep t0
    | none => t0
  match h.params with
  | some p => if p.isEmpty then t1 else { t1 with parameters := splitStripped p }
  | none => t1

/-- the statement as `FortranContainer.__init__` handles it at the TYPE_RE branch -/
def typeStmt (inherited : Str) (line : Str) : Option TypeInfo := (typeRe line).map (typeInit inherited)

/-! ### the declaration side: `VARIABLE_STRING` (no `extra_vartypes`)

    ^(integer|real|double\s*precision|character|complex|double\s*complex|logical|type(?!\s+is)|
      class(?!\s+is|\s+default)|procedure|enumerator)\s*((?:\(|\s\w|[:,*]).*)$         (IGNORECASE)

  The alternatives of group 1 exclude each other on the keyword, so "the first alternative after which the
  rest of the pattern matches" is what the engine finds.  `\s*` before group 2 is greedy; group 2 starts at the
  first character that is not a blank when that is `(`, `:`, `,` or `*`, and at the *last* blank when it is a
  word character (the only place where `\s\w` matches after giving back one blank). -/

/-- `\s*`, remembering the last blank -/
def skipWsLast : Option Char → Str → Option Char × Str
  | l, [] => (l, [])
  | l, c :: cs => if isSpace c then skipWsLast (some c) cs else (l, c :: cs)

/-- `\s*((?:\(|\s\w|[:,*]).*)$` : group 2 -/
def varTail (r : Str) : Option Str :=
  match skipWsLast none r with
  | (_, []) => none
  | (l, c :: t) =>
    if c == '(' || c == ':' || c == ',' || c == '*' then some (c :: t)
    else if isWord c then
      match l with
      | some b => some (b :: c :: t)
      | none => none
    else none

/-- `\s+w` matches here (IGNORECASE) -/
def wsThen (w : Str) (r : Str) : Bool :=
  decide ((skipWs r).length < r.length) && (kwCI w (skipWs r)).isSome

/-- one alternative of group 1 (`kw`, or `kw1\s*kw2`), its negative look-aheads, then the tail:
    what is left after the keyword, and group 2 -/
def varAlt (kw : Str → Option Str) (banned : List Str) (s : Str) : Option (Str × Str) :=
  match kw s with
  | none => none
  | some r =>
    if banned.any (fun w => wsThen w r) then none
    else
      match varTail r with
      | some g2 => some (r, g2)
      | none => none

def firstSome2 : List (Option (Str × Str)) → Option (Str × Str)
  | [] => none
  | some r :: _ => some r
  | none :: l => firstSome2 l

/-- `VARIABLE_RE.match(line)` : (group 1, group 2) -/
def varRe (s : Str) : Option (Str × Str) :=
  match firstSome2
    [varAlt (kwCI (chars! "integer")) [] s, varAlt (kwCI (chars! "real")) [] s,
     varAlt (kw2CI (chars! "double") (chars! "precision")) [] s, varAlt (kwCI (chars! "character")) [] s,
     varAlt (kwCI (chars! "complex")) [] s, varAlt (kw2CI (chars! "double") (chars! "complex")) [] s,
     varAlt (kwCI (chars! "logical")) [] s,
     varAlt (kwCI (chars! "type")) [(chars! "is")] s,
     varAlt (kwCI (chars! "class")) [(chars! "is"), (chars! "default")] s,
     varAlt (kwCI (chars! "procedure")) [] s, varAlt (kwCI (chars! "enumerator")) [] s] with
  | some (r, g2) => some (s.take (s.length - r.length), g2)
  | none => none

/-! ### vocabulary for the statements of Props/C01.lean -/

/-- an attribute as written: not empty, no blank at either end -/
def tight (a : Str) : Bool :=
  match a, a.reverse with
  | c :: _, d :: _ => !isSpace c && !isSpace d
  | _, _ => false

/-- `b₁ a₁ b₁' , b₂ a₂ b₂' , …` : attribute texts with blanks around them, separated by commas -/
def renderAttrs : List (Str × Str × Str) → Str
  | [] => []
  | [(l, a, r)] => l ++ (a ++ r)
  | (l, a, r) :: x :: xs => l ++ (a ++ (r ++ ',' :: renderAttrs (x :: xs)))

/-- blanks, an attribute text without comma or colon, blanks -/
def attrItemOk (it : Str × Str × Str) : Bool :=
  isBlank it.1 && tight it.2.1 && it.2.1.all (fun c => c != ',' && c != ':') && isBlank it.2.2

/-- printable ASCII or TAB -/
def modelled (s : Str) : Bool := s.all (fun c => c == '\t' || (32 ≤ c.toNat && c.toNat < 127))

end Ford.TypeHead
