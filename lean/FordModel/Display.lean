/-
  C05 - model of FORD's display selection as the code is:
  `FortranBase._set_display` (inheritance at construction + own metadata),
  `_should_display` / `filter_display`, the three `prune()` methods driven by the
  tables regenerated from the source (`Generated/C05.lean`), the prune loop and the
  page lists of `Project.correlate`, and the `visible` flag that gates links.
-/
import FordModel.Generated.C05
namespace Ford.Display
open Ford.Generated

/-- words that can stand in a `display` list (all unknown words are `other`) -/
inductive Word | pub | prot | priv | none | other
  deriving DecidableEq, Repr, Inhabited

inductive Kind
  | file | module | submodule | program | blockdata
  | subroutine | function | modproc
  | type | variable | boundproc | finalproc
  | generic | iface | absint | enum | common | namelist | arg
  deriving DecidableEq, Repr, Inhabited

/-- what the harness knows about one entity -/
structure Info where
  id : Nat
  kind : Kind
  /-- `item.permission` (`pub`/`prot`/`priv`) -/
  perm : Word
  /-- `bool(item.doc_list)` after the metadata has been removed -/
  doc : Bool
  /-- `meta.display`, lower-cased; `[]` = no metadata -/
  disp : List Word
  /-- own `proc_internals` metadata -/
  pint : Option Bool
  /-- procedures this entity displays by reference (binding / module procedure / final) -/
  refs : List Nat
  /-- the `visible` attribute -/
  visible : Bool
  deriving Repr, Inhabited

mutual
inductive Ent
  | mk (i : Info) (cs : Ents)
inductive Ents
  | nil
  | cons (e : Ent) (rest : Ents)
end

def Ent.info : Ent → Info
  | .mk i _ => i
def Ent.kids : Ent → Ents
  | .mk _ cs => cs
def Ent.setVisible : Ent → Ent
  | .mk i cs => .mk { i with visible := true } cs

/-- project settings + the one place where the model carries a switch for a known defect -/
structure Cfg where
  display : List Word
  procInternals : Bool
  hideUndoc : Bool
  /-- `true`: the contents of a file inherit the file's `display` metadata (documented
      behaviour); `false`: they inherit the project's list, because the file's metadata
      is read after its contents were constructed (the code as it is) -/
  fileInherits : Bool
  deriving Repr

/-- name of the list attribute of the parent in which an entity of this kind is kept -/
def listOf : Kind → String
  | .file => "files" | .module => "modules" | .submodule => "submodules" | .program => "programs"
  | .blockdata => "blockdata" | .subroutine => "subroutines" | .function => "functions"
  | .modproc => "modprocedures" | .type => "types" | .variable => "variables"
  | .boundproc => "boundprocs" | .finalproc => "finalprocs" | .generic => "interfaces"
  | .iface => "interfaces" | .absint => "absinterfaces" | .enum => "enums" | .common => "common"
  | .namelist => "namelists" | .arg => "args"

/-- which `prune` method an entity of this kind runs -/
inductive PClass | codeUnit | submodule | dtype | blockData | none
  deriving DecidableEq, Repr

def classOf : Kind → PClass
  | .module | .program | .subroutine | .function | .modproc => .codeUnit
  | .submodule => .submodule
  | .type => .dtype
  | .blockdata => .blockData
  | _ => .none

/-- `self.obj == "proc"` -/
def isProc : Kind → Bool
  | .subroutine | .function | .modproc => true
  | _ => false

/-- `_set_display`: `parent` is `self.parent.display` (for a file: `settings.display`) -/
def setDisplay (isFile : Bool) (parent : List Word) (md : List Word) : List Word :=
  let tmp := if isFile then md.filter (fun w => w != .none) else md
  if tmp.isEmpty then parent
  else if tmp.contains .none then []
  else if !tmp.contains .pub && !tmp.contains .priv && !tmp.contains .prot then parent
  else tmp

/-- `_should_display` of a container whose `display` is `d` -/
def shouldDisplay (cfg : Cfg) (d : List Word) (c : Info) : Bool :=
  if cfg.hideUndoc && !c.doc then false else d.contains c.perm

def emptiedIn (cl : PClass) (l : String) : Bool :=
  match cl with
  | .codeUnit | .submodule => C05.codeUnitEmptied.contains l
  | .dtype => C05.dtypeEmptied.contains l
  | .blockData => C05.blockDataEmptied.contains l
  | .none => false

def filteredIn (cl : PClass) (l : String) : Bool :=
  match cl with
  | .codeUnit => C05.codeUnitFiltered.contains l
  | .submodule => C05.codeUnitFiltered.contains l || (C05.codeUnitCondFiltered.map (·.2)).contains l
  | .dtype => C05.dtypeFiltered.contains l
  | .blockData => C05.blockDataFiltered.contains l
  | .none => false

def recurseIn (cl : PClass) (l : String) : Bool :=
  match cl with
  | .codeUnit | .submodule => C05.codeUnitRecurse.contains l
  | .dtype => C05.dtypeRecurse.contains l
  | .blockData => C05.blockDataRecurse.contains l
  | .none => false

def visibleOnlyIn (cl : PClass) (l : String) : Bool :=
  match cl with
  | .codeUnit | .submodule => C05.codeUnitVisibleOnly.contains l
  | .dtype => C05.dtypeVisibleOnly.contains l
  | .blockData => C05.blockDataVisibleOnly.contains l
  | .none => false

/-- the early-return guard of `FortranCodeUnit.prune` -/
def internalsOff (cfg : Cfg) (i : Info) : Bool :=
  isProc i.kind && !(i.pint.getD cfg.procInternals)

mutual
/-- `e.prune()` where `d` is `e.display` -/
def prune (cfg : Cfg) (d : List Word) : Ent → Ent
  | .mk i cs => .mk i (pruneKids cfg (classOf i.kind) (internalsOff cfg i) d cs)
/-- the effect of the parent's `prune()` on its child lists -/
def pruneKids (cfg : Cfg) (cl : PClass) (off : Bool) (d : List Word) : Ents → Ents
  | .nil => .nil
  | .cons e rest =>
    let l := listOf e.info.kind
    if off then
      (if emptiedIn cl l then pruneKids cfg cl off d rest else .cons e (pruneKids cfg cl off d rest))
    else if filteredIn cl l && !shouldDisplay cfg d e.info then pruneKids cfg cl off d rest
    else if recurseIn cl l then
      .cons (prune cfg (setDisplay false d e.info.disp) e).setVisible (pruneKids cfg cl off d rest)
    else if visibleOnlyIn cl l then .cons e.setVisible (pruneKids cfg cl off d rest)
    else .cons e (pruneKids cfg cl off d rest)
end

/-- the units of a file: members of `ranklist` (modules, top-level procedures, programs,
    block data), all `visible`, each pruned with its own display -/
def pruneUnits (cfg : Cfg) (d : List Word) : Ents → Ents
  | .nil => .nil
  | .cons e rest => .cons (prune cfg (setDisplay false d e.info.disp) e).setVisible (pruneUnits cfg d rest)

/-- the display list the units of a file inherited when they were constructed -/
def fileChildDisplay (cfg : Cfg) (i : Info) : List Word :=
  if cfg.fileInherits then setDisplay true cfg.display i.disp else cfg.display

def pruneFile (cfg : Cfg) : Ent → Ent
  | .mk i cs => .mk { i with visible := true } (pruneUnits cfg (fileChildDisplay cfg i) cs)

def pruneProject (cfg : Cfg) : List Ent → List Ent
  | [] => []
  | f :: fs => pruneFile cfg f :: pruneProject cfg fs

/-! ### observations -/

mutual
/-- ids of all entities of a tree, preorder -/
def Ent.ids : Ent → List Nat
  | .mk i cs => i.id :: cs.ids
def Ents.ids : Ents → List Nat
  | .nil => []
  | .cons e rest => e.ids ++ rest.ids
end

mutual
/-- ids of the entities whose `visible` flag is set -/
def Ent.visibleIds : Ent → List Nat
  | .mk i cs => (if i.visible then [i.id] else []) ++ cs.visibleIds
def Ents.visibleIds : Ents → List Nat
  | .nil => []
  | .cons e rest => e.visibleIds ++ rest.visibleIds
end

def idsOf : List Ent → List Nat
  | [] => []
  | e :: es => e.ids ++ idsOf es

def visibleIdsOf : List Ent → List Nat
  | [] => []
  | e :: es => e.visibleIds ++ visibleIdsOf es

/-- a list of a code unit is copied into a project page list (CONTAINERS) -/
def inContainers (l : String) : Bool := (C05.containers.map (·.1)).contains l

/-- a file list whose members are scanned with CONTAINERS -/
def inChain (l : String) : Bool := C05.codeUnitChain.contains l

/-- ids of the direct children of a code unit that get their own page -/
def Ents.pageKids : Ents → List Nat
  | .nil => []
  | .cons e rest => (if inContainers (listOf e.info.kind) then [e.info.id] else []) ++ rest.pageKids

/-- pages below one file: every unit, and the page children of the units in the chain -/
def Ents.unitPages : Ents → List Nat
  | .nil => []
  | .cons e rest =>
    (e.info.id :: (if inChain (listOf e.info.kind) then e.kids.pageKids else [])) ++ rest.unitPages

/-- ids of the entities that get their own page (files included: `incl_src`) -/
def pageIds : List Ent → List Nat
  | [] => []
  | f :: fs => (f.info.id :: f.kids.unitPages) ++ pageIds fs

/-! ### what is displayed by reference -/

mutual
def Ent.find (n : Nat) : Ent → Option Ent
  | .mk i cs => if i.id = n then some (.mk i cs) else cs.find n
def Ents.find (n : Nat) : Ents → Option Ent
  | .nil => none
  | .cons e rest => match e.find n with
    | some r => some r
    | none => rest.find n
end

def findIn (n : Nat) : List Ent → Option Ent
  | [] => none
  | e :: es => match e.find n with
    | some r => some r
    | none => findIn n es

/-- dummy arguments among the children -/
def Ents.argIds : Ents → List Nat
  | .nil => []
  | .cons e rest => (if e.info.kind = .arg then [e.info.id] else []) ++ rest.argIds

/-- a referenced procedure is displayed with its own doc and its dummy arguments -/
def refShown (orig : List Ent) (n : Nat) : List Nat :=
  match findIn n orig with
  | some t => t.info.id :: t.kids.argIds
  | none => []

def refsShown (orig : List Ent) : List Nat → List Nat
  | [] => []
  | n :: ns => refShown orig n ++ refsShown orig ns

mutual
def Ent.allRefs : Ent → List Nat
  | .mk i cs => i.refs ++ cs.allRefs
def Ents.allRefs : Ents → List Nat
  | .nil => []
  | .cons e rest => e.allRefs ++ rest.allRefs
end

def allRefsOf : List Ent → List Nat
  | [] => []
  | e :: es => e.allRefs ++ allRefsOf es

/-! ### what the page templates render (hand abstraction of the Jinja templates)

A procedure that has no page of its own (an internal procedure: its parent is a procedure) is
rendered by `proc_summary`: its doc and its dummy arguments, nothing else.  Everything else that
survived `prune` is rendered on the page of the nearest ancestor that has one. -/

mutual
def Ent.rendered (pproc : Bool) : Ent → List Nat
  | .mk i cs => i.id :: (if isProc i.kind && pproc then cs.argIds else cs.rendered (isProc i.kind))
def Ents.rendered (pproc : Bool) : Ents → List Nat
  | .nil => []
  | .cons e rest => e.rendered pproc ++ rest.rendered pproc
end

def renderedOf : List Ent → List Nat
  | [] => []
  | e :: es => e.rendered false ++ renderedOf es

mutual
/-- refs of the rendered entities -/
def Ent.renderedRefs (pproc : Bool) : Ent → List Nat
  | .mk i cs => i.refs ++ (if isProc i.kind && pproc then [] else cs.renderedRefs (isProc i.kind))
def Ents.renderedRefs (pproc : Bool) : Ents → List Nat
  | .nil => []
  | .cons e rest => e.renderedRefs pproc ++ rest.renderedRefs pproc
end

def renderedRefsOf : List Ent → List Nat
  | [] => []
  | e :: es => e.renderedRefs false ++ renderedRefsOf es

/-- ids whose documentation text is displayed somewhere on the site -/
def shownIds (cfg : Cfg) (p : List Ent) : List Nat :=
  let q := pruneProject cfg p
  renderedOf q ++ refsShown p (renderedRefsOf q)

end Ford.Display
