/-
  C05 - model of FORD's display selection as the code is:
  `FortranBase._set_display` (inheritance at construction + own metadata),
  `_should_display` / `filter_display`, the three `prune()` methods driven by the
  tables regenerated from the source (`Generated/C05.lean`), the prune loop and the
  page lists of `Project.correlate`, and the `visible` flag that gates links.
-/
import FordModel.Generated.C05
namespace Ford.Display
open Ford.Generated

/-- words that can stand in a `display` list (all unknown words are `other`) -/
inductive Word | pub | prot | priv | none | other
  deriving DecidableEq, Repr, Inhabited

inductive Kind
  | file | module | submodule | program | blockdata
  | subroutine | function | modproc
  | type | variable | boundproc | finalproc
  | generic | iface | absint | enum | common | namelist | arg | retvar
  deriving DecidableEq, Repr, Inhabited

/-- what the harness knows about one entity -/
structure Info where
  id : Nat
  kind : Kind
  /-- `item.permission` (`pub`/`prot`/`priv`) -/
  perm : Word
  /-- `bool(item.doc_list)` after the metadata has been removed -/
  doc : Bool
  /-- `meta.display`, lower-cased; `[]` = no metadata -/
  disp : List Word
  /-- own `proc_internals` metadata -/
  pint : Option Bool
  /-- procedures this entity displays by reference (binding / module procedure / final) -/
  refs : List Nat
  /-- the `visible` attribute -/
  visible : Bool
  /-- id of the derived type this type extends (`type, extends(t0) :: t1`) -/
  ext : Option Nat := none
  deriving Repr, Inhabited

mutual
inductive Ent
  | mk (i : Info) (cs : Ents)
inductive Ents
  | nil
  | cons (e : Ent) (rest : Ents)
end

def Ent.info : Ent → Info
  | .mk i _ => i
def Ent.kids : Ent → Ents
  | .mk _ cs => cs
def Ent.setVisible : Ent → Ent
  | .mk i cs => .mk { i with visible := true } cs

/-- project settings + the one place where the model carries a switch for a known defect -/
structure Cfg where
  display : List Word
  procInternals : Bool
  hideUndoc : Bool
  /-- `true`: the contents of a file inherit the file's `display` metadata (documented
      behaviour); `false`: they inherit the project's list, because the file's metadata
      is read after its contents were constructed (the code as it is) -/
  fileInherits : Bool
  deriving Repr

/-- name of the list attribute of the parent in which an entity of this kind is kept -/
def listOf : Kind → String
  | .file => "files" | .module => "modules" | .submodule => "submodules" | .program => "programs"
  | .blockdata => "blockdata" | .subroutine => "subroutines" | .function => "functions"
  | .modproc => "modprocedures" | .type => "types" | .variable => "variables"
  | .boundproc => "boundprocs" | .finalproc => "finalprocs" | .generic => "interfaces"
  | .iface => "interfaces" | .absint => "absinterfaces" | .enum => "enums" | .common => "common"
  | .namelist => "namelists" | .arg => "args" | .retvar => "retvar"

/-- which `prune` method an entity of this kind runs -/
inductive PClass | codeUnit | submodule | dtype | blockData | none
  deriving DecidableEq, Repr

def classOf : Kind → PClass
  | .module | .program | .subroutine | .function | .modproc => .codeUnit
  | .submodule => .submodule
  | .type => .dtype
  | .blockdata => .blockData
  | _ => .none

/-- `self.obj == "proc"` -/
def isProc : Kind → Bool
  | .subroutine | .function | .modproc => true
  | _ => false

/-- `visible` as the constructor leaves it: namelists, common blocks, block data units (and modules) are
    `visible` from the start (regenerated list of the classes whose constructor says so); everything else
    becomes visible when a `prune()` keeps it -/
def initVisible : Kind → Bool
  | .namelist => C05.visibleAtInit.contains "FortranNamelist"
  | .common => C05.visibleAtInit.contains "FortranCommon"
  | .blockdata => C05.visibleAtInit.contains "FortranBlockData"
  | .module => C05.visibleAtInit.contains "FortranModule"
  | .submodule => C05.visibleAtInit.contains "FortranSubmodule"
  | _ => false

/-- dummy arguments and the declared result of a function: kept in `args` / `retvar`, which no `prune()`
    touches, and rendered wherever the procedure is -/
def isArgLike : Kind → Bool
  | .arg | .retvar => true
  | _ => false

/-- `_set_display`: `parent` is `self.parent.display` (for a file: `settings.display`) -/
def setDisplay (isFile : Bool) (parent : List Word) (md : List Word) : List Word :=
  let tmp := if isFile then md.filter (fun w => w != .none) else md
  if tmp.isEmpty then parent
  else if tmp.contains .none then []
  else if !tmp.contains .pub && !tmp.contains .priv && !tmp.contains .prot then parent
  else tmp

/-- `_should_display` of a container whose `display` is `d` -/
def shouldDisplay (cfg : Cfg) (d : List Word) (c : Info) : Bool :=
  if cfg.hideUndoc && !c.doc then false else d.contains c.perm

def emptiedIn (cl : PClass) (l : String) : Bool :=
  match cl with
  | .codeUnit | .submodule => C05.codeUnitEmptied.contains l
  | .dtype => C05.dtypeEmptied.contains l
  | .blockData => C05.blockDataEmptied.contains l
  | .none => false

def filteredIn (cl : PClass) (l : String) : Bool :=
  match cl with
  | .codeUnit => C05.codeUnitFiltered.contains l
  | .submodule => C05.codeUnitFiltered.contains l || (C05.codeUnitCondFiltered.map (·.2)).contains l
  | .dtype => C05.dtypeFiltered.contains l
  | .blockData => C05.blockDataFiltered.contains l
  | .none => false

def recurseIn (cl : PClass) (l : String) : Bool :=
  match cl with
  | .codeUnit | .submodule => C05.codeUnitRecurse.contains l
  | .dtype => C05.dtypeRecurse.contains l
  | .blockData => C05.blockDataRecurse.contains l
  | .none => false

def visibleOnlyIn (cl : PClass) (l : String) : Bool :=
  match cl with
  | .codeUnit | .submodule => C05.codeUnitVisibleOnly.contains l
  | .dtype => C05.dtypeVisibleOnly.contains l
  | .blockData => C05.blockDataVisibleOnly.contains l
  | .none => false

/-- the early-return guard of `FortranCodeUnit.prune` -/
def internalsOff (cfg : Cfg) (i : Info) : Bool :=
  isProc i.kind && !(i.pint.getD cfg.procInternals)

mutual
/-- `e.prune()` where `d` is `e.display` -/
def prune (cfg : Cfg) (d : List Word) : Ent → Ent
  | .mk i cs => .mk i (pruneKids cfg (classOf i.kind) (internalsOff cfg i) d cs)
/-- the effect of the parent's `prune()` on its child lists -/
def pruneKids (cfg : Cfg) (cl : PClass) (off : Bool) (d : List Word) : Ents → Ents
  | .nil => .nil
  | .cons e rest =>
    let l := listOf e.info.kind
    if off then
      (if emptiedIn cl l then pruneKids cfg cl off d rest else .cons e (pruneKids cfg cl off d rest))
    else if filteredIn cl l && !shouldDisplay cfg d e.info then pruneKids cfg cl off d rest
    else if recurseIn cl l then
      .cons (prune cfg (setDisplay false d e.info.disp) e).setVisible (pruneKids cfg cl off d rest)
    else if visibleOnlyIn cl l then .cons e.setVisible (pruneKids cfg cl off d rest)
    else .cons e (pruneKids cfg cl off d rest)
end

/-! ### reading the probe rows (round 5)

The tables of `Generated/C05.lean` are no longer read off the spelling of the source: the translator runs the real
`prune()`, `_set_display`, `_should_display` / `filter_display`, `__str__` on real objects and writes down what they
did.  The functions below say what the *model* does on the same inputs; `Props/C05.lean` proves row by row that the
two agree (by evaluation), so a source change that alters the behaviour breaks an obligation and one that does not
leaves every table as it was. -/

/-- the entity kind whose `prune()` an object of this class runs -/
def classKind : String → Option Kind
  | "FortranModule" => some .module
  | "FortranSubmodule" => some .submodule
  | "FortranProgram" => some .program
  | "FortranSubroutine" => some .subroutine
  | "FortranFunction" => some .function
  | "FortranModuleProcedureImplementation" => some .modproc
  | "FortranType" => some .type
  | "FortranBlockData" => some .blockdata
  | _ => none

/-- what the model's `pruneKids` does to the list `l` of an entity of kind `k` whose `proc_internals` is `pint`,
    against one probe row: emptied / filtered / kept member only marked visible / kept member marked and pruned -/
def pruneRowOk (r : String × Bool × List String × List String × List String × List String) : Bool :=
  match classKind r.1 with
  | none => false
  | some k =>
    let off := isProc k && !r.2.1
    let cl := classOf k
    C05.probeLists.all fun l =>
      (r.2.2.1.contains l == (off && emptiedIn cl l))
      && (r.2.2.2.1.contains l == (!off && filteredIn cl l))
      && (r.2.2.2.2.1.contains l == (!off && !recurseIn cl l && visibleOnlyIn cl l))
      && (r.2.2.2.2.2.contains l == (!off && recurseIn cl l))

/-- word codes of the probe tables -/
def wordOfCode : Nat → Word
  | 0 => .pub | 1 => .prot | 2 => .priv | 3 => .none | _ => .other

/-- `_set_display` leaves the inherited list object in place (no own metadata, or none that names a permission) -/
def setDisplayInherits (isFile : Bool) (md : List Word) : Bool :=
  let tmp := if isFile then md.filter (fun w => w != .none) else md
  tmp.isEmpty || (!tmp.contains .none && !tmp.contains .pub && !tmp.contains .priv && !tmp.contains .prot)

/-- one `_set_display` probe row against `setDisplay` / `setDisplayInherits` -/
def setDisplayRowOk (r : Bool × List Nat × List Nat × List Nat × Bool) : Bool :=
  let par := r.2.1.map wordOfCode
  let md := r.2.2.1.map wordOfCode
  (setDisplay r.1 par md == r.2.2.2.1.map wordOfCode) && (r.2.2.2.2 == setDisplayInherits r.1 md)

/-- one `_should_display` / `filter_display` probe row against `shouldDisplay` -/
def shouldDisplayRowOk (r : Bool × Bool × Nat × List Nat × Bool) : Bool :=
  let cfg : Cfg := { display := [], procInternals := true, hideUndoc := r.1, fileInherits := true }
  let i : Info := { (default : Info) with perm := wordOfCode r.2.2.1, doc := r.2.1 }
  shouldDisplay cfg (r.2.2.2.1.map wordOfCode) i == r.2.2.2.2

/-- one `str(entity)` probe row: a link iff the entity has a URL and `visible` is not false (`visibleIds` is what
    the model makes of it); otherwise the plain name -/
def strRowOk (r : Bool × String × Bool × String) : Bool :=
  let link := r.1 && r.2.1 != "false"
  r.2.2.2 == (if link then (if r.2.2.1 then "link" else "link-unnamed") else (if r.2.2.1 then "name" else "empty"))

/-- the units of a file: members of `ranklist` (modules, top-level procedures, programs,
    block data), all `visible`, each pruned with its own display -/
def pruneUnits (cfg : Cfg) (d : List Word) : Ents → Ents
  | .nil => .nil
  | .cons e rest => .cons (prune cfg (setDisplay false d e.info.disp) e).setVisible (pruneUnits cfg d rest)

/-- the display list the units of a file inherited when they were constructed -/
def fileChildDisplay (cfg : Cfg) (i : Info) : List Word :=
  if cfg.fileInherits then setDisplay true cfg.display i.disp else cfg.display

def pruneFile (cfg : Cfg) : Ent → Ent
  | .mk i cs => .mk { i with visible := true } (pruneUnits cfg (fileChildDisplay cfg i) cs)

def pruneProject (cfg : Cfg) : List Ent → List Ent
  | [] => []
  | f :: fs => pruneFile cfg f :: pruneProject cfg fs

/-! ### observations -/

mutual
/-- ids of all entities of a tree, preorder -/
def Ent.ids : Ent → List Nat
  | .mk i cs => i.id :: cs.ids
def Ents.ids : Ents → List Nat
  | .nil => []
  | .cons e rest => e.ids ++ rest.ids
end

mutual
/-- ids of the entities whose `visible` flag is set -/
def Ent.visibleIds : Ent → List Nat
  | .mk i cs => (if i.visible then [i.id] else []) ++ cs.visibleIds
def Ents.visibleIds : Ents → List Nat
  | .nil => []
  | .cons e rest => e.visibleIds ++ rest.visibleIds
end

def idsOf : List Ent → List Nat
  | [] => []
  | e :: es => e.ids ++ idsOf es

def visibleIdsOf : List Ent → List Nat
  | [] => []
  | e :: es => e.visibleIds ++ visibleIdsOf es

/-- a list of a code unit is copied into a project page list (CONTAINERS) -/
def inContainers (l : String) : Bool := (C05.containers.map (·.1)).contains l

/-- a file list whose members are scanned with CONTAINERS -/
def inChain (l : String) : Bool := C05.codeUnitChain.contains l

/-- ids of the direct children of a code unit that get their own page -/
def Ents.pageKids : Ents → List Nat
  | .nil => []
  | .cons e rest => (if inContainers (listOf e.info.kind) then [e.info.id] else []) ++ rest.pageKids

/-- pages below one file: every unit, and the page children of the units in the chain -/
def Ents.unitPages : Ents → List Nat
  | .nil => []
  | .cons e rest =>
    (e.info.id :: (if inChain (listOf e.info.kind) then e.kids.pageKids else [])) ++ rest.unitPages

/-- ids of the entities that get their own page (files included: `incl_src`) -/
def pageIds : List Ent → List Nat
  | [] => []
  | f :: fs => (f.info.id :: f.kids.unitPages) ++ pageIds fs

/-! ### what is displayed by reference -/

mutual
def Ent.find (n : Nat) : Ent → Option Ent
  | .mk i cs => if i.id = n then some (.mk i cs) else cs.find n
def Ents.find (n : Nat) : Ents → Option Ent
  | .nil => none
  | .cons e rest => match e.find n with
    | some r => some r
    | none => rest.find n
end

def findIn (n : Nat) : List Ent → Option Ent
  | [] => none
  | e :: es => match e.find n with
    | some r => some r
    | none => findIn n es

/-- dummy arguments (and the declared result) among the children -/
def Ents.argIds : Ents → List Nat
  | .nil => []
  | .cons e rest => (if isArgLike e.info.kind then [e.info.id] else []) ++ rest.argIds

/-- a referenced procedure is displayed with its own doc and its dummy arguments -/
def refShown (orig : List Ent) (n : Nat) : List Nat :=
  match findIn n orig with
  | some t => t.info.id :: t.kids.argIds
  | none => []

def refsShown (orig : List Ent) : List Nat → List Nat
  | [] => []
  | n :: ns => refShown orig n ++ refsShown orig ns

mutual
def Ent.allRefs : Ent → List Nat
  | .mk i cs => i.refs ++ cs.allRefs
def Ents.allRefs : Ents → List Nat
  | .nil => []
  | .cons e rest => e.allRefs ++ rest.allRefs
end

def allRefsOf : List Ent → List Nat
  | [] => []
  | e :: es => e.allRefs ++ allRefsOf es

/-! ### type extension

`FortranType.correlate` - which runs for every type, in the order of extension, before any `prune()` -
puts the members a type inherits in front of its own: the *public* components and the bindings that
are *not private* of the type it extends (whose lists already carry what that type inherited).  The
objects are shared; the extending type's `prune()` then filters them with its own display list. -/

def Ents.append : Ents → Ents → Ents
  | .nil, ys => ys
  | .cons e r, ys => .cons e (r.append ys)

/-- the two permission tests of `FortranType.correlate` (regenerated as `inheritTests`) -/
def inheritable (i : Info) : Bool :=
  (i.kind == .variable && i.perm == .pub) || (i.kind == .boundproc && i.perm != .priv)

/-- one probe row (member kind, permission code, inherited) against `inheritable` -/
def inheritRowOk (r : String × Nat × Bool) : Bool :=
  let k : Option Kind := if r.1 == "variable" then some .variable else if r.1 == "boundproc" then some .boundproc else none
  match k with
  | some k => inheritable { (default : Info) with kind := k, perm := wordOfCode r.2.1 } == r.2.2
  | none => false

def Ents.inheritable : Ents → Ents
  | .nil => .nil
  | .cons e rest => if Display.inheritable e.info then .cons e rest.inheritable else rest.inheritable

/-- `variables` / `boundprocs` / `finalprocs` of the type `n` after its `correlate`: what it
    inherited, then its own (`fuel` bounds the length of the extension chain) -/
def membersOf (p : List Ent) : Nat → Nat → Ents
  | 0, _ => .nil
  | fuel + 1, n =>
    match findIn n p with
    | some (.mk i cs) =>
      (match i.ext with
       | some m => (membersOf p fuel m).inheritable
       | none => .nil).append cs
    | none => .nil

mutual
/-- the tree as `correlate` leaves it: every extending type carries copies of the members it inherits -/
def Ent.inherit (p : List Ent) (fuel : Nat) : Ent → Ent
  | .mk i cs =>
    .mk i (match i.kind, i.ext with
           | .type, some m => ((membersOf p fuel m).inheritable).append (cs.inherit p fuel)
           | _, _ => cs.inherit p fuel)
def Ents.inherit (p : List Ent) (fuel : Nat) : Ents → Ents
  | .nil => .nil
  | .cons e rest => .cons (e.inherit p fuel) (rest.inherit p fuel)
end

def inheritList (p : List Ent) (fuel : Nat) : List Ent → List Ent
  | [] => []
  | f :: fs => f.inherit p fuel :: inheritList p fuel fs

/-- the project after the inheritance step of `correlate` -/
def inheritProject (p : List Ent) (fuel : Nat) : List Ent := inheritList p fuel p

/-! ### the name of a type-bound procedure in a type summary

`type_summary` (the summary of a type on the page of its module / program / procedure / block data
unit) prints `bound_declaration(tb, link_name=True)`: the name of every binding in the type's
`boundprocs` is a link to the binding's own URL whenever the binding is `visible` - and that URL is an
anchor on the page of the type that *declares* the binding (`get_url` goes through `parent`).  For an
inherited binding the declaring type is not the type that carries it. -/

def Ents.hasId (n : Nat) : Ents → Bool
  | .nil => false
  | .cons e rest => e.info.id == n || rest.hasId n

mutual
/-- id of the entity that declares `n` (its parent in the project as parsed) -/
def Ent.parentOf (n : Nat) : Ent → Option Nat
  | .mk i cs => if cs.hasId n then some i.id else cs.parentOf n
def Ents.parentOf (n : Nat) : Ents → Option Nat
  | .nil => none
  | .cons e rest => match e.parentOf n with
    | some r => some r
    | none => rest.parentOf n
end

def parentIn (n : Nat) : List Ent → Option Nat
  | [] => none
  | e :: es => match e.parentOf n with
    | some r => some r
    | none => parentIn n es

mutual
/-- (binding, declaring type) for every visible binding that a type other than its declaring type
    carries in the tree `q`; `orig` is the project as parsed -/
def Ent.foreignBindings (orig : List Ent) : Ent → List (Nat × Nat)
  | .mk i cs => (if i.kind == .type then cs.foreignOf orig i.id else []) ++ cs.foreignBindings orig
def Ents.foreignBindings (orig : List Ent) : Ents → List (Nat × Nat)
  | .nil => []
  | .cons e rest => e.foreignBindings orig ++ rest.foreignBindings orig
/-- among the members of type `t` -/
def Ents.foreignOf (orig : List Ent) (t : Nat) : Ents → List (Nat × Nat)
  | .nil => []
  | .cons e rest =>
    (if e.info.kind == .boundproc && e.info.visible then
       match parentIn e.info.id orig with
       | some d => if d == t then [] else [(e.info.id, d)]
       | none => []
     else []) ++ rest.foreignOf orig t
end

def foreignBindingsOf (orig : List Ent) : List Ent → List (Nat × Nat)
  | [] => []
  | e :: es => e.foreignBindings orig ++ foreignBindingsOf orig es

/-! ### the name link of `bound_declaration` (round 6)

`type_summary` prints `bound_declaration(tb, link_name=True)` for every member of the type's `boundprocs` - the
bindings the type declares *and* the ones `correlate` made it inherit (`inheritProject`).  The name is
`str(tb)` (a link iff `tb.visible`, `__str__`) when the macro's guard holds, the plain name otherwise; the URL of
a binding is an anchor on the page of the type that **declares** it (`get_url` goes through `parent`), which
for an inherited binding is not the type whose summary is being printed.  On the type's own page
(`bound_info`) the macro is called without `link_name`: never a link. -/

/-- the decision of the macro; `guarded` = the macro tests `tb.parent.visible` (the code as it is since
    `fix: do not link an inherited binding to the page of a type that is not documented`), `false` = it
    does not (the code before that repair) -/
def bindNameLink (guarded linkName tbVisible dVisible external : Bool) : Bool :=
  linkName && tbVisible && (external || !guarded || dVisible)

/-- one row of the regenerated table `boundDeclProbe` (the real macros rendered on real objects of the probe
    project): (site `summary` | `info`, the binding is inherited, `tb.visible`, `visible` of the declaring
    type, `external_url` set, what the name was rendered as) -/
def boundDeclRowOk (guarded : Bool) (r : String × Bool × Bool × Bool × Bool × String) : Bool :=
  r.2.2.2.2.2 == (if bindNameLink guarded (r.1 == "summary") r.2.2.1 r.2.2.2.1 r.2.2.2.2.1 then
                    (if r.2.2.2.2.1 then "link:external" else "link:declaring-type-page") else "name")

/-- is the name of a binding declared by type `d` a link in a type summary when the tree `q` is rendered?  The
    binding has a URL only when the declaring type has a page (`get_url`: a type inside a procedure has none). -/
def bindLinked (guarded : Bool) (orig q : List Ent) (bVisible : Bool) (d : Nat) : Bool :=
  bindNameLink guarded true bVisible ((visibleIdsOf q).contains d) false
  && (if guarded then (pageIds q).contains d else (pageIds orig).contains d)

/-- among the members of type `t`: (type whose summary it is, binding, declaring type = page linked) -/
def Ents.bindLinksIn (g : Bool) (orig q : List Ent) (t : Nat) : Ents → List (Nat × Nat × Nat)
  | .nil => []
  | .cons e rest =>
    (if e.info.kind == .boundproc then
       match parentIn e.info.id orig with
       | some d => if bindLinked g orig q e.info.visible d then [(t, e.info.id, d)] else []
       | none => []
     else []) ++ rest.bindLinksIn g orig q t

mutual
def Ent.bindLinks (g : Bool) (orig q : List Ent) : Ent → List (Nat × Nat × Nat)
  | .mk i cs => (if i.kind == .type then cs.bindLinksIn g orig q i.id else []) ++ cs.bindLinks g orig q
def Ents.bindLinks (g : Bool) (orig q : List Ent) : Ents → List (Nat × Nat × Nat)
  | .nil => []
  | .cons e rest => e.bindLinks g orig q ++ rest.bindLinks g orig q
end

/-- every binding name that is a link in the summary of a type of the tree; `orig` = the project as parsed
    (who declares what), `q` = the tree that is rendered (who is `visible`, who has a page) -/
def bindLinksOf (g : Bool) (orig q : List Ent) : List Ent → List (Nat × Nat × Nat)
  | [] => []
  | e :: es => e.bindLinks g orig q ++ bindLinksOf g orig q es

/-! ### graph nodes (round 6)

Every node class of `ford/graphs.py` (module, submodule, type, procedure - type-bound procedures and interfaces
included -, program, block data, file) runs `BaseNode.__init__` first: the node carries a `URL` attribute (a link
in the rendered SVG) only if the entity has a URL and is shown; a type-bound procedure is shown only if the type
that declares it is shown as well (its URL is an anchor on that type's page).  Nodes are made for entities that
`prune()` removed, too (a called private procedure, the private type of a component): those never got
`visible = True`. -/

/-- the decision of `BaseNode.__init__`; `vis` / `pvis` = the `visible` attribute of the entity / of its parent:
    "true" | "false" | "absent" -/
def nodeLinked (hasUrl isBinding : Bool) (vis pvis : String) : Bool :=
  hasUrl && vis != "false" && (!isBinding || pvis != "false")

/-- one row of the regenerated table `graphNodeProbe`: (class, is a type-bound procedure, has a URL, `visible`,
    parent's `visible`, the node carries `URL`, `URL` = parent_dir + the entity's URL (or both absent)) -/
def graphNodeRowOk (r : String × Bool × Bool × String × String × Bool × Bool) : Bool :=
  let linked := nodeLinked r.2.2.1 r.2.1 r.2.2.2.1 r.2.2.2.2.1
  r.2.2.2.2.2.1 == linked && r.2.2.2.2.2.2 == (linked || !r.2.2.1)

/-- kinds of entities the graphs make nodes of -/
def nodeKind : Kind → Bool
  | .module | .submodule | .program | .blockdata | .file | .type | .subroutine | .function | .modproc
  | .generic | .iface | .absint | .boundproc => true
  | _ => false

def flagStr (b : Bool) : String := if b then "true" else "false"

/-- the page the node of entity `i` links to when `q` is the tree `prune` left (`orig`: who declares what) -/
def nodeUrl (orig q : List Ent) (i : Info) : Option Nat :=
  if i.kind == .boundproc then
    match parentIn i.id orig with
    | some d =>
      if nodeLinked ((pageIds q).contains d) true (flagStr ((visibleIdsOf q).contains i.id))
           (flagStr ((visibleIdsOf q).contains d)) then some d else none
    | none => none
  else if nodeLinked ((pageIds q).contains i.id) false (flagStr ((visibleIdsOf q).contains i.id)) "absent" then
    some i.id
  else if isProc i.kind then
    -- a procedure without a page of its own (an internal procedure): its URL is an anchor on the page of the
    -- entity it stands in (`get_url` goes through `parent`); only its own `visible` is consulted
    match parentIn i.id orig with
    | some par =>
      if nodeLinked ((pageIds q).contains par) false (flagStr ((visibleIdsOf q).contains i.id)) "absent" then some par
      else none
    | none => none
  else none

mutual
/-- (entity, page its node links to) over a whole tree - removed entities included -/
def Ent.nodeUrls (orig q : List Ent) : Ent → List (Nat × Nat)
  | .mk i cs =>
    (if nodeKind i.kind then
       match nodeUrl orig q i with
       | some pg => [(i.id, pg)]
       | none => []
     else []) ++ cs.nodeUrls orig q
def Ents.nodeUrls (orig q : List Ent) : Ents → List (Nat × Nat)
  | .nil => []
  | .cons e rest => e.nodeUrls orig q ++ rest.nodeUrls orig q
end

def nodeUrlsOf (orig q : List Ent) : List Ent → List (Nat × Nat)
  | [] => []
  | e :: es => e.nodeUrls orig q ++ nodeUrlsOf orig q es

/-! ### `extends(...)` in a type summary / on a type page

`type, extends({{ dtype.extends | relurl }})` prints the extended type through `__str__`: a link iff that type
is `visible`.  `prune()` sets `visible` on what it keeps - but `FortranBlockData.correlate` (regenerated
table `visibleInCorrelate`) marks *every* type of a block data unit before `prune()` runs. -/

/-- `correlate` of a `pk` marks its members of kind `ck` `visible` before any `prune()` -/
def visibleBeforePrune (pk ck : Kind) : Bool :=
  pk == .blockdata && ck == .type && C05.visibleInCorrelate.contains ("FortranBlockData", "FortranType")

/-- kind of the entity that declares `n` in the project as parsed -/
def parentKindIn (n : Nat) (orig : List Ent) : Option Kind :=
  match parentIn n orig with
  | some par => (findIn par orig).map (·.info.kind)
  | none => none

/-- is the type `m` printed as a link when the tree `q` is rendered? -/
def extLinked (orig q : List Ent) (m : Nat) : Bool :=
  (visibleIdsOf q).contains m
  || (match parentKindIn m orig with
      | some pk => visibleBeforePrune pk .type
      | none => false)

mutual
/-- (extending type, extended type) for every type of the tree whose `extends(...)` is a link -/
def Ent.extLinks (orig q : List Ent) : Ent → List (Nat × Nat)
  | .mk i cs =>
    (match i.kind, i.ext with
     | .type, some m => if extLinked orig q m then [(i.id, m)] else []
     | _, _ => []) ++ cs.extLinks orig q
def Ents.extLinks (orig q : List Ent) : Ents → List (Nat × Nat)
  | .nil => []
  | .cons e rest => e.extLinks orig q ++ rest.extLinks orig q
end

def extLinksOf (orig q : List Ent) : List Ent → List (Nat × Nat)
  | [] => []
  | e :: es => e.extLinks orig q ++ extLinksOf orig q es

mutual
/-- no block data unit in the tree -/
def Ent.noBlockData : Ent → Bool
  | .mk i cs => i.kind != .blockdata && cs.noBlockData
def Ents.noBlockData : Ents → Bool
  | .nil => true
  | .cons e rest => e.noBlockData && rest.noBlockData
end

def noBlockDataIn : List Ent → Bool
  | [] => true
  | e :: es => e.noBlockData && noBlockDataIn es

mutual
/-- some type of the tree extends another -/
def Ent.hasExt : Ent → Bool
  | .mk i cs => i.ext.isSome || cs.hasExt
def Ents.hasExt : Ents → Bool
  | .nil => false
  | .cons e rest => e.hasExt || rest.hasExt
end

def noExtension : List Ent → Bool
  | [] => true
  | e :: es => !e.hasExt && noExtension es

/-! ### what the page templates render (hand abstraction of the Jinja templates)

A procedure that has no page of its own (an internal procedure: its parent is a procedure; an
interface body written inside a generic interface block) is rendered by `proc_summary`: its doc, its
dummy arguments and its result, nothing else.  A namelist is rendered (`namelist_panel`) by the page
templates that have a namelist section (regenerated list: the procedure and the program page; the
module and block data pages show only its name in the sidebar).  Everything else that survived
`prune` is rendered on the page of the nearest ancestor that has one.  `pk` is the kind of the
parent (`.file` for a file itself). -/

/-- a procedure standing in a `pk` is rendered by `proc_summary` only -/
def summaryIn (pk : Kind) : Bool := isProc pk || pk == .generic

/-- the page template of a `pk` renders the namelists of the entity -/
def nmlSection (pk : Kind) : Bool :=
  match pk with
  | .subroutine | .function | .modproc => C05.namelistSections.contains "proc_page.html"
  | .program => C05.namelistSections.contains "prog_page.html"
  | .module | .submodule => C05.namelistSections.contains "mod_page.html"
  | .blockdata => C05.namelistSections.contains "block_page.html"
  | _ => false

mutual
def Ent.rendered (pk : Kind) : Ent → List Nat
  | .mk i cs =>
    if i.kind == .namelist && !nmlSection pk then []
    else i.id :: (if isProc i.kind && summaryIn pk then cs.argIds else cs.rendered i.kind)
def Ents.rendered (pk : Kind) : Ents → List Nat
  | .nil => []
  | .cons e rest => e.rendered pk ++ rest.rendered pk
end

def renderedOf : List Ent → List Nat
  | [] => []
  | e :: es => e.rendered .file ++ renderedOf es

mutual
/-- refs of the rendered entities -/
def Ent.renderedRefs (pk : Kind) : Ent → List Nat
  | .mk i cs =>
    if i.kind == .namelist && !nmlSection pk then []
    else i.refs ++ (if isProc i.kind && summaryIn pk then [] else cs.renderedRefs i.kind)
def Ents.renderedRefs (pk : Kind) : Ents → List Nat
  | .nil => []
  | .cons e rest => e.renderedRefs pk ++ rest.renderedRefs pk
end

def renderedRefsOf : List Ent → List Nat
  | [] => []
  | e :: es => e.renderedRefs .file ++ renderedRefsOf es

/-! ### namelist pages

`Project._fortran_file` collects the namelists when a file is read - long before any `prune()` - from the
members of some of the file's lists and from their `routines` (regenerated table `namelistCollect`);
`Documentation` writes a `NamelistPage` for each of them: the namelist's doc and the docs of the
variables it groups. -/

/-- namelists among the children -/
def Ents.nmlKids : Ents → List Ent
  | .nil => []
  | .cons e rest => (if e.info.kind = .namelist then [e] else []) ++ rest.nmlKids

/-- namelists of the `routines` among the children -/
def Ents.routineNmls : Ents → List Ent
  | .nil => []
  | .cons e rest =>
    (if C05.routinesLists.contains (listOf e.info.kind) then e.kids.nmlKids else []) ++ rest.routineNmls

/-- namelists collected from the units of one file -/
def Ents.unitNmls : Ents → List Ent
  | .nil => []
  | .cons u rest =>
    (match C05.namelistCollect.lookup (listOf u.info.kind) with
     | some (direct, routines) =>
       (if direct then u.kids.nmlKids else []) ++ (if routines then u.kids.routineNmls else [])
     | none => []) ++ rest.unitNmls

/-- `Project.namelists` (of the project as parsed) -/
def nmlEnts : List Ent → List Ent
  | [] => []
  | f :: fs => f.kids.unitNmls ++ nmlEnts fs

def nmlPageIds (p : List Ent) : List Nat := (nmlEnts p).map (·.info.id)

/-- what the namelist pages show: each namelist and the variables it groups -/
def nmlShown : List Ent → List Nat
  | [] => []
  | n :: ns => (n.info.id :: n.info.refs) ++ nmlShown ns

/-- ids of the entities that get a page of their own: the page lists filled from the pruned units, and the
    namelists collected from the project as parsed -/
def sitePageIds (cfg : Cfg) (p : List Ent) : List Nat :=
  pageIds (pruneProject cfg p) ++ nmlPageIds p

/-- ids whose documentation text is displayed somewhere on the site -/
def shownIds (cfg : Cfg) (p : List Ent) : List Nat :=
  let q := pruneProject cfg p
  renderedOf q ++ refsShown p (renderedRefsOf q) ++ nmlShown (nmlEnts p)

/-! ### what each page shows (hand abstraction of the page templates, per page)

* a file page: the file's doc;
* the page of a module / submodule / program / block data unit: its doc and everything below it, except
  that its procedures (they have pages of their own) appear with `proc_summary` only; `type_summary`
  prints the summary of a binding / final procedure but not the procedure it names, `interface` prints the
  specific procedures of a generic interface;
* the page of a procedure, derived type, interface: its doc and everything below it; a type page also
  prints the procedures its bindings and final procedures name;
* a namelist page: the namelist's doc and the docs of the variables it groups. -/

/-- units whose procedures have pages of their own -/
def unitLike : Kind → Bool
  | .module | .submodule | .program | .blockdata => true
  | _ => false

def Ents.onUnitPage (uk : Kind) : Ents → List Nat
  | .nil => []
  | .cons c rest =>
    (if isProc c.info.kind then c.info.id :: c.kids.argIds else c.rendered uk) ++ rest.onUnitPage uk

mutual
/-- refs whose targets are printed with the entity on a page; `brefs`: the page prints the procedures that
    bindings / final procedures name (type pages only) -/
def Ent.pageRefs (brefs : Bool) (pk : Kind) : Ent → List Nat
  | .mk i cs =>
    if i.kind == .namelist && !nmlSection pk then []
    else (if (i.kind == .boundproc || i.kind == .finalproc) && !brefs then [] else i.refs)
      ++ (if isProc i.kind && summaryIn pk then [] else cs.pageRefs brefs i.kind)
def Ents.pageRefs (brefs : Bool) (pk : Kind) : Ents → List Nat
  | .nil => []
  | .cons e rest => e.pageRefs brefs pk ++ rest.pageRefs brefs pk
end

def Ents.unitPageRefs (uk : Kind) : Ents → List Nat
  | .nil => []
  | .cons c rest => (if isProc c.info.kind then [] else c.pageRefs false uk) ++ rest.unitPageRefs uk

/-- ids shown on the page of `x`, which stands in a `pk` -/
def Ent.pageShows (orig : List Ent) (pk : Kind) (x : Ent) : List Nat :=
  if unitLike x.info.kind then
    (x.info.id :: x.kids.onUnitPage x.info.kind) ++ refsShown orig (x.kids.unitPageRefs x.info.kind)
  else
    x.rendered pk ++ refsShown orig (x.pageRefs (x.info.kind == .type) pk)

def Ents.memberPages (orig : List Ent) (uk : Kind) : Ents → List (Nat × List Nat)
  | .nil => []
  | .cons c rest =>
    (if inContainers (listOf c.info.kind) then [(c.info.id, c.pageShows orig uk)] else [])
      ++ rest.memberPages orig uk

def Ents.unitPagesShown (orig : List Ent) : Ents → List (Nat × List Nat)
  | .nil => []
  | .cons u rest =>
    ((u.info.id, u.pageShows orig .file)
      :: (if inChain (listOf u.info.kind) then u.kids.memberPages orig u.info.kind else []))
      ++ rest.unitPagesShown orig

def filePagesShown (orig : List Ent) : List Ent → List (Nat × List Nat)
  | [] => []
  | f :: fs => ((f.info.id, [f.info.id]) :: f.kids.unitPagesShown orig) ++ filePagesShown orig fs

def nmlPagesShown : List Ent → List (Nat × List Nat)
  | [] => []
  | n :: ns => (n.info.id, n.info.id :: n.info.refs) :: nmlPagesShown ns

/-- (page, ids whose documentation the page shows) for every page of the site -/
def pagesShown (cfg : Cfg) (p : List Ent) : List (Nat × List Nat) :=
  filePagesShown p (pruneProject cfg p) ++ nmlPagesShown (nmlEnts p)

end Ford.Display
