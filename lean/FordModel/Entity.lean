/-
  The entity of a type declaration statement and the dummy arguments of a procedure (property C01: "each ...
  variable ... appears exactly once, under the unit that declares it, with its declared name ... ordered
  argument list", "nothing undeclared is reported").

  * `FortranVariable.__init__` (ford/sourceform.py) receives the entity as written with the blanks removed
    (`buf*(*)`, `w(3)*4`, `a[*]`, `b(2)[2,*]`) and cuts it into the name and what follows the name at the
    leftmost `(`, `[` or `*` that is not the first character (`Show.splitNameDim`, shared with C18).
  * `FortranProcedure._cleanup` then goes through the dummy argument names of the procedure statement in
    order: the first variable of the unit whose name equals the argument's (letter case ignored) becomes
    the argument and is removed from the unit's variables; an argument without such a variable (and without
    an interface body of that name - interface bodies are not part of this model) is documented as an
    implicitly typed variable.

      for i, arg in enumerate(self.args):
          for var in self.variables:
              if arg.lower() == var.name.lower():
                  arg = var
                  self.variables.remove(var)
                  break
          ...
          if isinstance(arg, str):
              arg = FortranVariable(arg, implicit_type(arg), self, doc="")
          self.args[i] = arg

  Import-free of Mathlib on purpose (compiled driver).
-/
import FordModel.Basic.Chars
import FordModel.Show
namespace Ford.Entity
open Ford Ford.Show

/-- a `FortranVariable` as far as this mechanism reads or writes it: `name`, `dimension` -/
structure Var where
  name : Str
  spec : Str
  deriving DecidableEq, Repr

/-- `FortranVariable(name = txt, ...)` -/
def mkVar (txt : Str) : Var := ⟨(splitNameDim txt).1, (splitNameDim txt).2⟩

/-- `arg.lower() == var.name.lower()` -/
def sameName (a : Str) (v : Var) : Bool := lower a == lower v.name

/-- the inner loop: the first variable with the argument's name, and the variables without it -/
def takeVar (a : Str) : List Var → Option (Var × List Var)
  | [] => none
  | v :: vs =>
    if sameName a v then some (v, vs)
    else
      match takeVar a vs with
      | some (w, r) => some (w, v :: r)
      | none => none

/-- what an entry of `self.args` is after `_cleanup` -/
inductive Arg where
  /-- the variable a declaration of the unit made -/
  | declared (v : Var)
  /-- no declaration: `FortranVariable(arg, implicit_type(arg), self)` -/
  | implicit (name : Str)
  deriving DecidableEq, Repr

/-- the outer loop: (`self.args`, `self.variables`) afterwards -/
def matchArgs : List Str → List Var → List Arg × List Var
  | [], vs => ([], vs)
  | a :: as, vs =>
    match takeVar a vs with
    | some (v, r) => (.declared v :: (matchArgs as r).1, (matchArgs as r).2)
    | none => (.implicit a :: (matchArgs as vs).1, (matchArgs as vs).2)

/-- the variables the entities of the unit's declarations make, in source order -/
def declare (ents : List Str) : List Var := ents.map mkVar

/-- a procedure whose dummy arguments are `args` and whose declarations have the entities `ents` -/
def cleanup (args : List Str) (ents : List Str) : List Arg × List Var := matchArgs args (declare ents)

end Ford.Entity
