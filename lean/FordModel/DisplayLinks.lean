/-
  C05 - model of how a `[[name]]` in a doc comment becomes a link, as the code is:
  `FordLinkProcessor.convert_link` (ford/_markdown.py) asks
    1. `context.find_child(name)`  - the entity whose doc comment is being converted,
    2. `context.parent.find_child(name)`,
    3. `project.find(name)`        - the project page lists named in `LINK_TYPES`,
  and links to `item.get_url()`.  `find_child` walks `FortranBase.children`: the list
  attributes in the order of the regenerated table `childrenLists` - these are the lists
  `prune()` has filtered - and then the single-object attributes `nonListChildren`, which
  no `prune()` touches: `procedure` (the body of an interface, the procedure a `final`
  names), `retvar`; the `bindings` list of a type-bound procedure holds the procedures it
  binds, again taken from no pruned list.

  The page a link points at is the page of the nearest ancestor-or-self of the target that
  has one (`get_url` / `get_dir`): a file, a program unit, or a procedure / interface / type
  that stands directly in a module, submodule, program or block data.  The traversal below
  has that shape (file / unit / member / deeper), exactly like `pageIds`.
-/
import FordModel.Display
namespace Ford.Display
open Ford.Generated

/-- what the harness knows about names and doc links -/
structure LinkEnv where
  /-- name code of an entity (lower-cased name; equal codes = equal names) -/
  nm : Nat → Nat
  /-- name codes linked from the doc comment of an entity, in order -/
  lk : Nat → List Nat
  /-- the project as parsed (before `prune`): references to procedures are looked up here -/
  orig : List Ent
  /-- defect switch. `false`: the code as it is - whatever was found is linked; `true`: the link
      extension refuses an entity whose page is not written (candidate repair
      `fixes/C05-doc-link-hidden-page.diff`) -/
  checksPage : Bool

/-- outcome of one lookup -/
structure Hit where
  target : Nat
  /-- id of the entity whose page the URL names -/
  page : Nat
  /-- found through a reference that no `prune()` filters (`bindings`, `procedure` of a final) -/
  viaRef : Bool
  deriving DecidableEq, Repr

structure Link where
  ctx : Nat
  name : Nat
  hit : Option Hit
  deriving DecidableEq, Repr

def Ents.toList : Ents → List Ent
  | .nil => []
  | .cons e rest => e :: rest.toList

/-- members of one list attribute, in order -/
def Ents.inList (l : String) : Ents → List Ent
  | .nil => []
  | .cons e rest => (if listOf e.info.kind == l then [e] else []) ++ rest.inList l

/-- `self.iterator(*lists)` -/
def childrenOf (cs : Ents) : List String → List Ent
  | [] => []
  | l :: ls => cs.inList l ++ childrenOf cs ls

/-- `_find_in_list` -/
def firstNamed (nm : Nat → Nat) (n : Nat) : List Ent → Option Ent
  | [] => none
  | e :: es => if nm e.info.id = n then some e else firstNamed nm n es

/-- the procedures an entity refers to, as objects of the unpruned project -/
def refEnts (orig : List Ent) : List Nat → List Ent
  | [] => []
  | r :: rs => (match findIn r orig with | some t => [t] | none => []) ++ refEnts orig rs

/-- an interface block with one body: FORD keeps the body as `procedure`; the dummy arguments
    are children of that body, not of the interface -/
def isBody : Kind → Bool
  | .iface | .absint => true
  | _ => false

/-- does this entity keep procedure objects that `children` yields? -/
def refChildren (k : Kind) : Bool :=
  (k == .boundproc && C05.childrenLists.contains "bindings")
  || (k == .finalproc && C05.nonListChildren.contains "procedure")

/-- a declared result variable (`result(r)`) among the children -/
def Ents.hasRetvar : Ents → Bool
  | .nil => false
  | .cons e rest => e.info.kind == .retvar || rest.hasRetvar

/-- is the entity's own name found among its children (`procedure` of an interface seen as the
    context, `retvar` of a function - which is called like the function unless it was declared
    with `result(r)`)? -/
def selfChild (asCtx : Bool) (k : Kind) (kids : Ents) : Bool :=
  (isBody k && asCtx && C05.nonListChildren.contains "procedure")
  || (k == .function && !kids.hasRetvar && C05.nonListChildren.contains "retvar")

/-- `e.find_child(n)`; `own ck`: a child of kind `ck` of `e` has a page of its own, `pg`: the
    page on which `e` itself is described; `asCtx`: `e` is the context (not its parent) -/
def findChild (E : LinkEnv) (asCtx : Bool) (own : Kind → Bool) (pg : Nat) (e : Ent) (n : Nat) : Option Hit :=
  let k := e.info.kind
  let kids := if isBody k && asCtx then [] else childrenOf e.kids C05.childrenLists
  match firstNamed E.nm n kids with
  | some c => some ⟨c.info.id, if own c.info.kind then c.info.id else pg, false⟩
  | none =>
    match firstNamed E.nm n (if refChildren k then refEnts E.orig e.info.refs else []) with
    | some r => some ⟨r.info.id, r.info.id, true⟩
    | none => if selfChild asCtx k e.kids && E.nm e.info.id = n then some ⟨e.info.id, pg, false⟩ else none

/-! ### reading the probe rows of the link lookup (round 5)

`find_child` and `Project.find` are run on stubs by the translator, one case per list / entity word; the functions
below say what the link model assumes of each kind of case. -/

/-- `FortranBase.find_child`: a bare name is found in every list and single-object attribute `children` knows
    (the first list wins), an entity word selects the list `SUBLINK_TYPES` names, unknown / inapplicable words raise -/
def findChildRowOk (r : String × String × String × String) : Bool :=
  let k := r.1
  let out := r.2.2.2
  if k == "bare-list" || k == "bare-single" || k == "entity" || k == "bare-first-list-wins" then out == "found"
  else if k == "bare-not-found" then out == "None"
  else if k == "entity-unknown-word" || k == "entity-list-missing" then out == "ValueError"
  else false

/-- `Project.find`: a bare name is found in every list `LINK_TYPES` names (the first list wins, bound procedures of
    external projects are skipped), an entity word selects its list, an unknown word raises, a child is looked up by
    the hit's own `find_child` -/
def projectFindRowOk (r : String × String × String × String) : Bool :=
  let k := r.1
  let out := r.2.2.2
  if k == "bare-list" || k == "entity" || k == "bare-first-list-wins" || k == "bare-external-bound-procedure-skipped" then
    out == "found"
  else if k == "bare-not-found" || k == "child-parent-not-found" then out == "None"
  else if k == "entity-unknown-word" then out == "ValueError"
  else if k == "child-asks-the-hit" then out == "found:('kid', 'variable')"
  else false

/-- the rows of one kind: (list or word, list) -/
def probeRowsOf (k : String) (rows : List (String × String × String × String)) : List (String × String) :=
  (rows.filter (fun r => r.1 == k)).map (fun r => (r.2.1, r.2.2.1))

/-! ### `Project.find`: the page lists of the project, by list name -/

/-- the project list a program unit is kept in -/
def unitList (k : Kind) : String := if isProc k then "procedures" else listOf k

def Ents.pageKidsL : Ents → List (Nat × String)
  | .nil => []
  | .cons e rest =>
    (match C05.containers.lookup (listOf e.info.kind) with
     | some pl => [(e.info.id, pl)]
     | none => []) ++ rest.pageKidsL

def Ents.unitPagesL : Ents → List (Nat × String)
  | .nil => []
  | .cons e rest =>
    ((e.info.id, unitList e.info.kind) :: (if inChain (listOf e.info.kind) then e.kids.pageKidsL else []))
      ++ rest.unitPagesL

/-- (id, project list) of every entity that has a page -/
def projEntries : List Ent → List (Nat × String)
  | [] => []
  | f :: fs => ((f.info.id, "allfiles") :: f.kids.unitPagesL) ++ projEntries fs

def firstInList (nm : Nat → Nat) (n : Nat) (l : String) : List (Nat × String) → Option Nat
  | [] => none
  | (i, pl) :: rest => if pl == l && nm i = n then some i else firstInList nm n l rest

/-- `_find_in_list(chain(*(getattr(self, l) for l in LINK_TYPES.values())), name)` -/
def findInLists (nm : Nat → Nat) (n : Nat) (es : List (Nat × String)) : List String → Option Nat
  | [] => none
  | l :: ls => match firstInList nm n l es with
    | some i => some i
    | none => findInLists nm n es ls

def projectFind (E : LinkEnv) (q : List Ent) (n : Nat) : Option Nat :=
  findInLists E.nm n (projEntries q) (C05.linkTypes.map (·.2))

/-! ### `convert_link` -/

/-- context `ctx` (described on page `pg`, children with a page: `own`), its parent with the same
    data, the pruned project `q` -/
def resolve0 (E : LinkEnv) (q : List Ent) (par : Option (Ent × (Kind → Bool) × Nat))
    (own : Kind → Bool) (pg : Nat) (ctx : Ent) (n : Nat) : Option Hit :=
  match findChild E true own pg ctx n with
  | some h => some h
  | none =>
    match (match par with
           | some (p, pown, ppg) => findChild E false pown ppg p n
           | none => none) with
    | some h => some h
    | none => match projectFind E q n with
      | some i => some ⟨i, i, false⟩
      | none => none

/-- the three lookups, then (repaired variant only) the test that the page exists -/
def resolve (E : LinkEnv) (q : List Ent) (par : Option (Ent × (Kind → Bool) × Nat))
    (own : Kind → Bool) (pg : Nat) (ctx : Ent) (n : Nat) : Option Hit :=
  match resolve0 E q par own pg ctx n with
  | some h => if E.checksPage && !(pageIds q).contains h.page then none else some h
  | none => none

def linksAt (E : LinkEnv) (q : List Ent) (par : Option (Ent × (Kind → Bool) × Nat))
    (own : Kind → Bool) (pg : Nat) (ctx : Ent) : List Nat → List Link
  | [] => []
  | n :: ns => ⟨ctx.info.id, n, resolve E q par own pg ctx n⟩ :: linksAt E q par own pg ctx ns

def noPage : Kind → Bool := fun _ => false
def allPages : Kind → Bool := fun _ => true

/-- the children of a unit of kind `uk` that get a page (`get_dir`; the same test as `pageKids`) -/
def memberOwn (uk : Kind) : Kind → Bool :=
  fun ck => inChain (listOf uk) && inContainers (listOf ck)

mutual
/-- links in the doc comments of an entity below the page level and of everything under it:
    all of it is described on page `pg` -/
def Ent.deepLinks (E : LinkEnv) (q : List Ent) (par : Ent) (pg : Nat) : Ent → List Link
  | .mk i cs =>
    linksAt E q (some (par, noPage, pg)) noPage pg (.mk i cs) (E.lk i.id) ++ cs.deepLinks E q (.mk i cs) pg
def Ents.deepLinks (E : LinkEnv) (q : List Ent) (par : Ent) (pg : Nat) : Ents → List Link
  | .nil => []
  | .cons e rest => Ent.deepLinks E q par pg e ++ rest.deepLinks E q par pg
end

/-- members of unit `u` -/
def Ents.memberLinks (E : LinkEnv) (q : List Ent) (u : Ent) : Ents → List Link
  | .nil => []
  | .cons c rest =>
    let pg := if memberOwn u.info.kind c.info.kind then c.info.id else u.info.id
    (linksAt E q (some (u, memberOwn u.info.kind, u.info.id)) noPage pg c (E.lk c.info.id)
      ++ c.kids.deepLinks E q c pg) ++ rest.memberLinks E q u

/-- units of file `f` -/
def Ents.unitLinks (E : LinkEnv) (q : List Ent) (f : Ent) : Ents → List Link
  | .nil => []
  | .cons u rest =>
    (linksAt E q (some (f, allPages, f.info.id)) (memberOwn u.info.kind) u.info.id u (E.lk u.info.id)
      ++ u.kids.memberLinks E q u) ++ rest.unitLinks E q f

def filesLinks (E : LinkEnv) (q : List Ent) : List Ent → List Link
  | [] => []
  | f :: fs =>
    (linksAt E q none allPages f.info.id f (E.lk f.info.id) ++ f.kids.unitLinks E q f) ++ filesLinks E q fs

/-- every `[[name]]` of every doc comment of a surviving entity, resolved -/
def linksOf (E : LinkEnv) (q : List Ent) : List Link := filesLinks E q q

/-- no type-bound or final procedure links, from its own doc comment, to a procedure it names -/
def Link.direct (l : Link) : Bool :=
  match l.hit with
  | some h => !h.viaRef
  | none => true

/-! ### witness inputs used by Props/C05 -/
namespace LinkWitness

def cfg : Cfg := { display := [.pub], procInternals := false, hideUndoc := false, fileInherits := true }

private def inf (id : Nat) (k : Kind) (p : Word) (refs : List Nat := []) : Info :=
  { id := id, kind := k, perm := p, doc := true, disp := [], pint := none, refs := refs, visible := false }

/-- `module m2; private; public :: t3; type t3; contains; procedure, public :: bp4 => s5 !! [[s5]]`
    and the private `subroutine s5(a6)` -/
def pBinding : List Ent :=
  [.mk (inf 1 .file .pub)
    (.cons (.mk (inf 2 .module .pub)
      (.cons (.mk (inf 3 .type .pub) (.cons (.mk (inf 4 .boundproc .pub [5]) .nil) .nil))
      (.cons (.mk (inf 5 .subroutine .priv) (.cons (.mk (inf 6 .arg .pub) .nil) .nil)) .nil))) .nil)]

/-- the comment of the binding (4) names the procedure it binds (5) -/
def eBinding (chk : Bool) : LinkEnv :=
  { nm := id, lk := fun i => if i = 4 then [5] else [], orig := pBinding, checksPage := chk }

/-- `module m2; private; public :: g3; interface g3; module procedure s4`, private
    `subroutine s4(a5) !! [[a5]]` -/
def pReferenced : List Ent :=
  [.mk (inf 1 .file .pub)
    (.cons (.mk (inf 2 .module .pub)
      (.cons (.mk (inf 3 .generic .pub [4]) .nil)
      (.cons (.mk (inf 4 .subroutine .priv) (.cons (.mk (inf 5 .arg .pub) .nil) .nil)) .nil))) .nil)]

def eReferenced (chk : Bool) : LinkEnv :=
  { nm := id, lk := fun i => if i = 4 then [5] else [], orig := pReferenced, checksPage := chk }

/-- the unselected procedure 4 as the link extension sees it when its comment is converted:
    its own (unpruned) children, the pruned module as parent -/
def referencedHit (chk : Bool) : Option Hit :=
  match findIn 4 pReferenced, findIn 2 (pruneProject cfg pReferenced) with
  | some c, some m =>
    resolve (eReferenced chk) (pruneProject cfg pReferenced) (some (m, memberOwn .module, 2)) noPage 4 c 5
  | _, _ => none

/-- a module with a public type (3, component 4), a public subroutine (5) whose comment links to
    the type, the component, a private function (6) and the module -/
def pPlain : List Ent :=
  [.mk (inf 1 .file .pub)
    (.cons (.mk (inf 2 .module .pub)
      (.cons (.mk (inf 3 .type .pub) (.cons (.mk (inf 4 .variable .pub) .nil) .nil))
      (.cons (.mk (inf 5 .subroutine .pub) .nil)
      (.cons (.mk (inf 6 .function .priv) .nil) .nil)))) .nil)]

def ePlain : LinkEnv :=
  { nm := id, lk := fun i => if i = 5 then [3, 4, 6, 2] else if i = 4 then [4, 3] else [],
    orig := pPlain, checksPage := false }

end LinkWitness

end Ford.Display
