/-
  Model of the *iterator protocol* of `FortranReader` (ford/reader.py): one call of `__next__` at a
  time, and `pass_back`, the hook through which the parser looks ahead.

  `Reader.lean` / `Include.lean` model `list(FortranReader(file))` (a fold over the physical lines that
  emits everything a logical line leaves behind at once).  The parser never reads a file that way: every
  entity constructor and `line_to_variables` call `ford.sourceform.read_docstring`, which takes items
  with `next(source)` while they are doc lines and hands the first other item back with
  `source.pass_back(line)`; the statement queue `pending` therefore receives items from two sides - the
  `;`-split of the line just read (`pending.extend`, bottom of `__next__`) and the parser (`pass_back`) -
  while `__next__` pops it at its top.  This file models that state machine as it is:

    St            what survives between two calls: `docbuffer`, `prevdoc`, `reading_alt` (in `rs`),
                  `pending`, and the physical lines not yet read
    includeCall   one call of `self.include()` on the queue
    popPending    `if len(pending): [self.include()]` / `if len(pending): return pending.pop(0)`
    next          one call of `__next__`: the if/elif chain at its top in the order the source has
                  (`queueOrder`, regenerated), then the `while not done` loop (`readOn`: `feedG` on one
                  physical line after the other with the raw tail `tailRaw`), the split, the bottom pops
    passBack      `pass_back(line)`; where the line goes is regenerated from the source (`front`)
    collectDocs / readDocstring   `ford.sourceform.read_docstring`
    consume       a consumer that takes items one by one and looks ahead before some of them
    runOps        a schedule of calls (driver command `c02.step`, compared with the real object)

  The loop body on one physical line is `Include.feedG` (`feedFront`, `feedBack`), shared with the batch
  model: `Include.feedI` is `feedG` with `feedTailI` plugged in, `readOn` plugs in `tailRaw`.
-/
import FordModel.Reader
import FordModel.Include
namespace Ford.PassBack
open Ford Include

/-- the end of a loop iteration as `__next__` itself has it (`Include.tailState`, `tailDone`,
    `splitPending`): when the logical line is complete the `;`-split statements are handed out
    (`some pending`) and nothing else is touched: the pops belong to `next` -/
def tailRaw (s : RS) (line : Str) : Except IErr (RS × Option (List Str)) :=
  let s := tailState s line
  if !tailDone s then .ok (s, none) else .ok (s, some (splitPending s))

/-- what survives between two calls of `__next__` -/
structure St where
  rs : RS
  pending : List Str
  lines : List Str
  deriving Repr

/-- the locals `__next__` initialises in front of its loop -/
def resetLocals (s : RS) : RS :=
  { s with continued := false, readingPredoc := false, readingPredocAlt := 0, linebuffer := [] }

/-- one call of `self.include()`: the queue afterwards -/
def includeCall (c : Cfg) (resolve : Str → Res) : List Str → Except IErr (List Str)
  | [] => .ok []
  | p :: rest =>
    match look c.kwLoose resolve p with
    | .keep => .ok (p :: rest)
    | .fail e => .error e
    | .splice [] => if c.guarded then includeCall c resolve rest else .ok rest
    | .splice (x :: l) => .ok (x :: l ++ rest)

/-- `if len(self.pending): self.include()` (when `inc`) followed by the pop: the item and the rest of
    the queue, `none` when there is nothing to pop (the re-testing variant), `pop from empty list` in
    the variant that does not look again -/
def popPending (c : Cfg) (resolve : Str → Res) (inc : Bool) (pending : List Str) :
    Except IErr (Option (Str × List Str)) :=
  match pending with
  | [] => .ok none
  | _ :: _ =>
    match (if inc then includeCall c resolve pending else .ok pending) with
    | .error e => .error e
    | .ok [] => if c.guarded then .ok none else .error .popEmpty
    | .ok (x :: rest) => .ok (some (x, rest))

/-- the queue emptied call by call: `popPending` (one `__next__` each) until it has nothing to pop;
    `Drains c resolve inc q out` = the calls return the items `out`, in this order -/
inductive Drains (c : Cfg) (resolve : Str → Res) (inc : Bool) : List Str → List Str → Prop
  | done {q : List Str} : popPending c resolve inc q = .ok none → Drains c resolve inc q []
  | step {q : List Str} {x : Str} {rest out : List Str} :
      popPending c resolve inc q = .ok (some (x, rest)) → Drains c resolve inc rest out →
      Drains c resolve inc q (x :: out)

/-- the loop of `__next__` and what follows it, from the physical line `lines.head` on -/
def readOn (c : Cfg) (resolve : Str → Res) (m : Marks) : RS → List Str → Except IErr (Option (Str × St))
  | _, [] => .ok none                                  -- `next(self.reader)` raises StopIteration
  | s, l :: ls =>
    match feedG none tailRaw m s l with
    | .error e => .error e
    | .ok (s', none) => readOn c resolve m s' ls
    | .ok (s', some pend) =>
      match popPending c resolve c.incEpilogue pend with
      | .error e => .error e
      | .ok (some (x, rest)) =>
        .ok (some (x, { rs := { s' with prevdoc := false }, pending := rest, lines := ls }))
      | .ok none =>
        match s'.docbuffer with
        | d :: ds =>
          .ok (some (d, { rs := { s' with docbuffer := ds, prevdoc := if d != '!' :: m.doc then true else s'.prevdoc },
                          pending := [], lines := ls }))
        | [] => if c.guarded then readOn c resolve m (resetLocals s') ls   -- `return next(self)`
                else .error .popEmpty

/-- which buffer a branch of the if/elif chain at the top of `__next__` serves -/
inductive Slot | pending | docbuffer
  deriving DecidableEq, Repr

/-- the chain at the top of `__next__`, in the given order; `none` = no branch applies -/
def serve (c : Cfg) (resolve : Str → Res) (st : St) : List Slot → Except IErr (Option (Str × St))
  | [] => .ok none
  | .pending :: more =>
    match popPending c resolve c.incPrologue st.pending with
    | .error e => .error e
    | .ok (some (x, rest)) => .ok (some (x, { st with rs := { st.rs with prevdoc := false }, pending := rest }))
    | .ok none => serve c resolve { st with pending := [] } more
  | .docbuffer :: more =>
    match st.rs.docbuffer with
    | d :: ds => .ok (some (d, { st with rs := { st.rs with docbuffer := ds, prevdoc := true } }))
    | [] => serve c resolve st more

/-- one call of `__next__`: `none` = StopIteration -/
def next (c : Cfg) (resolve : Str → Res) (m : Marks) (order : List Slot) (st : St) : Except IErr (Option (Str × St)) :=
  match serve c resolve st order with
  | .error e => .error e
  | .ok (some r) => .ok (some r)
  | .ok none => readOn c resolve m (resetLocals st.rs) st.lines

/-- the reader iterated to StopIteration: `Yields .. st out` = successive calls of `__next__` from `st`
    return the items `out`, then StopIteration -/
inductive Yields (c : Cfg) (resolve : Str → Res) (m : Marks) (order : List Slot) : St → List Str → Prop
  | stop {st : St} : next c resolve m order st = .ok none → Yields c resolve m order st []
  | item {st st' : St} {x : Str} {out : List Str} :
      next c resolve m order st = .ok (some (x, st')) → Yields c resolve m order st' out →
      Yields c resolve m order st (x :: out)

/-- `r` is the outcome of a call, `items` what this call and all later ones return -/
def After (c : Cfg) (resolve : Str → Res) (m : Marks) (order : List Slot)
    (r : Except IErr (Option (Str × St))) (items : List Str) : Prop :=
  match r with
  | .error _ => False
  | .ok none => items = []
  | .ok (some (x, st')) => ∃ out, items = x :: out ∧ Yields c resolve m order st' out

/-- `pass_back(line)`: at the head of the queue (`self.pending.insert(0, line)`) or behind it -/
def passBack (front : Bool) (st : St) (line : Str) : St :=
  { st with pending := if front then line :: st.pending else st.pending ++ [line] }

/-- the loop of `read_docstring`: items while they start with `!` + docmark (the mark cut off), then
    the first other item and the reader behind it; `none` = the file ended first (StopIteration) -/
def collectDocs (c : Cfg) (resolve : Str → Res) (m : Marks) (order : List Slot) :
    Nat → St → Except IErr (Option (List Str × Str × St))
  | 0, _ => .error .depth
  | fuel + 1, st =>
    match next c resolve m order st with
    | .error e => .error e
    | .ok none => .ok none
    | .ok (some (x, st')) =>
      if startsWith x ('!' :: m.doc) then
        match collectDocs c resolve m order fuel st' with
        | .error e => .error e
        | .ok none => .ok none
        | .ok (some (ds, y, st'')) => .ok (some (x.drop (1 + m.doc.length) :: ds, y, st''))
      else .ok (some ([], x, st'))

/-- `ford.sourceform.read_docstring(source, docmark)`: the doc lines and the reader afterwards -/
def readDocstring (c : Cfg) (resolve : Str → Res) (m : Marks) (order : List Slot) (front : Bool)
    (fuel : Nat) (st : St) : Except IErr (Option (List Str × St)) :=
  match collectDocs c resolve m order fuel st with
  | .error e => .error e
  | .ok none => .ok none
  | .ok (some (ds, x, st')) => .ok (some (ds, passBack front st' x))

/-- a consumer that takes one item per entry of `peeks`; where the entry is `true` it has looked ahead
    first (taken the item and handed it back), as the parser does after every statement that can carry
    documentation -/
def consume (c : Cfg) (resolve : Str → Res) (m : Marks) (order : List Slot) (front : Bool) :
    List Bool → St → Except IErr (List Str)
  | [], _ => .ok []
  | pk :: more, st =>
    match next c resolve m order st with
    | .error e => .error e
    | .ok none => .ok []
    | .ok (some (x, st')) =>
      if pk then
        match next c resolve m order (passBack front st' x) with
        | .error e => .error e
        | .ok none => .ok []
        | .ok (some (y, st'')) => (consume c resolve m order front more st'').map (y :: ·)
      else (consume c resolve m order front more st').map (x :: ·)

/-- a call made by the driver's schedule -/
inductive Op
  | next                  -- `next(reader)`
  | unget                 -- `reader.pass_back(<the item returned last>)`
  | push (line : Str)     -- `reader.pass_back(line)`
  | docstring             -- `read_docstring(reader, docmark)`

/-- what a call gave: an item / the doc lines of `read_docstring` / StopIteration / an exception
    (the trace ends with the last two) -/
inductive Ev
  | item (x : Str)
  | docs (ds : List Str)
  | stop
  | err (e : IErr)

def runOps (c : Cfg) (resolve : Str → Res) (m : Marks) (order : List Slot) (front : Bool) (fuel : Nat) :
    List Op → St → Option Str → List Ev
  | [], _, _ => []
  | .next :: ops, st, _ =>
    match next c resolve m order st with
    | .error e => [.err e]
    | .ok none => [.stop]
    | .ok (some (x, st')) => .item x :: runOps c resolve m order front fuel ops st' (some x)
  | .unget :: ops, st, last =>
    match last with
    | some x => runOps c resolve m order front fuel ops (passBack front st x) last
    | none => runOps c resolve m order front fuel ops st last
  | .push x :: ops, st, last => runOps c resolve m order front fuel ops (passBack front st x) last
  | .docstring :: ops, st, _ =>
    match collectDocs c resolve m order fuel st with
    | .error e => [.err e]
    | .ok none => [.stop]
    | .ok (some (ds, x, st')) => .docs ds :: runOps c resolve m order front fuel ops (passBack front st' x) (some x)

end Ford.PassBack
