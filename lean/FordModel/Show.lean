/-
  C18 - source side of the model: how `ford/sourceform.py` cuts character literals out of a
  statement, parses the masked statement, puts the literals back and assembles the display
  strings of a variable.  Mirrors the code *as it is*.

  * `litEnd`, `searchQuote`      : `QUOTES_RE.search` (`"([^"]|"")*"|'([^']|'')*'`) with the
                                   regex engine's greedy/backtracking choice made explicit
  * `cutLits`                    : the loop at the top of `FortranContainer.__init__`
                                   (`self.strings`, masks `"0"`, `"1"` …)
  * `nbsp`, `doubleBs`, `tmplExpand`, `commaSpace`, `removeSpaces`
  * `reinsert`                   : the re-insertion loops (`line_to_variables` with NBSP and
                                   backslash doubling; `_parse_bind_C` / ATTRIB branch without)
  * `splitNameDim`               : `FortranVariable.__init__` (name / dimension)
  * `kindOfArgs`                 : the last lines of `parse_type` (KIND_RE)
  * `fullType`, `fullDeclaration`: the properties of the same names
  * `declVars`                   : `line_to_variables` from the `::` on
-/
import FordModel.Basic.Chars
import FordModel.Basic.Split
namespace Ford.Show

/-! ## QUOTES_RE -/

/-- After an opening quote `q`: number of characters up to and including the closing quote
    chosen by the regex engine for `([^q]|qq)*q` (greedy, backtracking): a doubled quote is
    consumed as a pair when the rest can still be closed, otherwise its first character
    closes the literal. -/
def litEnd (q : Char) : Str → Option Nat
  | [] => none
  | [c] => if c == q then some 1 else none
  | c :: d :: r =>
    if c == q then
      if d == q then
        match litEnd q r with
        | some n => some (n + 2)
        | none => some 1
      else some 1
    else
      match litEnd q (d :: r) with
      | some n => some (n + 1)
      | none => none

/-- `QUOTES_RE.search(s)`: (start, length) of the leftmost match -/
def searchQuote : Str → Option (Nat × Nat)
  | [] => none
  | c :: cs =>
    if isQuote c then
      match litEnd c cs with
      | some n => some (0, n + 1)
      | none =>
        match searchQuote cs with
        | some (i, n) => some (i + 1, n)
        | none => none
    else
      match searchQuote cs with
      | some (i, n) => some (i + 1, n)
      | none => none

/-! ## cutting literals out -/

def natStr (n : Nat) : Str := (toString n).toList

/-- the placeholder FORD writes for the `k`-th literal of a statement -/
def maskOf (k : Nat) : Str := '"' :: natStr k ++ ['"']

/-- a statement as text outside literals and the literals cut out of it -/
inductive Seg where
  | txt (c : Char)
  | lit (s : Str)
  deriving DecidableEq, Repr

inductive CutSt where
  | scan                          -- outside a literal
  | lit (skip : Nat) (cur : Str)  -- inside a literal: characters still to take, collected so far (reversed)
  | verb (n : Nat)                -- characters skipped unmasked (see `verbExtra`)
  deriving DecidableEq, Repr

/-- After the `k`-th literal has been replaced by its placeholder the code advances
    `search_from` to the end of the first `QUOTES_RE` match of the *new* line; when the
    placeholder `"k"` is directly followed by another `"` that match runs on (`""` reads as a
    doubled quote) and the characters it covers are never looked at again. -/
def verbExtra (k : Nat) (rest : Str) : Nat :=
  match litEnd '"' (natStr k ++ '"' :: rest) with
  | some n => n - ((natStr k).length + 1)
  | none => 0

/-- One left-to-right pass over the statement; `k` = number of literals cut out so far. -/
def cutGo : Str → Nat → CutSt → List Seg
  | [], _, .lit _ cur => if cur.isEmpty then [] else [.lit cur.reverse]
  | [], _, _ => []
  | c :: cs, k, .lit skip cur =>
    if skip ≤ 1 then
      .lit (c :: cur).reverse :: cutGo cs (k + 1) (if verbExtra k cs == 0 then .scan else .verb (verbExtra k cs))
    else cutGo cs k (.lit (skip - 1) (c :: cur))
  | c :: cs, k, .verb n => .txt c :: cutGo cs k (if n ≤ 1 then .scan else .verb (n - 1))
  | c :: cs, k, .scan =>
    if isQuote c then
      match litEnd c cs with
      | some n => cutGo cs k (.lit n [c])
      | none => .txt c :: cutGo cs k .scan
    else .txt c :: cutGo cs k .scan

def cutLits (line : Str) : List Seg := cutGo line 0 .scan

def segOriginal : List Seg → Str
  | [] => []
  | .txt c :: r => c :: segOriginal r
  | .lit s :: r => s ++ segOriginal r

def segStrings : List Seg → List Str
  | [] => []
  | .txt _ :: r => segStrings r
  | .lit s :: r => s :: segStrings r

def segMasked : List Seg → Nat → Str
  | [], _ => []
  | .txt c :: r, k => c :: segMasked r k
  | .lit _ :: r, k => maskOf k ++ segMasked r (k + 1)

/-! ## the project option `lower` -/

/-- lower-case the text outside the literals; literal contents untouched
    (what the documented option `lower` promises: "convert all non-string, non-comment source
    code to lower case") -/
def lowerSegs : List Seg → List Seg
  | [] => []
  | .txt c :: r => .txt (lowerChar c) :: lowerSegs r
  | .lit s :: r => .lit s :: lowerSegs r

/-- lower-case everything, literal contents included -/
def lowerAllSegs : List Seg → List Seg
  | [] => []
  | .txt c :: r => .txt (lowerChar c) :: lowerAllSegs r
  | .lit s :: r => .lit (lower s) :: lowerAllSegs r

/-- what the head of the loop body of `FortranContainer.__init__` makes of one statement:
    the line the parser looks at and `self.strings` -/
structure Prep where
  masked : Str
  strings : List Str
  deriving DecidableEq, Repr

/-- The literals are cut out *first*; with the option `lower` the *masked* line is then
    lower-cased (`line = line.lower()` after the cut-out loop), `self.strings` is not. -/
def prepLine (lowerOpt : Bool) (line : Str) : Prep :=
  let segs := cutLits line
  ⟨if lowerOpt then lower (segMasked segs 0) else segMasked segs 0, segStrings segs⟩

/-- the other order (lower-case the statement, then cut): what the parser sees is the same,
    but `self.strings` holds lower-cased literals.  Not what the code does; kept to state that
    the order matters (`lower_before_cut_witness`). -/
def prepLineLowerFirst (line : Str) : Prep :=
  let segs := cutLits (lower line)
  ⟨segMasked segs 0, segStrings segs⟩

/-! ## small string transformations -/

def nbspChar : Char := Char.ofNat 0xA0

/-- `NBSP_RE.sub("\xa0", s)` with NBSP_RE = ` (?= )|(?<= ) `: every blank that has a blank
    neighbour (in the original string) becomes a non-breaking space. -/
def nbspGo : Bool → Str → Str
  | _, [] => []
  | prev, [c] => if c == ' ' then [if prev then nbspChar else ' '] else [c]
  | prev, c :: d :: r =>
    if c == ' ' then (if prev || d == ' ' then nbspChar else ' ') :: nbspGo true (d :: r)
    else c :: nbspGo false (d :: r)

def nbsp (s : Str) : Str := nbspGo false s

/-- what the reader's eye makes of it: NBSP is a blank -/
def unNbsp (s : Str) : Str := s.map fun c => if c == nbspChar then ' ' else c

/-- `string.replace("\\", "\\\\")` -/
def doubleBs : Str → Str
  | [] => []
  | c :: cs => if c == '\\' then '\\' :: '\\' :: doubleBs cs else c :: doubleBs cs

inductive RErr where
  | badEscape      -- re.error: bad escape
  | unsupported    -- group references / octal escapes: not modelled
  | badNumber      -- int() of the placeholder failed (ValueError)
  | index          -- strings[num] out of range (IndexError)
  | noMatch        -- no literal found after re-insertion
  | emptyInit      -- `x =` with nothing after the `=` (IndexError)
  deriving DecidableEq, Repr

/-- How `re.sub` reads its replacement *template*: `\\` is a backslash, `\n` … are control
    characters, `\` + another ASCII letter is an error, `\` + digit / `\g` are group
    references (not modelled), `\` + anything else stays as it is. -/
def tmplExpand : Str → Except RErr Str
  | [] => .ok []
  | [c] => if c == '\\' then .error .badEscape else .ok [c]
  | c :: d :: r =>
    if c == '\\' then
      if d == '\\' then (tmplExpand r).map ('\\' :: ·)
      else if d == 'n' then (tmplExpand r).map ('\n' :: ·)
      else if d == 't' then (tmplExpand r).map ('\t' :: ·)
      else if d == 'r' then (tmplExpand r).map ('\r' :: ·)
      else if d == 'a' then (tmplExpand r).map (Char.ofNat 7 :: ·)
      else if d == 'b' then (tmplExpand r).map (Char.ofNat 8 :: ·)
      else if d == 'f' then (tmplExpand r).map (Char.ofNat 12 :: ·)
      else if d == 'v' then (tmplExpand r).map (Char.ofNat 11 :: ·)
      else if d == 'g' || isDigit d then .error .unsupported
      else if isAlpha d then .error .badEscape
      else (tmplExpand r).map (fun t => '\\' :: d :: t)
    else (tmplExpand (d :: r)).map (c :: ·)

/-- `COMMA_RE.sub(", ", s)` with COMMA_RE = `,(?!\s)` -/
def commaSpace : Str → Str
  | [] => []
  | [c] => if c == ',' then [',', ' '] else [c]
  | c :: d :: r =>
    if c == ',' && !isSpace d then ',' :: ' ' :: commaSpace (d :: r)
    else c :: commaSpace (d :: r)

/-- `re.sub(" ", "", s)` -/
def removeSpaces (s : Str) : Str := s.filter (· != ' ')

def parseNat? (s : Str) : Option Nat :=
  if s.isEmpty || !s.all isDigit then none
  else some (s.foldl (fun n c => 10 * n + (c.toNat - '0'.toNat)) 0)

/-! ## putting literals back -/

/-- The re-insertion loop.  `nb` : NBSP substitution, `dbl` : backslash doubling
    (`line_to_variables` does both; `_parse_bind_C` and the ATTRIB branch neither).
    `s` is the part of the string from `search_from` on. -/
def reinsertGo (nb dbl : Bool) (strings : List Str) : Nat → Str → Except RErr Str
  | 0, s => .ok s
  | fuel + 1, s =>
    match searchQuote s with
    | none => .ok s
    | some (i, n) =>
      match parseNat? ((s.drop (i + 1)).take (n - 2)) with
      | none => .error .badNumber
      | some num =>
        match strings[num]? with
        | none => .error .index
        | some lit =>
          let t := if nb then nbsp lit else lit
          let t := if dbl then doubleBs t else t
          match tmplExpand t with
          | .error e => .error e
          | .ok e =>
            let s' := s.take i ++ e ++ s.drop (i + n)
            match searchQuote s' with
            | none => .error .noMatch
            | some (j, m) =>
              match reinsertGo nb dbl strings fuel (s'.drop (j + m)) with
              | .ok t => .ok (s'.take (j + m) ++ t)
              | .error e => .error e

def reinsert (nb dbl : Bool) (strings : List Str) (s : Str) : Except RErr Str :=
  reinsertGo nb dbl strings (s.length + 1) s

/-! ## display strings -/

def findIdx? (p : Char) : Str → Nat → Option Nat
  | [], _ => none
  | c :: cs, i => if c == p then some i else findIdx? p cs (i + 1)

def minOpt : Option Nat → Option Nat → Option Nat
  | none, b => b
  | a, none => a
  | some a, some b => some (min a b)

def posIdx (p : Char) (s : Str) : Option Nat :=
  match findIdx? p s 0 with
  | some 0 => none
  | r => r

/-- `FortranVariable.__init__`: the name as written (`x(2,3)`, `s*8`, `c[*]`) is split at the
    first `(`, `[` or `*` (each only if not at index 0). -/
def splitNameDim (name : Str) : Str × Str :=
  match minOpt (posIdx '(' name) (minOpt (posIdx '[' name) (posIdx '*' name)) with
  | some i => (name.take i, name.drop i)
  | none => (name, [])

/-- the other reading ("the first *kind* of delimiter that occurs": `(` before `[` before `*`).  Not what the
    code does; kept to state that position, not kind, decides (`split_by_kind_witness`): the two agree unless
    a `*` precedes a `(` - `character label*(*)`, `line*(80)`. -/
def splitNameDimByKind (name : Str) : Str × Str :=
  match posIdx '(' name with
  | some i => (name.take i, name.drop i)
  | none =>
    match posIdx '[' name with
    | some i => (name.take i, name.drop i)
    | none =>
      match posIdx '*' name with
      | some i => (name.take i, name.drop i)
      | none => (name, [])

def isNameDelim (c : Char) : Bool := c == '(' || c == '[' || c == '*'

def startsWithCI (s p : Str) : Bool := startsWith (lower s) p

/-- end of `parse_type` for numeric types: `KIND_RE.match(args)` = `kind\s*=\s*([^,\s]+)`;
    `args` has no white space.  The kind expression stops at the first comma. -/
def kindOfArgs (args : Str) : Str :=
  if startsWithCI args "kind=".toList then
    let e := (args.drop 5).takeWhile (fun c => c != ',' && !isSpace c)
    if e.isEmpty then args else e
  else args

/-- `FortranVariable.full_type` (proto already a string here) -/
def fullType (vartype kind strlen proto0 proto1 : Str) : Str :=
  let parts := (if kind.isEmpty then [] else ["kind=".toList ++ kind]) ++
               (if strlen.isEmpty then [] else ["len=".toList ++ strlen])
  if !parts.isEmpty then vartype ++ '(' :: joinStr ", ".toList parts ++ [')']
  else if !proto0.isEmpty then
    vartype ++ '(' :: (proto0 ++ (if proto1.isEmpty then [] else '(' :: proto1 ++ [')'])) ++ [')']
  else vartype

/-- `FortranVariable.full_declaration` -/
def fullDeclaration (ftype : Str) (attribs : List Str) (dimension : Str) (parameter : Bool) : Str :=
  let parts := attribs ++ (if dimension.isEmpty then [] else [dimension]) ++
               (if parameter then ["parameter".toList] else [])
  ftype ++ (parts.map fun p => ", ".toList ++ p).flatten

/-! ## line_to_variables from the `::` on -/

structure VarShow where
  name : Str
  dimension : Str
  points : Bool
  initial : Option Str
  deriving DecidableEq, Repr

/-- `eqJoin`: how the initial value is taken from `paren_split("=", dec)` -
    `false`: `split[1]` (as the code was: the value is cut at a second top-level `=`, and an empty
    `split[1]` raises IndexError); `true`: `"=".join(split[1:])` (repaired by the `fix:` commit for
    C01-initial-relational / C18-initial-cut-at-equals).  Decided by the harness from the code. -/
def initParts (eqJoin : Bool) (v : Str) (rest : List Str) : Except RErr Str :=
  if eqJoin then .ok (joinSep '=' (v :: rest))
  else if v.isEmpty then .error .emptyInit else .ok v

def decOne (strings : List Str) (dec0 : Str) (eqJoin : Bool := false) : Except RErr VarShow :=
  let dec := removeSpaces dec0
  match parenSplit '=' dec with
  | nm :: v :: more =>
    match initParts eqJoin v more with
    | .error e => .error e
    | .ok value =>
      let points := value.head? == some '>'
      let ini := if points then value.drop 1 else value
      let nd := splitNameDim nm
      if ini.isEmpty then .ok ⟨nd.1, nd.2, points, some []⟩
      else
        match reinsert true true strings (commaSpace ini) with
        | .ok t => .ok ⟨nd.1, nd.2, points, some t⟩
        | .error e => .error e
  | _ =>
    let nd := splitNameDim (strip dec)
    .ok ⟨nd.1, nd.2, false, none⟩

def decAll (strings : List Str) (ds : List Str) (eqJoin : Bool := false) : Except RErr (List VarShow) :=
  match ds with
  | [] => .ok []
  | d :: ds =>
    match decOne strings d eqJoin with
    | .error e => .error e
    | .ok v =>
      match decAll strings ds eqJoin with
      | .error e => .error e
      | .ok vs => .ok (v :: vs)

/-- everything after the first `::` of the masked line -/
def afterColons : Str → Option Str
  | [] => none
  | [_] => none
  | c :: d :: r => if c == ':' && d == ':' then some r else afterColons (d :: r)

/-- the declared entities of one (unmasked) declaration line, as FORD will show them, for a
    project with the option `lower` off / on -/
def declVarsOpt (lowerOpt : Bool) (line : Str) (eqJoin : Bool := false) : Except RErr (List VarShow) :=
  let p := prepLine lowerOpt line
  match afterColons p.masked with
  | none => .ok []
  | some d => decAll p.strings (parenSplit ',' (strip d)) eqJoin

/-- ... with the default settings -/
def declVars (line : Str) : Except RErr (List VarShow) := declVarsOpt false line

end Ford.Show
