/-
  C04 - separate module procedures: the *implementation* of a procedure whose interface body
  (`module subroutine f` / `module function f`) stands in an ancestor module.

  A submodule can hold such an implementation in two forms:
    * long  - `module subroutine f(...) ... end subroutine`: an ordinary `FortranSubroutine` / `FortranFunction`
      of the submodule (the `.proc` statement of Access.lean; `correlate` later files it under
      `modsubroutines` / `modfunctions`);
    * short - `module procedure f ... end procedure`: a `FortranModuleProcedureImplementation`, constructed with
      the unit's `self.permission` at that point and kept in `modprocedures`, a list `process_attribs` never walks.
  `FortranCodeUnit.correlate` (`assign_implementation_attributes`) copies the metadata the short form lacks
  (attributes, arguments, result, kind of procedure) from the interface body.  Whether it also hands the
  *accessibility* of the interface to the implementation is measured on the code under test
  (`implShortTakesIface`, `implLongTakesIface` in Generated/C04.lean); the model follows the measured table, the
  theorems of Props/C04.lean need it to say "no".
-/
import FordModel.AccessNames
namespace Ford.Access

/-- a statement of a unit as the harness sends it: an ordinary statement (as written), or the body of a separate
    module procedure in the short form -/
inductive XStmt
  | stmt (r : RStmt)
  | impl (name : Str)
  deriving DecidableEq, Repr

/-- the ordinary statements of the unit -/
def xstmts : List XStmt → List RStmt
  | [] => []
  | .stmt r :: t => r :: xstmts t
  | .impl _ :: t => xstmts t

/-- `self.permission` of the unit after one more statement (only a bare access statement moves it) -/
def permAfter (p : Perm) : Stmt → Perm
  | .bare q => if q ∈ bareWords then (if bareSetsSelf then q else p) else p
  | _ => p

/-- the short-form implementations with the permission they are constructed with:
    `FortranModuleProcedureImplementation(source, match, self, self.permission)` -/
def implsFrom (g : Bool) (perm : Perm) : List XStmt → List Kid
  | [] => []
  | .impl n :: t => ⟨n, perm⟩ :: implsFrom g perm t
  | .stmt r :: t => implsFrom g (permAfter perm (keyed g r)) t

/-- `assign_implementation_attributes`: with `on` the implementation named `n` takes the permission of the interface
    body of that name among the host's (`host`: name and permission of the interface bodies the ancestor module /
    parent submodule makes visible), else it keeps its own -/
def takeHost (on : Bool) (host : List (Str × Perm)) (n : Str) (p : Perm) : Perm :=
  if on then (match lookupLast n host with | some q => q | none => p) else p

def hostEnt (host : List (Str × Perm)) (e : Ent) : Ent :=
  if e.cat = .func ∨ e.cat = .sub then { e with perm := takeHost implLongTakesIface host e.name e.perm } else e

structure XOut where
  /-- the unit's entities (long-form implementations among its procedures), `public_list`, export tables -/
  out : Out
  /-- the short-form implementations (`modprocedures`) with the permission they have after `correlate` -/
  impls : List Kid
  deriving Repr

/-- a module / submodule with the implementations of separate module procedures, after `correlate` -/
def runX (v : Variant) (g sub : Bool) (host : List (Str × Perm)) (xs : List XStmt) : XOut :=
  let o := runRaw v g sub (xstmts xs)
  ⟨{ o with ents := o.ents.map (hostEnt host) },
   (implsFrom g (init sub).perm xs).map (fun k => ⟨k.name, takeHost implShortTakesIface host k.name k.perm⟩)⟩

/-! ### the body in the module of its own interface (round 6)

  Fortran allows the body of a separate module procedure "in the module or a descendant submodule".  In the module
  that declares the interface, interface body and body are **one entity**; FORD keeps two objects for it:
    * long form: the wrapper in `interfaces` (`Stmt.iface .plain`) and a procedure of the same name in
      `subroutines` / `functions` (`Stmt.proc`).  Both lists are walked by the first loop of `process_attribs`, so an
      access statement naming the entity reaches both exactly when an `attr_dict` entry outlives the first entity of
      its name (`DelOrder.afterLoop`, the code as it is since the constructor repair; `perEntity`: only the
      procedure, which comes first).  That is `runUnit`; nothing new is needed in the model.
    * short form: the wrapper and a `FortranModuleProcedureImplementation` in `modprocedures` - a list
      `process_attribs` never walks.  The body keeps the default it was constructed with.  `implAttr` is the
      candidate repair (fixes/C04-own-module-short-body.diff): a loop over `modprocedures` at the start of
      `process_attribs` that applies the access words of the whole `attr_dict` (nothing is deleted there).
-/

/-- `attr_dict` of the unit when `process_attribs` starts: every attribute statement of the unit, in order -/
def attrsOf (g sub : Bool) (xs : List XStmt) : List (Str × Attr) :=
  (((xstmts xs).map (keyed g)).foldl step (init sub)).attrs

/-- the loop over `modprocedures` of the candidate repair -/
def implUpd (on : Bool) (a : List (Str × Attr)) (k : Kid) : Kid :=
  if on then ⟨k.name, applyAttrs applyWords k.name k.perm a⟩ else k

/-- a module / submodule with the implementations of separate module procedures, after `correlate`; `implAttr`:
    do access statements reach the short-form bodies (decided by the harness by probing the code under test) -/
def runXI (v : Variant) (g sub implAttr : Bool) (host : List (Str × Perm)) (xs : List XStmt) : XOut :=
  ⟨(runX v g sub host xs).out,
   ((implsFrom g (init sub).perm xs).map (implUpd implAttr (attrsOf g sub xs))).map
     (fun k => ⟨k.name, takeHost implShortTakesIface host k.name k.perm⟩)⟩

end Ford.Access
