/-
  C18 - the project option `sort` (`ford/sourceform.py: FortranBase.sort_components`).  Mirrors the code *as it is*.

  After an entity has been correlated, `sort_components` sorts - in place, with Python's stable `list.sort(key=...)` -
  those of its collections whose attribute name stands in an inline list (`"variables", "modules", ...`; regenerated
  into `Generated/C18Cfg.lean: sortedCollections`), with a key function chosen by `settings.sort.lower()`:

    alpha             item.name                                   (a `str`: compared by code point, case-sensitive)
    permission        rank of getattr(item, "permission", "default")   (default 0, public 1, protected 2, private 3)
    permission-alpha  f"{rank}-{item.name}"
    type              fortran_type_name(item)
    type-alpha        f"{fortran_type_name(item)}-{item.name}"
    src               None: the function returns before it touches anything

  The property depends on it because the procedure heading (`proc_line` in macros.html) is assembled from one of the
  entity's collections (`proc.args | join(", ")`; the attribute name is regenerated as `headingArgsCollection`):
  the calling sequence shown in a heading is the statement's only while that collection is *not* among the sorted ones.
-/
import FordModel.Basic.Chars
namespace Ford.SortComp

/-- Python's `<` on two `str`: lexicographic by code point -/
def strLt : Str → Str → Bool
  | [], [] => false
  | [], _ :: _ => true
  | _ :: _, [] => false
  | a :: as, b :: bs =>
    if a.toNat < b.toNat then true else if b.toNat < a.toNat then false else strLt as bs

/-- a sort key: `permission` yields an `int`, every other key function a `str` -/
inductive Key where
  | int (n : Nat)
  | str (s : Str)
deriving Repr, DecidableEq

/-- `<` on keys (one key function per call, so the two kinds never meet) -/
def Key.lt : Key → Key → Bool
  | .int a, .int b => a < b
  | .str a, .str b => strLt a b
  | _, _ => false

/-- the fields of a variable that `fortran_type_name` reads (`""` = a falsy value: `None` or the empty string) -/
structure Var where
  vartype : Str
  kind : Str
  strlen : Str
  proto0 : Str
deriving Repr, DecidableEq

/-- what `sort_components` reads of an item of a collection -/
structure Item where
  name : Str
  /-- `getattr(item, "permission", "default")` -/
  permission : Option Str
  obj : Str
  /-- the variable fields (`obj == "variable"`) -/
  var : Option Var
  /-- `item.proctype` when the item has one -/
  proctype : Option Str
  /-- `item.retvar` when the item has one -/
  retvar : Option Var
deriving Repr, DecidableEq

/-- `sorting[permission_type]` (any other value raises KeyError in the code: the parser only produces these four) -/
def permRank (it : Item) : Nat :=
  let p := it.permission.getD "default".toList
  if p == "default".toList then 0 else if p == "public".toList then 1
  else if p == "protected".toList then 2 else if p == "private".toList then 3 else 4

def showNat (n : Nat) : Str := (toString n).toList

/-- the `item.obj == "variable"` branch of `fortran_type_name` -/
def varTypeName (v : Var) : Str :=
  let r := if v.vartype == "class".toList then "type".toList else v.vartype
  let r := if v.kind.isEmpty then r else r ++ '-' :: v.kind
  let r := if v.strlen.isEmpty then r else r ++ '-' :: v.strlen
  if v.proto0.isEmpty then r else r ++ '-' :: v.proto0

/-- `fortran_type_name(item)` -/
def typeName (it : Item) : Str :=
  if it.obj == "variable".toList then
    match it.var with
    | some v => varTypeName v
    | none => it.obj
  else if it.obj == "proc".toList then
    match it.proctype with
    | some pt =>
      lower pt ++
        (if pt == "Function".toList then
          match it.retvar with
          | some v => '-' :: varTypeName v
          | none => []
        else [])
    | none => it.obj
  else it.obj

/-- the keys of `SORT_KEY_FUNCTIONS` -/
inductive Opt where
  | src | alpha | permission | permissionAlpha | type | typeAlpha
deriving Repr, DecidableEq

/-- `SORT_KEY_FUNCTIONS[self.settings.sort.lower()]` (`none`: KeyError) -/
def optOf (s : Str) : Option Opt :=
  let l := lower s
  if l == "src".toList then some .src else if l == "alpha".toList then some .alpha
  else if l == "permission".toList then some .permission
  else if l == "permission-alpha".toList then some .permissionAlpha
  else if l == "type".toList then some .type else if l == "type-alpha".toList then some .typeAlpha
  else none

/-- the key function of an option (`none` for `src`: nothing is sorted) -/
def keyFn : Opt → Option (Item → Key)
  | .src => none
  | .alpha => some fun it => .str it.name
  | .permission => some fun it => .int (permRank it)
  | .permissionAlpha => some fun it => .str (showNat (permRank it) ++ '-' :: it.name)
  | .type => some fun it => .str (typeName it)
  | .typeAlpha => some fun it => .str (typeName it ++ '-' :: it.name)

/-- insertion in front of the first element whose key is not smaller: an element that stood in front of the others
    stays in front of those with an equal key (stability of `list.sort`) -/
def insertK {α : Type} (k : α → Key) (x : α) : List α → List α
  | [] => [x]
  | y :: ys => if Key.lt (k y) (k x) then y :: insertK k x ys else x :: y :: ys

/-- `l.sort(key=k)`: stable, ascending -/
def sortK {α : Type} (k : α → Key) : List α → List α
  | [] => []
  | x :: xs => insertK k x (sortK k xs)

/-- an entity: its collections by attribute name (`variables`, `args`, `subroutines`, ...) in any order -/
abbrev Entity := List (Str × List Item)

/-- `getattr(self, name, [])` -/
def coll (n : Str) : Entity → List Item
  | [] => []
  | (m, l) :: rest => if m == n then l else coll n rest

/-- `sort_components` with the list of collection names `tbl` -/
def sortComponents (tbl : List Str) (o : Opt) (e : Entity) : Entity :=
  match keyFn o with
  | none => e
  | some k => e.map fun p => if tbl.contains p.1 then (p.1, sortK k p.2) else p

/-- the argument list of a heading: `proc.<attr> | join(", ")` over the names of the collection `attr` -/
def headingArgs (attr : Str) (e : Entity) : List Str := (coll attr e).map (·.name)

end Ford.SortComp
