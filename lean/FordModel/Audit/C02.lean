import FordModel.Props.C02
#print axioms Ford.C02.quoteSplit_join
