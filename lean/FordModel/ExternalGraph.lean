/-
  Model of the link a graph node gets (ford/graphs.py: `BaseNode.__init__`) - the place where the entities of an
  external project enter B's graphs (used modules, called procedures, extended types, types of components):

    * an object of one of the External* classes listed there is replaced by `str(obj)`; for such an object
      `FortranBase.__str__` gives `<a href='{external_url}'>{name}</a>` (it has no `visible` attribute; `full_url`
      is `external_url`), or the bare name when the URL is falsy;
    * a string is matched against HYPERLINK_RE, which takes the URL and the name out again;
    * `if self.url and shown:` the node gets a link - the URL as it is or `graph_data.parent_dir + url`, decided by a
      test that the translator reads from the source (`Gen.nodeVerbatim`).

  `parseLink` is HYPERLINK_RE on the strings `__str__` produces for URLs without a quote character and names
  without `<`, `>` or quotes (`plainLink`; the harness compares on this class).
-/
import FordModel.Basic.Chars
import FordModel.TypeSpec
import FordModel.ExternalNodeCond
import FordModel.Generated.C16
namespace Ford.Ext
open Ford

def linkOpen : Str := chars! "<a href='"
def linkClose : Str := chars! "</a>"
def unnamed : Str := chars! "<em>unnamed</em>"

/-- `FortranBase.__str__` of an External* object (`url = none`: a falsy `external_url`) -/
def strOfExternal (name : Str) (url : Option Str) : Str :=
  match url with
  | none => name
  | some u =>
    if u.isEmpty then name
    else linkOpen ++ u ++ ['\'', '>'] ++ (if name.isEmpty then unnamed else name) ++ linkClose

/-- `s` without the prefix `p`, when it starts with it -/
def dropPrefix : Str → Str → Option Str
  | s, [] => some s
  | [], _ :: _ => none
  | c :: cs, p :: ps => if c == p then dropPrefix cs ps else none

/-- `s` without the suffix `</a>` -/
def dropLinkClose (s : Str) : Option Str :=
  if (s.drop (s.length - 4)) == linkClose then some (s.take (s.length - 4)) else none

/-- HYPERLINK_RE on `<a href='U'>N</a>`: (URL, name) -/
def parseLink (s : Str) : Option (Str × Str) :=
  match dropPrefix s linkOpen with
  | none => none
  | some r =>
    let u := r.takeWhile (· != '\'')
    match r.dropWhile (· != '\'') with
    | '\'' :: '>' :: r3 =>
      if u.isEmpty then none
      else match dropLinkClose r3 with
        | some n => some (u, n)
        | none => none
    | _ => none

/-- the class of (URL, name) on which `parseLink` is HYPERLINK_RE -/
def plainLink (url name : Str) : Bool :=
  !url.isEmpty && url.all (fun c => c != '\'' && c != '"' && c != '\n') &&
  !name.isEmpty && name.all (fun c => c != '\'' && c != '"' && c != '\n' && c != '<' && c != '>')

/-- characters of a URL scheme (`urllib.parse.scheme_chars`) -/
def isSchemeChar (c : Char) : Bool := isAlpha c || isDigit c || c == '+' || c == '-' || c == '.'

/-- `urlsplit(url).scheme != ""`: a first `:` at a position > 0, before it only scheme characters, the first
    one a letter -/
def hasScheme (u : Str) : Bool :=
  let pre := u.takeWhile (· != ':')
  pre.length < u.length && !pre.isEmpty && (match pre with | c :: _ => isAlpha c | [] => false) && pre.all isSchemeChar

/-- what the test can look at -/
structure NodeFacts where
  fromstr : Bool
  hasExt : Bool
  url : Str

def evalAtom (f : NodeFacts) : NodeAtom → Bool
  | .fromstr => f.fromstr
  | .hasExternalUrl => f.hasExt
  | .isStr => f.fromstr
  | .urlHasScheme => hasScheme f.url
  | .urlStartsWith p => startsWith f.url p

def evalCond (f : NodeFacts) : NodeCond → Bool
  | .atom a => evalAtom f a
  | .const b => b
  | .not c => !evalCond f c
  | .and a b => evalCond f a && evalCond f b
  | .or a b => evalCond f a || evalCond f b

/-- the object a node is made for, as `BaseNode.__init__` sees it -/
structure NodeObj where
  /-- it has the attribute `external_url` (an object of an External* class) -/
  external : Bool
  /-- the name of its class -/
  cls : Str
  name : Str
  /-- `get_url()` - for an external object its `external_url`; `none`: `None` / falsy -/
  url : Option Str
  /-- `getattr(obj, "visible", True)` (and of the parent, for a binding); External* objects have no such attribute -/
  visible : Bool

/-- `attribs["URL"]` of the node (`none`: the node is not a link), with the test `cond` and the classes
    `stringified` that are replaced by `str(obj)` first -/
def nodeUrlWith (cond : NodeCond) (stringified : List Str) (parentDir : Str) (o : NodeObj) : Option Str :=
  let viaStr := o.external && stringified.contains o.cls
  let url : Option Str :=
    if viaStr then (parseLink (strOfExternal o.name o.url)).map (·.1) else o.url
  let shown := if viaStr then true else o.visible
  match url with
  | none => none
  | some u =>
    if u.isEmpty || !shown then none
    else if evalCond { fromstr := viaStr, hasExt := !viaStr && o.external, url := u } cond then some u
    else some (parentDir ++ u)

/-- the node link as the code under test computes it -/
def nodeUrl (parentDir : Str) (o : NodeObj) : Option Str :=
  nodeUrlWith Gen.nodeVerbatim Gen.nodeStringified parentDir o

end Ford.Ext
