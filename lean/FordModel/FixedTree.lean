/-
  C14, the two places *around* the converter that decide how a fixed-form file
  is read:

  * `FortranReader.include` (ford/reader.py): a file named on an `include`
    line is read by a nested `FortranReader` that is given the same source
    form and the same column-72 setting as the including file
    (`self.fixed`, `self.length_limit`); its items take the place of the
    `include` statement.  The queue mechanics of `include()` are the model of
    C02 (`FordModel/Include.lean`, configuration regenerated from the source);
    what is added here is the converter in front of *every* reader of the tree
    (`readFixedTree`).
  * `Project.__init__` / `Project._fortran_file` (ford/fortran_project.py):
    the source form of a file is chosen from its extension (`sourceForm`).

  Not modelled: the search along `inc_dirs` (flat file system, see Include.lean).
-/
import FordModel.Fixed
import FordModel.Reader
import FordModel.Include
namespace Ford.Fixed
open Ford

/-- what a reader constructed with `fixed=True, length_limit=lim` sees of a file -/
def fixedView (v : Variant) (lim : Bool) (lines : List Str) : List Str :=
  (convertToFree v lim lines).map dropNL

/-- what a free-form reader sees of a file (the lines without their terminators) -/
def freeView (lines : List Str) : List Str := lines.map dropNL

/-- `list(FortranReader(main, *marks, fixed=True, length_limit=lim))` with include expansion over
    the files `fs`: the main file *and every included file, at every depth,* is read through
    `convertToFree(..., lim)` - the nested reader is constructed with `self.fixed` and
    `self.length_limit` of the including one. -/
def readFixedTree (c : Include.Cfg) (v : Variant) (lim : Bool) (m : Marks) (fs : Include.FS)
    (depth : Nat) (main : List Str) : Except Include.IErr (List Str) :=
  Include.readFS c m (fs.map fun f => (f.1, fixedView v lim f.2)) depth (fixedView v lim main)

/-- the same for a tree of free-form files -/
def readFreeTree (c : Include.Cfg) (m : Marks) (fs : Include.FS)
    (depth : Nat) (main : List Str) : Except Include.IErr (List Str) :=
  Include.readFS c m (fs.map fun f => (f.1, freeView f.2)) depth (freeView main)

/-- `Project.__init__` + `Project._fortran_file`: `none` = the file is not parsed as Fortran,
    `some true` = parsed in fixed form, `some false` = parsed in free form.
    (`extension in self.extensions + self.fixed_extensions`, then
    `fixed = extension in self.fixed_extensions`.) -/
def sourceForm (extensions fixedExtensions : List Str) (ext : Str) : Option Bool :=
  if (extensions ++ fixedExtensions).contains ext then some (fixedExtensions.contains ext) else none

end Ford.Fixed
