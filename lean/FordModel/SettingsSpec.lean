/-
  C15 - specification side: abstract option values and how the user guide says they are
  written in the project-file metadata and in `[extra.ford]` of fpm.toml
  (docs/user_guide/project_file_options.rst).  Written without reference to
  `convert_setting`; the theorems in Props/C15.lean relate the two.
-/
import FordModel.Settings
namespace Ford.Settings

/-- an option value, independent of any file format -/
inductive AVal
  | bool (b : Bool)
  | int (i : Int)
  | text (lines : List Str)            -- a (multi-line) string or path
  | list (xs : List Str)               -- list of strings / paths
  | table (kvs : List (Str × Str))     -- key/value table (alias, external, extra_mods)
  | filetypes (fts : List Eft)         -- extra_filetypes

/-- the value lines of the metadata spelling: `key: line0` / `    line1` ...; `spell` is the
    chosen spelling of a flag or a number -/
def encMd (sep : Char) (spell : Str) : AVal → List Str
  | .bool _ => [spell]
  | .int _ => [spell]
  | .text lines => lines
  | .list xs => xs
  | .table kvs => kvs.map (fun kv => kv.1 ++ sep :: kv.2)
  | .filetypes fts => fts.map (fun ft => ft.ext ++ ' ' :: ft.comment ++
      (match ft.lexer with | some l => ' ' :: l | none => []))

def eftTable (ft : Eft) : List (Str × Str) :=
  [("extension".toList, ft.ext), ("comment".toList, ft.comment)] ++
    (match ft.lexer with | some l => [("lexer".toList, l)] | none => [])

/-- what `tomllib` yields for the TOML spelling (`true`, `4`, `"a\nb"`, `["a", "b"]`,
    `{k = "v"}`, `[{extension = "c", comment = "//"}]`) -/
def encToml : AVal → PyVal
  | .bool b => .atom (.bool b)
  | .int i => .atom (.int i)
  | .text lines => .atom (.str (joinSep '\n' lines))
  | .list xs => .list (xs.map .str)
  | .table kvs => .dict (kvs.map (fun kv => (kv.1, .str kv.2)))
  | .filetypes fts => .list (fts.map (fun ft => .tbl (eftTable ft)))

def noSpace (s : Str) : Bool := !s.isEmpty && s.all (fun c => !isSpace c)

/-- the value is of the option's declared type and can be written in both formats -/
def wellFormed (t : Tag) (sep : Char) (spell : Str) : AVal → Prop
  | .bool b => (t = .bool) ∧ strToBool spell = some b
  | .int i => t = .int ∧ parseInt (strip spell) = some i
  | .text lines => (t = .str ∨ t = .optStr ∨ t = .path ∨ t = .optPath) ∧ lines ≠ []
  | .list xs => (t = .listStr ∨ t = .listPath ∨ t = .plainList) ∧ xs ≠ []
  | .table kvs => t = .dictStr ∧ kvs ≠ [] ∧ (kvs.map (·.1)).Nodup ∧
      ∀ kv ∈ kvs, sep ∉ kv.1 ∧ strip kv.1 = kv.1 ∧ strip kv.2 = kv.2
  | .filetypes fts => t = .dictEft ∧ fts ≠ [] ∧ (fts.map (·.ext)).Nodup ∧
      ∀ ft ∈ fts, noSpace ft.ext = true ∧ noSpace ft.comment = true ∧
        (∀ l, ft.lexer = some l → noSpace l = true)

/-- the settings value both formats must end up with -/
def denote : AVal → PyVal
  | .filetypes fts => .dict (fts.map (fun ft => (ft.ext, .eft ft)))
  | a => encToml a


/-! ### the metadata block as the user guide describes it -/

def indent4 (x : Str) : Str := ' ' :: ' ' :: ' ' :: ' ' :: x

/-- `key: first value` followed by the further values, each indented by four spaces -/
def encLines (key : Str) : List Str → List Str
  | [] => []
  | v :: r => (key ++ ':' :: ' ' :: v) :: r.map indent4

def encBlock : List (Str × List Str) → List Str
  | [] => []
  | (k, vs) :: r => encLines k vs ++ encBlock r

/-- a keyword: letters, digits, `_`, `-`, lower case, not starting with `-` -/
def goodKey (k : Str) : Bool :=
  match k with
  | [] => false
  | c :: _ => c != '-' && c != '.' && k.all (fun c => isKeyChar c && !isSpace c) && strip (lower k) == k

/-- a first value: anything without surrounding blanks (may be empty) -/
def goodVal (v : Str) : Bool := strip v == v
/-- a further value line: not blank, no surrounding blanks -/
def goodCont (v : Str) : Bool := strip v == v && !v.isEmpty

def goodOpt (o : Str × List Str) : Bool :=
  goodKey o.1 && (match o.2 with | [] => false | v :: r => goodVal v && r.all goodCont)

end Ford.Settings
