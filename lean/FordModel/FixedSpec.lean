/-
  Specification side of C14: an abstract fixed-form file (`Item`s), its
  fixed-form rendering in columns, and the *equivalent free-form file*
  (`renderFree`), written compositionally, line by line, without the
  converter's `linestack`.  Used by the theorems in Props/C14.lean.
-/
import FordModel.Fixed
namespace Ford.Fixed
open Ford

/-- One physical line of a fixed-form file.  `body` is the text from column 7
    on (statement field, and beyond column 72 whatever follows), without the
    line terminator. -/
inductive Item
  /-- initial line: label field (columns 1-5), column 6 (blank or `0`), body -/
  | init (lab5 : Str) (c6 : Char) (body : Str)
  /-- continuation line: columns 1-5 blank, column 6 = `c6`, body -/
  | cont (c6 : Char) (body : Str)
  /-- comment line: `c` in column 1 is one of `c C * !`; `rest` is the rest of the line (terminator included) -/
  | comment (c : Char) (rest : Str)
  /-- comment line whose `!` stands in columns 2-5 (whole line, terminator included) -/
  | bang25 (l : Str)
  /-- blank line of `n` blanks (`n ≤ 5` for the code as it is; any `n` once a line of
      blanks only is a comment line whatever its length, `Variant.blankShort`) -/
  | blank (n : Nat)
  /-- comment line whose `!` is the first non-blank character and stands in column 7 or
      later: `6 + k` blanks, `!`, rest of the line (terminator included).  A comment line
      only for the repaired code (`Variant.col7Comment`). -/
  | bang7 (k : Nat) (rest : Str)
  /-- preprocessor line `#...` (rest of the line, terminator included) -/
  | cpp (rest : Str)
  deriving Repr, DecidableEq

def blanks5 : Str := [' ', ' ', ' ', ' ', ' ']

/-- the file as written in columns -/
def fixedLine : Item → Str
  | .init lab5 c6 body => lab5 ++ c6 :: (body ++ ['\n'])
  | .cont c6 body => blanks5 ++ c6 :: (body ++ ['\n'])
  | .comment c rest => c :: rest
  | .bang25 l => l
  | .blank n => List.replicate n ' ' ++ ['\n']
  | .bang7 k rest => List.replicate (6 + k) ' ' ++ '!' :: rest
  | .cpp rest => '#' :: rest

/-- The statement field of an initial line is one for the variant: for the code as it is
    always; once blank-only lines are comment lines the line must not be blank, and once a
    `!` as first non-blank character in column 7+ starts a comment line the statement field
    must not start with one behind blank columns 1-6. -/
def fieldOk (v : Variant) (lab5 : Str) (c6 : Char) (body : Str) : Bool :=
  !(v.blankShort && isBlank (lab5 ++ c6 :: body)) &&
  !(v.col7Comment && isBlank (lab5 ++ [c6]) && (lstrip body).head? == some '!')

/-- well-formedness of one line (decidable) -/
def Item.ok (v : Variant) : Item → Bool
  | .init lab5 c6 body =>
    lab5.length == 5 && !commentHead lab5.head? && lab5.head? != some '#'
      && !(lab5.drop 1).contains '!' && (isSpace c6 || c6 == '0') && fieldOk v lab5 c6 body
  | .cont c6 _ => !(isSpace c6 || c6 == '0')
  | .comment c rest => commentHead (some c) && lower (rest.take 4) != ['$', 'o', 'm', 'p']
  | .bang25 l => !commentHead l.head? && ((l.drop 1).take 4).contains '!'
  | .blank n => decide (n ≤ 5) || v.blankShort
  | .bang7 _ _ => v.col7Comment
  | .cpp _ => true

/-- lines that carry (part of) a statement -/
def Item.isRegular : Item → Bool
  | .init .. => true
  | .cont .. => true
  | _ => false

def Item.isCont : Item → Bool
  | .cont .. => true
  | _ => false

/-- is the next statement-carrying line a continuation line?
    (comment / blank lines in between do not matter) -/
def nextIsCont : List Item → Bool
  | [] => false
  | it :: rest => if it.isRegular then it.isCont else nextIsCont rest

/-- the statement label as it is written in free form: lower-cased, blanks
    removed on both sides, followed by one blank; nothing when the field is blank -/
def labelOut (lab5 : Str) : Str :=
  let x := lower (strip lab5)
  if x.isEmpty then [] else x ++ [' ']

/-- free-form equivalent of a statement-carrying line whose label text is
    `lab` and body `body`; `amp` = the statement goes on on a later line.
    With the limit on, what stands beyond column 72 (`body.drop 66`) goes
    behind a `!` (`excessMark`: `!` or, repaired, `! `) that is placed in column 73 or later. -/
def freeCode (v : Variant) (lim : Bool) (lab body : Str) (amp : Bool) : Str :=
  if lim && decide (body.length > 66) then
    let vis := rstrip (lab ++ body.take 66)
    ljust 72 (if amp then vis ++ [' ', '&'] else vis) ++ (excessMark v ++ (body.drop 66 ++ ['\n']))
  else if amp then rstrip (lab ++ body) ++ [' ', '&', '\n']
  else lab ++ body ++ ['\n']

/-- the equivalent free-form line -/
def freeLine (v : Variant) (lim : Bool) (it : Item) (amp : Bool) : Str :=
  match it with
  | .init lab5 _ body => freeCode v lim (labelOut lab5) body amp
  | .cont _ body => freeCode v lim [] body amp
  | .comment _ rest => '!' :: rest
  | .bang25 l => l
  | .blank n => List.replicate (n - 6) ' ' ++ ['\n']
  | .bang7 k rest => List.replicate (6 + k) ' ' ++ '!' :: rest
  | .cpp rest => '#' :: rest

def renderFixed (p : List Item) : List Str := p.map fixedLine

/-- the equivalent free-form file: same lines in the same order; a
    statement-carrying line gets ` &` exactly when the next statement-carrying
    line is a continuation line -/
def renderFree (v : Variant) (lim : Bool) : List Item → List Str
  | [] => []
  | it :: rest => freeLine v lim it (it.isRegular && nextIsCont rest) :: renderFree v lim rest

/-- the whole file is well formed: every line is, and the first
    statement-carrying line is not a continuation line -/
def WF (v : Variant) (p : List Item) : Prop := (∀ it ∈ p, it.ok v = true) ∧ nextIsCont p = false

end Ford.Fixed
