/-
  C09 — absolute links below the output directory and the `relurl` filter.

  Every entity link starts as `<a href='{project_url}/{dir}/{ident}.html'>` (`FortranBase.__str__`,
  `PageNode.url`; `project_url` is the output directory in relative mode) and is made relative per
  page by `ford.output.relative_url`:

      link_path = str(pathlib.Path(link_href).resolve())       # symbolic links dereferenced
      new_path  = os.path.relpath(link_path, page_url.parent)
      return link_str.replace(link_path, new_path)

  The `replace` only finds `link_path` in the text when the `href` as written already *is* its
  resolved form, i.e. when `project_url` is a fixed point of `resolve()`.  Whether it is depends on
  how `ford.utils.normalise_path` tidies the `output_dir` setting.  Both facts are regenerated from
  the source (Generated/C09.lean).  The file system is a parameter: `real p` is `p` with every
  symbolic link dereferenced.  Import-free (driver).
-/
import FordModel.Path
namespace Ford.Relurl
open Ford.Path

/-- the return expression of `ford.utils.normalise_path` -/
inductive NormMode where
  | resolve   -- `(base_dir / path).absolute().resolve()`: symbolic links dereferenced
  | abspath   -- `os.path.abspath(..)` / `.absolute()` + `normpath`: `..` collapsed textually, links kept
  deriving DecidableEq, Repr

structure Tables where
  normalise : NormMode
  /-- does `relative_url` look for the *resolved* href in the link text? (as is: yes) -/
  relurlResolves : Bool
  deriving DecidableEq, Repr

/-- path resolution of a file system: all symbolic links dereferenced (`os.path.realpath`) -/
structure FS where
  real : List Seg → List Seg

/-- `normalise_path(base_dir, path)` for the already joined absolute path `p` -/
def normalisePath (T : Tables) (fs : FS) (p : List Seg) : List Seg :=
  match T.normalise with
  | .resolve => fs.real p
  | .abspath => norm p

/-- the text `relative_url` searches for -/
def linkPath (T : Tables) (fs : FS) (href : List Seg) : List Seg :=
  if T.relurlResolves then fs.real href else href

/-- does the `replace` find it (is the link rewritten)? -/
def rewrites (T : Tables) (fs : FS) (href : List Seg) : Bool :=
  linkPath T fs href == href

/-- the href after the filter on a page in directory `pageDir`: `some` relative reference, or
    `none` when the absolute file-system path is left in the page -/
def relurl (T : Tables) (fs : FS) (pageDir href : List Seg) : Option (List Seg) :=
  if rewrites T fs href then some (relpathPy (linkPath T fs href) pageDir) else none

/-- the two regenerated facts fit together: either `relative_url` searches for the href as written,
    or the output directory was put through `resolve()` -/
def tablesOk (T : Tables) : Bool := !T.relurlResolves || T.normalise == .resolve

end Ford.Relurl
