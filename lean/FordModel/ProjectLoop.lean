/-
  Model of the per-file loop of `Project.__init__` and of `Project._fortran_file`
  (ford/fortran_project.py).

  `_fortran_file` first runs the file's constructor and only when that has
  returned appends the file's program units to the project-wide lists and the
  file itself to `project.files`.  An exception from the constructor reaches the
  `try/except` of the loop: with `dbg` (default) a warning naming the file is
  issued and the loop continues with the next file; without `dbg` it is re-raised
  and the run aborts.
-/
import FordModel.Nesting
import FordModel.Reader
namespace Ford

/-- the top-level units of a file that `_fortran_file` registers -/
structure FileTree where
  modules : List Str := []
  submodules : List Str := []
  functions : List Str := []
  subroutines : List Str := []
  programs : List Str := []
  blockdata : List Str := []
  /-- all entity paths of the file (what the file's pages are made from) -/
  paths : List Str := []
  deriving Repr, DecidableEq

/-- project-wide lists filled by the loop -/
structure Reg where
  files : List (Str × List Str) := []     -- registered files with their entity paths
  modules : List Str := []
  submodules : List Str := []
  procedures : List Str := []
  programs : List Str := []
  blockdata : List Str := []
  deriving Repr, DecidableEq

structure ProjState where
  reg : Reg := {}
  /-- files named in an "Error parsing …" warning, with the exception -/
  warned : List (Str × Err) := []
  /-- the exception that ended the run (only without `dbg`) -/
  aborted : Option (Str × Err) := none
  deriving Repr, DecidableEq

/-- the appends of `_fortran_file` after the constructor returned -/
def register (r : Reg) (name : Str) (t : FileTree) : Reg :=
  { files := r.files ++ [(name, t.paths)],
    modules := r.modules ++ t.modules,
    submodules := r.submodules ++ t.submodules,
    procedures := r.procedures ++ t.functions ++ t.subroutines,
    programs := r.programs ++ t.programs,
    blockdata := r.blockdata ++ t.blockdata }

/-- the loop over the files, in the order `find_all_files` delivers them -/
def loadFrom (dbg : Bool) : ProjState → List (Str × Except Err FileTree) → ProjState
  | st, [] => st
  | st, (name, .ok t) :: rest => loadFrom dbg { st with reg := register st.reg name t } rest
  | st, (name, .error e) :: rest =>
    if dbg then loadFrom dbg { st with warned := st.warned ++ [(name, e)] } rest
    else { st with aborted := some (name, e) }

def loadAll (dbg : Bool) (fs : List (Str × Except Err FileTree)) : ProjState := loadFrom dbg {} fs

/-- `xs` with `x` inserted at position `k` (at the end when `k` is too large) -/
def insertFileAt {α} (k : Nat) (x : α) (xs : List α) : List α := xs.take k ++ x :: xs.drop k

def isOkFile (f : Str × Except Err FileTree) : Bool :=
  match f.2 with
  | .ok _ => true
  | .error _ => false

/-- the warning a file gives rise to: its name and the exception, if it was rejected -/
def rejection (f : Str × Except Err FileTree) : Option (Str × Err) :=
  match f.2 with
  | .error e => some (f.1, e)
  | .ok _ => none

/-! ### from statements to the loop -/

def topNames (lab : Str) (paths : List Str) : List Str :=
  (paths.filter (fun p => startsWith p (lab ++ [':']) && !p.contains '/')).map (fun p => p.drop (lab.length + 1))

def treeOfPaths (paths : List Str) : FileTree :=
  { modules := topNames "modules".toList paths,
    submodules := topNames "submodules".toList paths,
    functions := topNames "functions".toList paths,
    subroutines := topNames "subroutines".toList paths,
    programs := topNames "programs".toList paths,
    blockdata := topNames "blockdata".toList paths,
    paths := paths }

/-- a source file as the loop sees it: undecodable, rejected by the reader, or a statement list -/
inductive Src
  | undecodable
  | readerError
  | stmts (ss : List Stmt)
  deriving Repr, DecidableEq

/-- a decodable file: the reader model of C02 (`readAll`, total by structural recursion)
    either raises or delivers the statements, which `classify` (the recognisers; on the
    implementation side) turns into statement kinds -/
def srcOfLines (m : Marks) (classify : List Str → List Stmt) (lines : List Str) : Src :=
  match readAll m lines with
  | .error _ => .readerError
  | .ok items => .stmts (classify items)

def srcOutcome (cfg : Cfg) : Src → Outcome
  | .undecodable => .skipped .decode []
  | .readerError => .skipped .reader []
  | .stmts ss => parseFile cfg ss

def toLoad (o : Outcome) : Except Err FileTree :=
  match o with
  | .registered paths _ => .ok (treeOfPaths paths)
  | .skipped e _ => .error e

/-- `Project(settings)` on the given files -/
def loadProject (cfg : Cfg) (fs : List (Str × Src)) : ProjState :=
  loadAll cfg.dbg (fs.map (fun f => (f.1, toLoad (srcOutcome cfg f.2))))

/-! ### state outside the project object: the process-wide `NameSelector`

  `sourceform.namelist` hands out the page identifiers (`name`, `name~2`, ...): the first
  request for an entity counts one more use of (directory, lower-cased name).  It is a
  module-level object; the per-file `try/except` of `Project.__init__` knows nothing about
  it, so whatever a file's constructor requested *before* the file was rejected stays
  requested.  Which constructors request an identifier while the file is parsed is the
  generated table `Gen.reservesAtParse` (probed on the code; as the code is: none -
  identifiers are asked for lazily, when the pages and links are made). -/

/-- the key a use is counted under: (directory, lower-cased name) -/
abbrev NameKey := Str × Str

/-- requests made by the constructors that were entered, given the table of those that ask -/
def reservedWith (tbl : List (CK × CK × Str)) (evs : List (CK × CK × Str)) : List NameKey :=
  evs.filterMap (fun e =>
    (tbl.find? (fun t => t.1 == e.1 && t.2.1 == e.2.1)).map (fun t => (t.2.2, lower e.2.2)))

/-- the identifiers requested from the NameSelector while a file with these statements is
    parsed - whether or not the file is registered in the end -/
def reservedBy (cfg : Cfg) (ss : List Stmt) : List NameKey :=
  reservedWith Gen.reservesAtParse (opened cfg ss)

/-- (a file that cannot be decoded is rejected before any constructor runs; for a reader
    error the statements read before it are not part of `Src`, so this is exact only as
    long as the table is empty - which `C20.parse_reserves_nothing` establishes) -/
def srcReserved (cfg : Cfg) : Src → List NameKey
  | .undecodable => []
  | .readerError => []
  | .stmts ss => reservedBy cfg ss

/-- the requests of all the files that are read, in reading order; nothing is ever
    withdrawn (without `dbg` the loop ends at the first rejected file) -/
def namesFrom (dbg : Bool) : List (List NameKey × Except Err FileTree) → List NameKey
  | [] => []
  | (r, .ok _) :: rest => r ++ namesFrom dbg rest
  | (r, .error _) :: rest => if dbg then r ++ namesFrom dbg rest else r

/-- the state of the NameSelector when `Project(settings)` returns -/
def projectNames (cfg : Cfg) (fs : List (Str × Src)) : List NameKey :=
  namesFrom cfg.dbg (fs.map (fun f => (srcReserved cfg f.2, toLoad (srcOutcome cfg f.2))))

/-- what the reader model does on a file, in the vocabulary of the probes of the real
    reader (`Gen.eofProbes`); the model is total, so it never says `hung` -/
def readerObs (m : Marks) (lines : List Str) : ProbeObs :=
  match readAll m lines with
  | .ok xs => .items xs
  | .error _ => .raised

/-- the number `get_name` gives a new entity with key `k` after the requests `tbl`
    (1 = plain `name`, n > 1 = `name~n`) -/
def nextNumber (tbl : List NameKey) (k : NameKey) : Nat := (tbl.filter (· == k)).length + 1

end Ford
