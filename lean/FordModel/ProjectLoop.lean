/-
  Model of the per-file loop of `Project.__init__` and of `Project._fortran_file`
  (ford/fortran_project.py).

  `_fortran_file` first runs the file's constructor and only when that has
  returned appends the file's program units to the project-wide lists and the
  file itself to `project.files`.  An exception from the constructor reaches the
  `try/except` of the loop: with `dbg` (default) a warning naming the file is
  issued and the loop continues with the next file; without `dbg` it is re-raised
  and the run aborts.
-/
import FordModel.Nesting
import FordModel.Reader
namespace Ford

/-- the top-level units of a file that `_fortran_file` registers -/
structure FileTree where
  modules : List Str := []
  submodules : List Str := []
  functions : List Str := []
  subroutines : List Str := []
  programs : List Str := []
  blockdata : List Str := []
  /-- all entity paths of the file (what the file's pages are made from) -/
  paths : List Str := []
  deriving Repr, DecidableEq

/-- project-wide lists filled by the loop -/
structure Reg where
  files : List (Str × List Str) := []     -- registered files with their entity paths
  modules : List Str := []
  submodules : List Str := []
  procedures : List Str := []
  programs : List Str := []
  blockdata : List Str := []
  deriving Repr, DecidableEq

structure ProjState where
  reg : Reg := {}
  /-- files named in an "Error parsing …" warning, with the exception -/
  warned : List (Str × Err) := []
  /-- the exception that ended the run (only without `dbg`) -/
  aborted : Option (Str × Err) := none
  deriving Repr, DecidableEq

/-- the appends of `_fortran_file` after the constructor returned -/
def register (r : Reg) (name : Str) (t : FileTree) : Reg :=
  { files := r.files ++ [(name, t.paths)],
    modules := r.modules ++ t.modules,
    submodules := r.submodules ++ t.submodules,
    procedures := r.procedures ++ t.functions ++ t.subroutines,
    programs := r.programs ++ t.programs,
    blockdata := r.blockdata ++ t.blockdata }

/-- the loop over the files, in the order `find_all_files` delivers them -/
def loadFrom (dbg : Bool) : ProjState → List (Str × Except Err FileTree) → ProjState
  | st, [] => st
  | st, (name, .ok t) :: rest => loadFrom dbg { st with reg := register st.reg name t } rest
  | st, (name, .error e) :: rest =>
    if dbg then loadFrom dbg { st with warned := st.warned ++ [(name, e)] } rest
    else { st with aborted := some (name, e) }

def loadAll (dbg : Bool) (fs : List (Str × Except Err FileTree)) : ProjState := loadFrom dbg {} fs

/-- `xs` with `x` inserted at position `k` (at the end when `k` is too large) -/
def insertFileAt {α} (k : Nat) (x : α) (xs : List α) : List α := xs.take k ++ x :: xs.drop k

def isOkFile (f : Str × Except Err FileTree) : Bool :=
  match f.2 with
  | .ok _ => true
  | .error _ => false

/-- the warning a file gives rise to: its name and the exception, if it was rejected -/
def rejection (f : Str × Except Err FileTree) : Option (Str × Err) :=
  match f.2 with
  | .error e => some (f.1, e)
  | .ok _ => none

/-! ### from statements to the loop -/

def topNames (lab : Str) (paths : List Str) : List Str :=
  (paths.filter (fun p => startsWith p (lab ++ [':']) && !p.contains '/')).map (fun p => p.drop (lab.length + 1))

def treeOfPaths (paths : List Str) : FileTree :=
  { modules := topNames "modules".toList paths,
    submodules := topNames "submodules".toList paths,
    functions := topNames "functions".toList paths,
    subroutines := topNames "subroutines".toList paths,
    programs := topNames "programs".toList paths,
    blockdata := topNames "blockdata".toList paths,
    paths := paths }

/-- a source file as the loop sees it: undecodable, rejected by the reader, or a statement list -/
inductive Src
  | undecodable
  | readerError
  | stmts (ss : List Stmt)
  deriving Repr, DecidableEq

/-- a decodable file: the reader model of C02 (`readAll`, total by structural recursion)
    either raises or delivers the statements, which `classify` (the recognisers; on the
    implementation side) turns into statement kinds -/
def srcOfLines (m : Marks) (classify : List Str → List Stmt) (lines : List Str) : Src :=
  match readAll m lines with
  | .error _ => .readerError
  | .ok items => .stmts (classify items)

def srcOutcome (cfg : Cfg) : Src → Outcome
  | .undecodable => .skipped .decode []
  | .readerError => .skipped .reader []
  | .stmts ss => parseFile cfg ss

def toLoad (o : Outcome) : Except Err FileTree :=
  match o with
  | .registered paths _ => .ok (treeOfPaths paths)
  | .skipped e _ => .error e

/-- `Project(settings)` on the given files -/
def loadProject (cfg : Cfg) (fs : List (Str × Src)) : ProjState :=
  loadAll cfg.dbg (fs.map (fun f => (f.1, toLoad (srcOutcome cfg f.2))))

end Ford
