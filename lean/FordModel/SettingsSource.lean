/-
  C15, round 6 - *where* FORD takes a project's options from (`ford.initialize` +
  `ford.load_settings` + `ford.settings.load_toml_settings`), as the code is:

    directory = os.path.dirname(args.project_file.name)          -- the path as typed
    proj_data = load_toml_settings(directory)                     -- <directory>/fpm.toml, [extra.ford]
    if proj_data is None: load_markdown_settings(...)              -- the project file's metadata block
    parse_arguments(vars(args), proj_docs, proj_data, directory)  -- paths relative to <directory>

  The working directory enters only through the operating system resolving the
  (possibly relative) `directory`.  The directories `load_settings` looks the manifest up in
  are a *table* regenerated from the source (`Generated.tomlLookups`), so that a second
  lookup somewhere else changes the model and a proof obligation.

  The file system is a finite map from (normalised, absolute) directory names to what
  `<dir>/fpm.toml` is.  No symlinks; every directory on the way exists.
-/
import FordModel.Settings
namespace Ford
namespace Settings

/-! ### `os.path.dirname` (posixpath) -/

/-- `p[:p.rfind('/') + 1]` -/
def headPart : Str → Str
  | [] => []
  | c :: r => if c == '/' || r.contains '/' then c :: headPart r else []

/-- `head.rstrip('/')` for a `head` that is not made of slashes only -/
def rstripSlash : Str → Str
  | [] => []
  | c :: r => if (c :: r).all (· == '/') then [] else c :: rstripSlash r

/-- `os.path.dirname` -/
def dirname (p : Str) : Str :=
  let h := headPart p
  if h.all (· == '/') then h else rstripSlash h

/-- the directory of the project file as the operating system resolves it: `directory` taken
    from the working directory (`Path(directory).absolute()` + `resolve()`) -/
def projectDirOf (cwd addr : Str) : Str := normPath cwd (dirname addr)

/-! ### the manifest -/

/-- what `<dir>/fpm.toml` is -/
inductive Manifest
  | absent                 -- nothing of that name, or not a regular file: `is_file()` is false
  | invalid                -- a file that is not TOML: `tomllib.load` raises
  | noExtra                -- TOML without a top-level `extra`
  | noFord                 -- `[extra]` without `ford`
  | ford (kw : Settings)   -- the `[extra.ford]` table
  deriving DecidableEq, Repr

/-- (normalised absolute directory ↦ its manifest); a directory not listed has none -/
abbrev FileSys := List (Str × Manifest)

def manifestAt (fs : FileSys) (d : Str) : Manifest := (aget d fs).getD .absent

/-- errors of the whole start-up: the manifest is not TOML, or an error of the settings pipeline -/
inductive SrcErr
  | tomlDecode
  | settings (e : Err)
  deriving DecidableEq, Repr

/-- `load_toml_settings` up to the construction of `ProjectSettings`: the keyword table, or `None` -/
def loadToml : Manifest → Except SrcErr (Option Settings)
  | .absent => .ok none
  | .invalid => .error .tomlDecode
  | .noExtra => .ok none
  | .noFord => .ok none
  | .ford kw => .ok (some kw)

/-- the directory one `load_toml_settings(<expr>)` attempt of `load_settings` opens -/
def lookupDir (cwd directory : Str) : LookupDir → Str
  | .projectDir => normPath cwd directory
  | .cwd => normPath cwd []

/-- the attempts of `load_settings` in source order: the first manifest with an `[extra.ford]`
    table is the project's configuration; `none` = fall back to the metadata block -/
def selectToml (fs : FileSys) (cwd directory : Str) : List LookupDir → Except SrcErr (Option Settings)
  | [] => .ok none
  | l :: rest =>
    match loadToml (manifestAt fs (lookupDir cwd directory l)) with
    | .error e => .error e
    | .ok (some kw) => .ok (some kw)
    | .ok none => selectToml fs cwd directory rest

/-- `ford.initialize()`: `cwd` the working directory, `addr` the project file as typed on the
    command line, `md` its lines, `fs` the manifests lying around, `files` the readable text files
    (for the include workaround of the metadata format) -/
def effectiveAt (T : Tables) (lookups : List LookupDir) (fs : FileSys) (cwd addr pkg : Str) (md : List Str)
    (config : Option Settings) (cli : Settings) (files : List (Str × List Str) := [])
    (incRepaired : Bool := false) : Except SrcErr (Settings × List Str) :=
  match selectToml fs cwd (dirname addr) lookups with
  | .error e => .error e
  | .ok toml =>
    match effective T (projectDirOf cwd addr) pkg toml md config cli
        { cwd := cwd, directory := dirname addr, files := files, baseFromProject := incRepaired } with
    | .ok r => .ok r
    | .error e => .error (.settings e)

/-- one field of the result (for witnesses) -/
def effFieldAt (k : String) (r : Except SrcErr (Settings × List Str)) : Option PyVal :=
  match r with
  | .ok (s, _) => aget k.toList s
  | .error _ => none

/-- does the metadata block hold a string option whose value opens with an include statement `{!`?
    (decidable on the text of the project file; the class in which the include workaround of
    `load_markdown_settings` does anything at all) -/
def mdIncludes (T : Tables) (md : List Str) : Bool :=
  match convertMeta T.schema T.seps (mdRaw (metaPre md).1) with
  | .ok (kw, _) => opensInclude kw
  | .error _ => false

end Settings
end Ford
