/-
  C04 - model of FORD's permission mechanism *as the code is*
  (ford/sourceform.py: FortranContainer.__init__, line_to_variables,
  FortranType._initialize, FortranBoundProcedure._initialize,
  FortranCodeUnit.process_attribs, FortranType.correlate).

  A specification part is a list of abstract statements folded by `step` with
  the state the code keeps (`self.permission`, `child_permission`, `incontains`,
  `attr_dict`, the entity lists); `passes` is `process_attribs`; `ctorPass` is
  the constructor assignment of `FortranType.correlate`.
  Every word list / iteration order / constant comes from Generated/C04.lean.
-/
import FordModel.Generated.C04
namespace Ford.Access

/-- a component, binding or specific procedure: name and stored permission -/
structure Kid where
  name : Str
  perm : Perm
  deriving DecidableEq, Repr

/-- an entity of a module's specification part / procedure part -/
structure Ent where
  cat : Cat
  name : Str
  perm : Perm
  comps : List Kid := []
  binds : List Kid := []
  procs : List Kid := []
  /-- `module procedure x` references of a generic interface (`FortranModuleProcedureReference`): they are not
      procedures, their stored permission is never read for display or export -/
  refs : List Kid := []
  /-- interface-procedure wrapper (`FortranModuleProcedureInterface`): the wrapped
      procedure reads this entity's permission (`FortranProcedure.permission`) -/
  wrapper : Bool := false
  deriving DecidableEq, Repr

/-- The loop over the attribute words of a declaration: the last recognised
    access word wins, everything else is ignored (`words` = the list of the `in [...]` test). -/
def declPerm (words : List Perm) (inh : Perm) : List Attr → Perm
  | [] => inh
  | .acc q :: r => if q ∈ words then declPerm words q r else declPerm words inh r
  | .other :: r => declPerm words inh r

def pick (self child : Perm) : Src → Perm
  | .self => self
  | .child => child

/-! ### derived-type bodies -/

inductive TStmt
  | bare (p : Perm)
  | contains
  | comp (names : List Str) (attrs : List Attr)
  | bind (generic : Bool) (names : List Str) (attrs : List Attr)
  | other
  deriving DecidableEq, Repr

structure TSt where
  child : Perm
  incontains : Bool
  comps : List Kid
  binds : List Kid
  deriving Repr

/-- one statement of a derived-type body; `self` is the type's own permission -/
def tstep (self : Perm) (s : TSt) : TStmt → TSt
  | .bare p => if p ∈ bareWords ∧ bareSetsChild then { s with child := p } else s
  | .contains => if s.incontains then s else { s with incontains := true, child := containsReset }
  | .comp ns as =>
    { s with comps := s.comps ++ ns.map (fun n => ⟨n, declPerm varAttrWords (pick self s.child srcVariables) as⟩) }
  | .bind g ns as =>
    if s.incontains then
      let p := declPerm bindAttrWords (pick self s.child srcBoundProc) as
      { s with binds := s.binds ++ ((if g || ns.length == 1 then ns.take 1 else ns.reverse).map (fun n => ⟨n, p⟩)) }
    else s
  | .other => s

def tinit : TSt := ⟨typeChildInit, false, [], []⟩

def runType (self : Perm) (body : List TStmt) : TSt := body.foldl (tstep self) tinit

/-! ### module / submodule specification part -/

inductive IKind | generic | abstract | plain
  deriving DecidableEq, Repr

inductive Stmt
  | bare (p : Perm)
  | access (a : Attr) (names : List Str)
  | var (names : List Str) (attrs : List Attr)
  | typeDef (name : Str) (attrs : List Attr) (body : List TStmt)
  | iface (k : IKind) (name : Str) (procs : List Str) (refs : List Str)
  | proc (isFunc : Bool) (name : Str)
  | contains
  | other
  deriving DecidableEq, Repr

structure St where
  perm : Perm
  child : Perm
  incontains : Bool
  attrs : List (Str × Attr)
  ents : List Ent
  deriving Repr

/-- the entities a declaration statement creates, given the container's two permissions -/
def mkEnts (self child : Perm) (incontains : Bool) : Stmt → List Ent
  | .var ns as => ns.map (fun n => { cat := .var, name := n, perm := declPerm varAttrWords (pick self child srcVariables) as })
  | .typeDef n as body =>
    let p := declPerm typeAttrWords (pick self child srcType) as
    let t := runType p body
    [{ cat := .type, name := n, perm := p, comps := t.comps, binds := t.binds }]
  | .iface .generic n ps rs =>
    let p := pick self child srcInterface
    [{ cat := .iface, name := n, perm := p, procs := ps.map (fun q => ⟨q, p⟩), refs := rs.map (fun q => ⟨q, p⟩) }]
  | .iface .abstract _ ps _ =>
    ps.map (fun q => { cat := .absIface, name := q, perm := pick self child srcInterface, wrapper := true })
  | .iface .plain _ ps _ =>
    ps.map (fun q => { cat := .iface, name := q, perm := pick self child srcInterface, wrapper := true })
  | .proc f n =>
    if incontains then
      [{ cat := if f then .func else .sub, name := n,
         perm := pick self child (if f then srcFunction else srcSubroutine) }]
    else []
  | _ => []

def step (s : St) (x : Stmt) : St :=
  match x with
  | .bare p =>
    if p ∈ bareWords then
      { s with child := if bareSetsChild then p else s.child, perm := if bareSetsSelf then p else s.perm }
    else s
  | .access a ns => { s with attrs := s.attrs ++ ns.map (fun n => (n, a)) }
  | .contains => { s with incontains := true }
  | .other => s
  | d => { s with ents := s.ents ++ mkEnts s.perm s.child s.incontains d }

def init (submodule : Bool) : St :=
  let p := if submodule then submoduleInit else moduleInit
  ⟨p, p, false, [], []⟩

/-! ### process_attribs -/

/-- the `for attr in self.attr_dict[name]` loop: every recognised access word overwrites -/
def applyAttrs (words : List Perm) (n : Str) (p : Perm) : List (Str × Attr) → Perm
  | [] => p
  | (m, .acc q) :: r => if m = n ∧ q ∈ words then applyAttrs words n q r else applyAttrs words n p r
  | (_, .other) :: r => applyAttrs words n p r

def wordsFor (c : Cat) : List Perm := if c = .var then applyVarWords else applyWords

/-- one entity list: apply, then `del self.attr_dict[name]` -/
def pass (c : Cat) : List Ent → List (Str × Attr) → List Ent × List (Str × Attr)
  | [], a => ([], a)
  | e :: es, a =>
    if e.cat = c then
      let r := pass c es (a.filter (fun x => x.1 ≠ e.name))
      ({ e with perm := applyAttrs (wordsFor c) e.name e.perm a } :: r.1, r.2)
    else
      let r := pass c es a
      (e :: r.1, r.2)

def passes : List Cat → List Ent → List (Str × Attr) → List Ent × List (Str × Attr)
  | [], es, a => (es, a)
  | c :: cs, es, a => let r := pass c es a; passes cs r.1 r.2

/-- what `process_attribs` does to one entity when it sees the whole `attr_dict` `a` -/
def upd (a : List (Str × Attr)) (e : Ent) : Ent :=
  { e with perm := applyAttrs (wordsFor e.cat) e.name e.perm a }

/-- Where `process_attribs` forgets an `attr_dict` entry.  `perEntity`: right after the first entity of that
    name (the code as it is: a derived type takes the statement, the constructor interface of the same name
    never sees it).  `afterLoop`: the candidate repair - every entity of the first loop sees the whole
    `attr_dict`, the names are forgotten when the loop is over (the variables' loop is unchanged).
    Which one the code under test has is decided by the harness by probing it. -/
inductive DelOrder | perEntity | afterLoop
  deriving DecidableEq, Repr

def passesAfter (es : List Ent) (a : List (Str × Attr)) : List Ent × List (Str × Attr) :=
  pass .var (es.map (fun e => if e.cat ∈ itemPasses then upd a e else e))
    (a.filter (fun x => !(es.any (fun e => decide (e.cat ∈ itemPasses) && decide (e.name = x.1)))))

def passesV : DelOrder → List Ent → List (Str × Attr) → List Ent × List (Str × Attr)
  | .perEntity, es, a => passes attribPasses es a
  | .afterLoop, es, a => passesAfter es a

/-- `public_list` -/
def publicList (es : List Ent) (rest : List (Str × Attr)) : List Str :=
  publicListCats.flatMap (fun c => (es.filter (fun e => e.cat = c ∧ e.perm = publicWord)).map (·.name))
  ++ ((rest.filter (fun x => x.2 = .acc publicWord)).map (·.1)).eraseDups

/-- `FortranType.correlate`: an interface named like a type is its constructor and takes the type's permission -/
def ctorPass (es : List Ent) : List Ent :=
  es.map (fun e =>
    if e.cat = .iface then
      match es.find? (fun t => t.cat = .type ∧ t.name = e.name) with
      | some t => { e with perm := t.perm }
      | none => e
    else e)

/-- `FortranProcedure.permission` (the getter): a procedure declared by an interface body reads its parent's
    permission when the generated truth table says so (`readWrapper`: parent is a non-generic interface -
    carried by `Ent.wrapper`, checked on the implementation; `readGeneric`: parent is a generic interface),
    else its own stored one. -/
def readKids (e : Ent) : Ent :=
  if readGeneric then { e with procs := e.procs.map (fun k => ⟨k.name, e.perm⟩) } else e

/-- the four tables of a module through which its entities reach other scopes by use association
    (`pub_procs`, `pub_vars`, `pub_types`, `pub_absints`, built in `FortranModule._cleanup`, i.e. after
    `process_attribs` and *before* `correlate`) -/
inductive Tab | procs | vars | types | absints
  deriving DecidableEq, Repr

def tabOf : Cat → Tab
  | .func => .procs | .sub => .procs | .iface => .procs
  | .type => .types | .absIface => .absints | .var => .vars

/-- `all_procs` of `FortranCodeUnit._cleanup`: procedures, then per (non-abstract) interface the interface and,
    for a generic one, its interface bodies; a dict, so a later entry replaces an earlier one of the same name -/
def allProcs (es : List Ent) : List (Str × Perm) :=
  (es.filter (fun e => e.cat = .func)).map (fun e => (e.name, e.perm))
  ++ (es.filter (fun e => e.cat = .sub)).map (fun e => (e.name, e.perm))
  ++ (es.filter (fun e => e.cat = .iface)).flatMap (fun e => (e.name, e.perm) :: e.procs.map (fun k => (k.name, k.perm)))

/-- value of a key of a dict written as its list of insertions -/
def lookupLast (n : Str) : List (Str × Perm) → Option Perm
  | [] => none
  | (m, p) :: r => match lookupLast n r with
    | some q => some q
    | none => if m = n then some p else none

def exportsOf (es : List Ent) : List (Tab × Str) :=
  (((allProcs es).map (·.1)).eraseDups.filter (fun n => match lookupLast n (allProcs es) with
      | some p => decide (p ∈ exportWords) | none => false)).map (fun n => (Tab.procs, n))
  ++ ((es.filter (fun e => tabOf e.cat ≠ .procs ∧ e.perm ∈ exportWords)).map (fun e => (tabOf e.cat, e.name)))

/-- The two places where the code under test may differ from the code as it is (each a candidate repair of a
    known defect); decided by the harness by probing the real code, see `DelOrder`.  `ctorEarly`: the
    constructor interface takes its type's permission already in `_cleanup`, before the export tables are built
    (as it is: only in `FortranType.correlate`, after they were built). -/
structure Variant where
  del : DelOrder
  ctorEarly : Bool
  /-- candidate repair of "access statement naming a specific procedure is ignored": `process_attribs` starts with a
      loop over the interface bodies of the generic interfaces that applies the access words of `attr_dict` to them
      (nothing is deleted there) -/
  specLoop : Bool
  deriving DecidableEq, Repr

/-- the code as it is -/
def asIs : Variant := ⟨.perEntity, false, false⟩

/-- the loop over the interface bodies of generic interfaces (only generic interfaces have `procs`) -/
def specUpd (on : Bool) (a : List (Str × Attr)) (e : Ent) : Ent :=
  if on then { e with procs := e.procs.map (fun k => ⟨k.name, applyAttrs applyWords k.name k.perm a⟩) } else e

structure Out where
  /-- entities with the permissions they have after `correlate` -/
  ents : List Ent
  publicList : List Str
  /-- entities as `process_attribs` leaves them -/
  attr : List Ent
  /-- entities as `_cleanup` sees them when it builds the export tables -/
  pre : List Ent
  exports : List (Tab × Str)
  deriving Repr

def finish (v : Variant) (s : St) : Out :=
  let r := passesV v.del (s.ents.map (specUpd v.specLoop s.attrs)) s.attrs
  let pre := (if v.ctorEarly then ctorPass r.1 else r.1).map readKids
  ⟨(ctorPass r.1).map readKids, publicList r.1 r.2, r.1, pre, exportsOf pre⟩

def runUnit (v : Variant) (submodule : Bool) (stmts : List Stmt) : Out :=
  finish v (stmts.foldl step (init submodule))

end Ford.Access
