/-
  C19 - file-system write-out model.

  Mirrors, as the code is:
    ford/utils.py      normalise_path            ((base / p).absolute().resolve())
    ford/settings.py   normalise_paths           (output_dir, graph_dir, src_dir ... resolved)
    ford/__init__.py   parse_arguments 361-367   (refusal when output_dir is a src_dir or above one)
                       main                      (writeout, then dump_modules)
    ford/output.py     Documentation.writeout, BasePage.writeout, PagetreePage.writeout, copytree
    ford/graphs.py     GraphManager.output_graphs / FortranGraph._create_image_file
    ford/tipue_search  print_output
    ford/sourceform.py NameSelector.get_name     (entity name -> file stem)

  Paths are lists of segments (absolute; `[]` is `/`).  The run is a list of
  *primitive file-system attempts* `Prim` (what `sys.addaudithook` sees in the
  real run: rmtree / remove / mkdir / open-for-write / chmod / utime / rename),
  every path passed through `norm`, the lexical resolution of `.`, `..`, `//`
  that the OS performs.  That the lexical resolution is also the physical one rests on
  there being no symbolic link below the output directory: it has just been wiped.  This
  is made explicit by `Cfg.old` (the symbolic links lying in the old output directory / in
  the graph directory before the run), `survivors` (which of them are still there after the
  clean-up) and `runPhys` (every attempt at the physical path the OS resolves it to).
  `resolve` additionally follows a table of symbolic links
  (used for the settings paths, `Path.resolve()`).
-/
import FordModel.Basic.Chars
import FordModel.Generated.C19
namespace Ford.Fs
open Ford

abbrev Seg := Str
abbrev Path := List Seg

def dotdot : Seg := ['.', '.']
def dot : Seg := ['.']

/-- split on `/` -/
def splitSlashAux : Str → Str → List Seg
  | [], cur => [cur.reverse]
  | c :: cs, cur => if c = '/' then cur.reverse :: splitSlashAux cs [] else splitSlashAux cs (c :: cur)

def splitSlash (s : Str) : List Seg := splitSlashAux s []

/-- lexical resolution of `.`, `..` and empty segments; `st` is the reversed stack.
    `/..` is `/` (POSIX). -/
def normAux : List Seg → List Seg → Path
  | st, [] => st.reverse
  | st, s :: r =>
    if s = dotdot then normAux st.tail r
    else if s = dot ∨ s = [] then normAux st r
    else normAux (s :: st) r

def norm (p : List Seg) : Path := normAux [] p

/-- `Path.resolve()` with a table of symbolic links (absolute link path ->
    absolute, already physical target). -/
def resolveAux (links : List (Path × Path)) : List Seg → List Seg → Path
  | st, [] => st.reverse
  | st, s :: r =>
    if s = dotdot then resolveAux links st.tail r
    else if s = dot ∨ s = [] then resolveAux links st r
    else match links.lookup (s :: st).reverse with
      | some t => resolveAux links t.reverse r
      | none => resolveAux links (s :: st) r

def resolve (links : List (Path × Path)) (p : List Seg) : Path := resolveAux links [] p

/-- `base / s` of pathlib: an absolute right operand replaces the left one. -/
def joinRaw (base : Path) (s : Str) : List Seg :=
  match s with
  | '/' :: _ => splitSlash s
  | _ => base ++ splitSlash s

/-- `normalise_path(base, s)` -/
def normalisePath (links : List (Path × Path)) (base : Path) (s : Str) : Path :=
  resolve links (joinRaw base s)

/-- how many segments may still be popped by `..` without leaving the base:
    `safe k x` - walking `x` from a position `k` segments below the base never
    goes above the base. -/
def safe : Nat → List Seg → Bool
  | _, [] => true
  | k, s :: r =>
    if s = dotdot then (match k with | 0 => false | k + 1 => safe k r)
    else if s = dot ∨ s = [] then safe k r
    else safe (k + 1) r

/-- a relative name that cannot climb: every use site `base / name` stays below `base` -/
def safeRel (s : Str) : Bool := safe 0 (splitSlash s)

def Clean (s : Seg) : Prop := s ≠ dotdot ∧ s ≠ dot ∧ s ≠ []
def Normal (p : Path) : Prop := ∀ s ∈ p, Clean s

/-- `pathlib.PurePath.parents`: proper prefixes, nearest first -/
def parents (p : Path) : List Path := (List.range p.length).reverse.map (fun n => p.take n)

/-! ### primitive attempts -/

inductive PK | rmtree | rm | mk | wr | chmod | utime | mvFrom | mvTo | symlink
  deriving DecidableEq, Repr

structure Prim where
  kind : PK
  path : Path
  deriving DecidableEq, Repr

/-- `base / rel`, as the OS resolves it -/
def sub (base : Path) (rel : Str) : Path := norm (base ++ splitSlash rel)

/-- `Path.mkdir(parents=True)` with `k` missing proper ancestors: the attempts made -/
def mkdirP (p : Path) : Nat → List Prim
  | 0 => [⟨.mk, p⟩]
  | k + 1 => ⟨.mk, p⟩ :: mkdirP p.dropLast k ++ [⟨.mk, p⟩]

/-- listing of a source tree in the order `shutil.copytree` walks it
    (0 = file, 1 = enter directory, 2 = leave directory, 3 = entry that cannot be read: a
    dangling symbolic link; a symbolic link to a file / directory is listed as what it points to,
    which is how `os.scandir` + `is_dir()` see it), the order in which `dst.rglob("*")` yields the
    copies (for `touch`), and the symbolic links among the entries of the source tree with the
    physical path each one points to (any path at all: inside the tree, elsewhere in the project,
    anywhere on disk). -/
structure Tree where
  walk : List (Nat × Str)
  touch : List Str
  links : List (Str × Path) := []
  deriving Repr

def walkOps (dst : Path) : List (Nat × Str) → List Prim
  | [] => []
  | (k, rel) :: r =>
    (if k = 0 then [⟨.wr, sub dst rel⟩, ⟨.chmod, sub dst rel⟩]
     else if k = 1 then [⟨.mk, sub dst rel⟩]
     else if k = 2 then [⟨.utime, sub dst rel⟩, ⟨.chmod, sub dst rel⟩]
     else []) ++ walkOps dst r

/-- `shutil.copytree` collects the entries it could not copy and raises `shutil.Error` *after*
    everything else has been copied (unless dangling links are ignored) -/
def copyFails (t : Tree) : Bool :=
  !Generated.C19.copytreeIgnoreDangling && t.walk.any (fun e => e.1 = 3)

/-- `ford.output.copytree(src, dst)` with links dereferenced (`symlinks=False`): the copy holds
    regular files and directories only, whatever the links point to; FORD's `touch` pass over the
    copy is skipped when `shutil.copytree` raised. -/
def copyTreeDeref (dst : Path) (t : Tree) : List Prim :=
  ⟨.mk, dst⟩ :: walkOps dst t.walk ++ [⟨.utime, dst⟩, ⟨.chmod, dst⟩] ++
  (if copyFails t then [] else t.touch.map (fun r => ⟨.utime, sub dst r⟩))

/-- the listing is coherent: what `rglob` finds in the copy are the files and directories of the
    walk, and every directory that is left has been entered -/
def treeWf (t : Tree) : Bool :=
  t.touch.all (fun r => t.walk.contains (0, r) || t.walk.contains (1, r)) &&
  t.walk.all (fun e => e.1 != 2 || t.walk.contains (1, e.2))

def isLinkEntry (t : Tree) (rel : Str) : Bool := (t.links.lookup rel).isSome

/-- the entry lies below a directory entry that is a symbolic link -/
def belowLink (t : Tree) (rel : Str) : Bool := t.links.any (fun l => (l.1 ++ ['/']).isPrefixOf rel)

def walkOpsKeep (dst : Path) (t : Tree) : List (Nat × Str) → List Prim
  | [] => []
  | (k, rel) :: r =>
    (if belowLink t rel then []
     else if isLinkEntry t rel then (if k = 2 then [] else [⟨.symlink, sub dst rel⟩])
     else if k = 0 then [⟨.wr, sub dst rel⟩, ⟨.chmod, sub dst rel⟩]
     else if k = 1 then [⟨.mk, sub dst rel⟩]
     else if k = 2 then [⟨.utime, sub dst rel⟩, ⟨.chmod, sub dst rel⟩]
     else []) ++ walkOpsKeep dst t r

/-- `Path.touch()` follows symbolic links: `utime` on what the link points to, and when that does
    not exist `open(O_CREAT)` creates it -/
def touchKeep (dst : Path) (t : Tree) (rel : Str) : List Prim :=
  if belowLink t rel then []
  else match t.links.lookup rel with
    | some target => ⟨.utime, target⟩ :: (if t.walk.contains (3, rel) then [⟨.wr, target⟩] else [])
    | none => [⟨.utime, sub dst rel⟩]

/-- `ford.output.copytree(src, dst)` if `shutil.copytree` were told to keep links (`symlinks=True`) -/
def copyTreeKeep (dst : Path) (t : Tree) : List Prim :=
  ⟨.mk, dst⟩ :: walkOpsKeep dst t t.walk ++ [⟨.utime, dst⟩, ⟨.chmod, dst⟩] ++
  (t.touch ++ (t.walk.filter (fun e => e.1 = 3)).map (·.2)).flatMap (touchKeep dst t)

/-- `ford.output.copytree(src, dst)` when `src` is readable and `dst` does not exist; the keyword
    arguments of its `shutil.copytree` call are read from the source (generated table) -/
def copyTree (dst : Path) (t : Tree) : List Prim :=
  if Generated.C19.copytreeSymlinks then copyTreeKeep dst t else copyTreeDeref dst t

/-- `os.path.basename` / `Path.name`: the last component of a path string -/
def baseName (s : Str) : Seg := (splitSlash s).getLastD []

/-- `shutil.copy(src, dst_file)` -/
def copyFile (dst : Path) : List Prim := [⟨.wr, dst⟩, ⟨.chmod, dst⟩]

/-! ### NameSelector.get_name -/

def replaceChar (c : Char) (r : Str) : Str → Str
  | [] => []
  | x :: xs => if x = c then r ++ replaceChar c r xs else x :: replaceChar c r xs

def sanitize (tbl : List (Char × Str)) (s : Str) : Str :=
  tbl.foldl (fun acc e => replaceChar e.1 e.2 acc) s

def natStr (n : Nat) : Str := (toString n).toList

/-- file stem of an entity page: lower-cased name, symbols replaced, `~n` for the n-th homonym -/
def ident (name : Str) (num : Nat) : Str :=
  let n := sanitize Generated.C19.symbolReplacements (lower name)
  let n := if n = [] then "__unnamed__".toList else n
  if num > 1 then n ++ '~' :: natStr num else n

def identFile (name : Str) (num : Nat) : Str := ident name num ++ ".html".toList

/-! ### configuration and site -/

/-- a symbolic link that lies, before the run, in a directory the run writes to (the old output
    directory at any depth, the graph directory) -/
structure OldLink where
  loc : Path              -- where the link is (absolute; the directory it lies in is physical)
  target : Path           -- the physical path it points to: anywhere on disk
  isDir : Bool := false   -- ... which is a directory
  kept : Bool := false    -- the attempt of the clean-up to remove it fails (injected fault)
  deriving Repr, DecidableEq

structure Cfg where
  repaired : Bool := false        -- variant: page-level copy_subdir targets outside the output dir are skipped
  subGuard : Bool := false        -- variant: `get_page_tree` skips `ordered_subpage` entries that leave the page's directory
  dir : Path := []                -- project directory (absolute, physical)
  links : List (Path × Path) := []
  out : Str := []                 -- raw `output_dir`
  gdir : Option Str := none       -- raw `graph_dir`
  graph : Bool := false
  search : Bool := false
  inclSrc : Bool := false
  externalize : Bool := false
  css : Bool := false
  mathjax : Option Str := none    -- raw `mathjax_config`
  srcDirs : List Str := []        -- raw `src_dir` entries
  outKind : Nat := 0              -- 0 absent, 1 regular file, 2 directory
  outMissing : Nat := 0           -- missing proper ancestors of the output dir
  gMissing : Nat := 0
  pre : List Path := []           -- paths existing before the run (outside the output dir)
  old : List OldLink := []        -- symbolic links in the old output directory / in the graph directory
  deriving Repr

structure PCopy where
  item : Str
  tree : Option Tree              -- none: source directory unreadable
  deriving Repr

structure Page where
  loc : List Seg                  -- `PageNode.location`, as path components (`.` is `[]`)
  stem : Str                      -- file name without `.md`
  copies : List PCopy
  files : List Str
  deriving Repr

structure Site where
  libs : List Tree := []                  -- listings of `Generated.C19.libDirs` (css, js, webfonts) of the installation
  searchTree : Tree := ⟨[], [], []⟩
  mediaTree : Option Tree := none         -- none: no media_dir / unreadable
  docs : List (Str × Str × Nat) := []     -- (get_dir(), entity name, homonym number)
  lists : List Str := []                  -- `out_page` of the list pages
  srcFiles : List Str := []               -- `src.path` of every file of `project.allfiles` (where the file is)
  pages : List Page := []
  graphs : List Str := []                 -- `imgfile` of every graph that is saved
  deriving Repr

def outDir (c : Cfg) : Path := normalisePath c.links c.dir c.out
def graphDir (c : Cfg) : Option Path := c.gdir.map (normalisePath c.links c.dir)
def srcDirsN (c : Cfg) : List Path := c.srcDirs.map (normalisePath c.links c.dir)

/-- `parse_arguments` 361-367 -/
def refuses (c : Cfg) : Bool :=
  (srcDirsN c).any (fun d => (d :: parents d).contains (outDir c))

/-- graphviz `render` + rename, for one graph; `skip` = the paths at which `_create_image_file`
    finds a symbolic link and therefore writes nothing (empty for the code as it is, see
    `staleSkips`) -/
def graphOps (skip : List Path) (g : Path) (name : Str) : List Prim :=
  if skip.contains (sub g name) || skip.contains (sub g (name ++ ".svg".toList)) then []
  else
  [⟨.mk, g⟩, ⟨.wr, sub g name⟩, ⟨.wr, sub g (name ++ ".svg".toList)⟩,
   ⟨.mvFrom, sub g name⟩, ⟨.mvTo, sub g (name ++ ".gv".toList)⟩]

/-- emptying the output directory entry by entry
    (`for e in out_dir.iterdir(): rmtree(e, ignore_errors=True) if e.is_dir() else e.unlink()`) instead of
    removing it: `is_dir()` follows a symbolic link and `rmtree` refuses to work on one, so a link
    to a directory that is an entry of the output directory itself is left alone (links deeper down
    go with their real parent directory, which is removed without following them) -/
def survivesEntrywise (o : Path) (l : OldLink) : Bool := l.loc.dropLast == o && l.isDir

/-- the symbolic links that are still there when the run starts to write.  `whole`: the clean-up is
    `shutil.rmtree(out_dir)` on the output directory itself (generated constant `wipeWholeTree`),
    which unlinks every link below it without following it.  Links that are not below the output
    directory (the graph directory is never cleaned) and links whose removal fails stay. -/
def survivorsW (whole : Bool) (c : Cfg) : List OldLink :=
  c.old.filter (fun l => !(outDir c).isPrefixOf l.loc || l.kept || (!whole && survivesEntrywise (outDir c) l))

def survivors (c : Cfg) : List OldLink := survivorsW Generated.C19.wipeWholeTree c

/-- the links `_create_image_file` refuses to write through: none unless it tests `is_symlink`
    (`skipLinks` = generated constant `graphSkipsLinks`); the test sees the links that are still there
    when the graphs are written (a graph directory inside the output directory has been wiped with it) -/
def staleSkips (skipLinks : Bool) (c : Cfg) : List Path := if skipLinks then (survivors c).map (·.loc) else []

def isProperPrefix (o p : Path) : Bool := o.isPrefixOf p && o.length < p.length

/-- the guard of `PagetreePage.writeout`: `self.out_dir in target.parents`, `parents` as pathlib
    defines it (component-wise, proper ancestors only) -/
def guardAccepts (o dst : Path) : Bool := (parents dst).contains o

/-- a path as the string the OS / `os.fspath` shows -/
def pathStr (p : Path) : Str := if p = [] then ['/'] else p.flatMap (fun s => '/' :: s)

/-- the tempting textual version of the guard: `str(target).startswith(str(out_dir))` -/
def strPrefixGuard (o dst : Path) : Bool := (pathStr o).isPrefixOf (pathStr dst)

/-- one page-level `copy_subdir` item; `created` are the directories made so far -/
def pcopyOps (c : Cfg) (o : Path) (to : List Seg) (created : List Path) (pc : PCopy) : List Prim :=
  let dst := norm (joinRaw to pc.item)
  if c.repaired && !guardAccepts o dst then []        -- `if self.out_dir not in target.parents: continue`
  else match pc.tree with
    | none => []
    | some t =>
      if (c.pre.contains dst || created.contains dst) && !Generated.C19.copytreeDirsExistOk then [⟨.mk, dst⟩]
      else copyTree dst t

def mkPaths (l : List Prim) : List Path := (l.filter (fun p => p.kind = .mk)).map (·.path)

def pcopiesOps (c : Cfg) (o : Path) (to : List Seg) : List Path → List PCopy → List Prim
  | _, [] => []
  | created, pc :: r =>
    let ops := pcopyOps c o to created pc
    ops ++ pcopiesOps c o to (mkPaths ops ++ created) r

/-- `PagetreePage.writeout` -/
def pageOps (c : Cfg) (o : Path) (created : List Path) (pg : Page) : List Prim :=
  let to := o ++ ["page".toList] ++ pg.loc
  (if pg.stem = "index".toList then [⟨.mk, norm to⟩] else []) ++
  [⟨.wr, norm (to ++ [pg.stem ++ ".html".toList])⟩] ++
  pcopiesOps c o to ((if pg.stem = "index".toList then [norm to] else []) ++ created) pg.copies ++
  pg.files.flatMap (fun f => copyFile (norm (to ++ splitSlash f)))

def pagesOps (c : Cfg) (o : Path) : List Path → List Page → List Prim
  | _, [] => []
  | created, pg :: r =>
    let ops := pageOps c o created pg
    ops ++ pagesOps c o (mkPaths ops ++ created) r

/-- `Documentation.writeout` followed by `dump_modules` -/
def writeOpsW (skipLinks : Bool) (c : Cfg) (s : Site) : List Prim :=
  let o := outDir c
  (if c.outKind = 1 then [⟨.rm, o⟩] else [⟨.rmtree, o⟩]) ++
  mkdirP o c.outMissing ++
  Generated.C19.outDirs.map (fun d => ⟨.mk, sub o d⟩) ++
  (Generated.C19.libDirs.zip s.libs).flatMap (fun l => copyTree (sub o l.1) l.2) ++
  (if c.graph then
     match graphDir c with
     | some g => mkdirP g c.gMissing ++ s.graphs.flatMap (graphOps (staleSkips skipLinks c) g)
     | none => []
   else []) ++
  (if c.search then copyTree (sub o "search".toList) s.searchTree ++
      [⟨.wr, sub o "search/search_database.json".toList⟩] else []) ++
  (match s.mediaTree with | some t => copyTree (sub o "media".toList) t | none => []) ++
  (if c.css then copyFile (sub o "css/user.css".toList) else []) ++
  copyFile (sub o "favicon.png".toList) ++
  (if c.inclSrc then s.srcFiles.flatMap (fun n => copyFile (norm (o ++ ["src".toList] ++ [baseName n]))) else []) ++
  (match c.mathjax with
   | some m =>
     let mj := sub o "js/MathJax-config".toList
     ⟨.mk, mj⟩ :: copyFile (norm (mj ++ [(normalisePath c.links c.dir m).getLastD []]))
   | none => []) ++
  s.docs.map (fun d => ⟨.wr, norm (o ++ splitSlash d.1 ++ [identFile d.2.1 d.2.2])⟩) ++
  s.lists.map (fun l => ⟨.wr, norm (o ++ ["lists".toList] ++ splitSlash l)⟩) ++
  pagesOps c o [] s.pages ++
  [⟨.wr, sub o "index.html".toList⟩, ⟨.wr, sub o "search.html".toList⟩] ++
  (if c.externalize then [⟨.wr, sub o "modules.json".toList⟩] else [])

def writeOps (c : Cfg) (s : Site) : List Prim := writeOpsW Generated.C19.graphSkipsLinks c s

/-- the whole run: refusal happens in `parse_arguments`, before anything else -/
def runW (skipLinks : Bool) (c : Cfg) (s : Site) : List Prim :=
  if refuses c then [] else writeOpsW skipLinks c s

def run (c : Cfg) (s : Site) : List Prim := runW Generated.C19.graphSkipsLinks c s

/-! ### what is left in the directories the run writes to, and where the attempts really land -/

/-- follow the symbolic links of a table along a path that is already lexically resolved -/
def followAux (links : List (Path × Path)) : List Seg → List Seg → Path
  | st, [] => st.reverse
  | st, s :: r =>
    match links.lookup (s :: st).reverse with
    | some t => followAux links t.reverse r
    | none => followAux links (s :: st) r

/-- `open`, `chmod`, `utime` act on what a link in the last component points to; `mkdir`, `unlink`,
    `rmtree`, `rename`, `symlink` act on the entry itself -/
def followsLast : PK → Bool
  | .wr | .chmod | .utime => true
  | _ => false

/-- where the OS performs an attempt, given the symbolic links that exist -/
def physical (ls : List OldLink) (k : PK) (p : Path) : Path :=
  let tbl := ls.map (fun l => (l.loc, l.target))
  if followsLast k then followAux tbl [] p
  else match p.getLast? with
    | some last => followAux tbl [] p.dropLast ++ [last]
    | none => []

/-- the run as the file system sees it: the clean-up (first attempt) acts on the output directory
    itself; every later attempt is resolved through the links that survived it.  `fatal`: a failing
    `out_dir.mkdir` - the directory is still there because a removal failed - ends the run
    (generated constant `wipeFailureFatal`; the code as it is prints a message and goes on). -/
def runPhysW (whole fatal skipLinks : Bool) (c : Cfg) (s : Site) : List Prim :=
  match runW skipLinks c s with
  | [] => []
  | w :: r =>
    if fatal && c.old.any (fun l => (outDir c).isPrefixOf l.loc && l.kept) then w :: r.take 1
    else w :: r.map (fun p => ⟨p.kind, physical (survivorsW whole c) p.kind p.path⟩)

def runPhys (c : Cfg) (s : Site) : List Prim :=
  runPhysW Generated.C19.wipeWholeTree Generated.C19.wipeFailureFatal Generated.C19.graphSkipsLinks c s

/-! ### the property vocabulary -/

/-- an attempt is allowed if its target lies in the output directory or the
    graph directory, or it is the creation of a (missing) ancestor directory of one of them -/
def Allowed (o : Path) (g : Option Path) (p : Prim) : Prop :=
  o <+: p.path ∨ (∃ gd, g = some gd ∧ gd <+: p.path) ∨
  (p.kind = .mk ∧ (p.path <+: o ∨ ∃ gd, g = some gd ∧ p.path <+: gd))

/-- names that come from directory listings and fixed strings cannot climb -/
structure SiteOk (s : Site) : Prop where
  libs : ∀ l ∈ s.libs, (∀ e ∈ l.walk, safeRel e.2 = true) ∧ ∀ e ∈ l.touch, safeRel e = true
  search : (∀ e ∈ s.searchTree.walk, safeRel e.2 = true) ∧ ∀ e ∈ s.searchTree.touch, safeRel e = true
  media : ∀ t, s.mediaTree = some t → (∀ e ∈ t.walk, safeRel e.2 = true) ∧ ∀ e ∈ t.touch, safeRel e = true
  docs : ∀ d ∈ s.docs, safeRel d.1 = true
  lists : ∀ l ∈ s.lists, safeRel l = true
  graphs : ∀ n ∈ s.graphs, '/' ∉ n ∧ n ≠ dotdot
  pages : ∀ pg ∈ s.pages, safe 0 pg.loc = true ∧ (∀ f ∈ pg.files, safeRel f = true) ∧
    ∀ pc ∈ pg.copies, ∀ t, pc.tree = some t → (∀ e ∈ t.walk, safeRel e.2 = true) ∧ ∀ e ∈ t.touch, safeRel e = true

/-- the defect class: a `copy_subdir` item that is absolute (pathlib: replaces the target
    directory; this is what project-level `copy_subdir` becomes after `normalise_paths`) or that
    climbs out of the output directory with `..` -/
def copyEscapes (pg : Page) (pc : PCopy) : Bool :=
  pc.item.head? = some '/' || !safe 0 ("page".toList :: pg.loc ++ splitSlash pc.item)

def noEscape (s : Site) : Bool :=
  s.pages.all (fun pg => pg.copies.all (fun pc => !copyEscapes pg pc))

end Ford.Fs
