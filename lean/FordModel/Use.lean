/-
  Model of FORD's USE association (property C06), as the code is:

  * `FortranContainer.USE_RE`                       -> `parseUseStmt`
  * `FortranModule.ONLY_RE`, `RENAME_RE`            -> `onlyMatch`, `renameSearch`
  * `FortranModule.get_used_entities`               -> `parseRest`, `usedNames`, `getUsed`
  * `FortranModule._cleanup` (pub_* tables)         -> `cleanup`
  * `FortranCodeUnit.process_attribs` (public_list) -> `publicList`
  * `FortranCodeUnit.correlate` (USE import loop)   -> `correlate`
  * `Project.correlate` (ranklist loop)             -> `run`

  Python dicts are association lists with unique keys in insertion order
  (`aset` replaces in place or appends, `update` = `dict.update`).
  FORD keeps four tables per scope (procedures, abstract interfaces, types,
  variables) which are treated identically and independently; the model is
  parametrised by the kind `k` of table and is run once per kind.

  Defects of the code are reproduced, not repaired (see Props/C06.lean):
  renames of a USE without ONLY never consulted, `only:` with an empty list
  not recognised by ONLY_RE, `private :: imported` ignored on re-export, a
  remote name listed twice in an only-list keeps only its last local name.
  PUBLIC / PRIVATE / PROTECTED share one `permission` slot (the keyword met last
  stays), so a private variable whose last keyword is PROTECTED is exported.
-/
import FordModel.Basic.Chars
namespace Ford.Use
open Ford

/-! ### Python dict as association list -/

abbrev AList (α : Type) := List (Str × α)

def aget {α : Type} : AList α → Str → Option α
  | [], _ => none
  | (k, v) :: t, n => if k = n then some v else aget t n

/-- `d[n] = v` -/
def aset {α : Type} : AList α → Str → α → AList α
  | [], n, v => [(n, v)]
  | (k, w) :: t, n, v => if k = n then (k, v) :: t else (k, w) :: aset t n v

/-- `d.update(o)` -/
def update {α : Type} (d o : AList α) : AList α := o.foldl (fun d p => aset d p.1 p.2) d

/-! ### Abstract syntax the model runs on -/

inductive Perm | pub | priv | prot
  deriving DecidableEq, Repr

structure Decl where
  name : Str
  /-- 0 procedure, 1 abstract interface, 2 derived type, 3 variable -/
  kind : Nat
  /-- the access keywords (PUBLIC / PRIVATE / PROTECTED) the source gives the entity, in the order
      FORD meets them: the attribute list of the declaration from left to right
      (`line_to_variables`, `FortranType._initialize`), then the access / PROTECTED statements
      naming it in source order (`attr_dict[name]`, applied by `process_attribs`) -/
  accs : List Perm
  deriving DecidableEq, Repr

/-- one entry of a rename/only list, names lower-cased -/
inductive UItem
  | plain (n : Str)
  | ren (loc rem : Str)
  deriving DecidableEq, Repr

/-- a USE statement after `get_used_entities` has parsed the text behind the
    module name: `only = false ∧ items = []` is `use m`. -/
structure UseA where
  mod : Str
  only : Bool
  items : List UItem
  /-- variant switch (DESIGN 2.1): `false` = the code as it is (rename list of a USE without
      ONLY never consulted), `true` = the code after fixes/C06-rename-without-only.diff
      (`result[used_names.get(name, name)] = obj`).  The harness decides at run time which
      variant the working tree is. -/
  renAll : Bool := false
  deriving DecidableEq, Repr

structure Scope where
  name : Str
  /-- module (has pub tables, can be used) or program -/
  isMod : Bool
  /-- default accessibility is public (`self.permission == "public"`) -/
  defPub : Bool
  /-- names in `public ::` / `private ::` statements that are not declared locally -/
  pubNames : List Str
  privNames : List Str
  decls : List Decl
  uses : List UseA
  deriving Repr

/-- entity identity: (defining module, declared name) -/
abbrev Ent := Str × Str
abbrev Table := AList Ent

structure Tabs where
  pub : Table
  all : Table
  deriving Repr

abbrev State := AList Tabs

/-! ### `_cleanup` / `process_attribs` -/

/-- `item.permission`: ONE slot for PUBLIC, PRIVATE and PROTECTED.  It starts as the default
    accessibility of the scope (`inherited_permission`) and every access keyword overwrites it
    (`permission = tmp_attrib_lower` in `line_to_variables`, `var.permission = attr` in
    `process_attribs`), so the keyword met last stays: `integer, public, protected :: x` ends as
    "protected", `integer, protected, public :: x` as "public". -/
def declPerm (m : Scope) (d : Decl) : Perm :=
  d.accs.foldl (fun _ p => p) (if m.defPub then .pub else .priv)

/-- the word FORD stores in the slot -/
def Perm.word : Perm → Str
  | .pub => ['p', 'u', 'b', 'l', 'i', 'c']
  | .priv => ['p', 'r', 'i', 'v', 'a', 't', 'e']
  | .prot => ['p', 'r', 'o', 't', 'e', 'c', 't', 'e', 'd']

/-- `item.permission in ["public", "protected"]` -/
def declExported (m : Scope) (d : Decl) : Bool := declPerm m d != .priv

/-- `public_list`: declared entities (of every kind) whose permission is
    "public", then the leftover names carrying a `public` attribute. -/
def publicList (m : Scope) : List Str :=
  ((m.decls.filter (fun d => declPerm m d == .pub)).map (·.name)) ++ m.pubNames

def declsOf (k : Nat) (m : Scope) : List Decl := m.decls.filter (fun d => d.kind == k)

def tableOf (m : Scope) (ds : List Decl) : Table :=
  ds.foldl (fun t d => aset t d.name (m.name, d.name)) []

def cleanup (k : Nat) (m : Scope) : Tabs :=
  { all := tableOf m (declsOf k m)
    pub := if m.isMod then tableOf m ((declsOf k m).filter (declExported m)) else [] }

/-! ### `get_used_entities` -/

/-- `used_names`: remote name -> local name -/
def usedNames (items : List UItem) : AList Str :=
  items.foldl (fun u it => match it with
    | .ren l r => aset u r l
    | .plain p => aset u p p) []

def usedStep (only renAll : Bool) (used : AList Str) (res : Table) (p : Str × Ent) : Table :=
  if only then
    match aget used p.1 with
    | some l => aset res l p.2
    | none => res
  else aset res (if renAll then (aget used p.1).getD p.1 else p.1) p.2

/-- one of the four tables returned by `get_used_entities` -/
def getUsed (u : UseA) (pub : Table) : Table :=
  if u.only = false ∧ u.items = [] then pub
  else pub.foldl (usedStep u.only u.renAll (usedNames u.items)) []

/-- the tuple `(ret_procs, ret_absints, ret_types, ret_vars)` returned by `get_used_entities`: every
    table of exported entities (`pub_procs`, `pub_absints`, `pub_types`, `pub_vars`) is filtered and
    renamed on its own, by the same `used_names`.  One identifier may sit in several of them - a derived
    type and the generic interface of the same name (its constructor) are an entry of `pub_types` and
    an entry of `pub_procs`. -/
def getUsedAll (u : UseA) (pubs : List Table) : List Table := pubs.map (getUsed u)

/-! ### `correlate` -/

def findMod (g : List Scope) (n : Str) : Option Scope :=
  g.find? (fun m => m.isMod && m.name == n)

def getTabs (st : State) (n : Str) : Tabs := (aget st n).getD { pub := [], all := [] }

/-- `should_be_public(name)` of `correlate` -/
def shouldBePublic (m : Scope) (n : Str) : Bool := m.defPub || (publicList m).contains n

def useStep (g : List Scope) (st : State) (m : Scope) (t : Tabs) (u : UseA) : Tabs :=
  match findMod g u.mod with
  | none => t
  | some n =>
    let imp := getUsed u (getTabs st n.name).pub
    { pub := if m.isMod then update t.pub (imp.filter (fun p => shouldBePublic m p.1)) else t.pub
      all := update t.all imp }

def correlate (g : List Scope) (st : State) (m : Scope) : Tabs :=
  m.uses.foldl (useStep g st m) (getTabs st m.name)

def findScope (g : List Scope) (n : Str) : Option Scope := g.find? (fun m => m.name == n)

def step (g : List Scope) (st : State) (n : Str) : State :=
  match findScope g n with
  | none => st
  | some m => aset st n (correlate g st m)

def init (k : Nat) (g : List Scope) : State :=
  g.foldl (fun st m => aset st m.name (cleanup k m)) []

/-- `for container in ranklist: container.correlate(self)` -/
def run (k : Nat) (g : List Scope) (order : List Str) : State :=
  order.foldl (step g) (init k g)

/-! ### host association: contained procedures

  `FortranCodeUnit.correlate` of a module procedure / internal procedure starts from a copy of
  its host's `all_*` tables, overlays its own declarations, runs the same USE loop (so a name
  obtained by USE replaces a host-associated entry of that name) and is reached by the recursion
  at the end of its host's `correlate`, i.e. inside the `ranklist` step of its root module. -/

/-- a contained procedure: `root` is the module or program whose `correlate` recursion reaches
    it, `host` the immediately enclosing scope (the root, or another contained procedure) -/
structure Nested where
  root : Str
  host : Str
  scope : Scope
  deriving Repr

/-- top of `correlate`: `{**parent.all_procs, **self.all_procs}`, `dict(parent.all_types)` + own -/
def nestedStart (k : Nat) (hostAll : Table) (p : Scope) : Tabs :=
  { pub := [], all := update hostAll (tableOf p (declsOf k p)) }

/-- `correlate` of a contained procedure whose host's table is `hostAll` -/
def correlateNested (g : List Scope) (st : State) (k : Nat) (hostAll : Table) (p : Scope) : Tabs :=
  p.uses.foldl (useStep g st p) (nestedStart k hostAll p)

def stepNested (g : List Scope) (k : Nat) (st : State) (x : Nested) : State :=
  aset st x.scope.name (correlateNested g st k (getTabs st x.host).all x.scope)

/-- one `container.correlate(project)` of the ranklist loop, including the recursion into the
    contained procedures of that container (`ns` lists a host before its children) -/
def stepN (g : List Scope) (ns : List Nested) (k : Nat) (st : State) (n : Str) : State :=
  (ns.filter (fun x => x.root == n)).foldl (stepNested g k) (step g st n)

def runN (k : Nat) (g : List Scope) (ns : List Nested) (order : List Str) : State :=
  order.foldl (stepN g ns k) (init k g)

/-! ### The regular expressions, as deterministic scanners -/

def spanWord : Str → Str × Str
  | [] => ([], [])
  | c :: cs => if isWord c then let (w, r) := spanWord cs; (c :: w, r) else ([], c :: cs)

/-- tail of `ONLY_RE` after the colon: `\s*(?=[^,])` with its backtracking
    (a blank can serve as the look-ahead character). Returns what is left
    of the string after the match. -/
def onlyTail : Str → Option Str
  | [] => none
  | c :: cs =>
    if isSpace c then
      match onlyTail cs with
      | some r => some r
      | none => some (c :: cs)
    else if c == ',' then none else some (c :: cs)

/-- `ONLY_RE.match(s)`; `some rest` = `ONLY_RE.sub("", s)` when it matches. -/
def onlyMatch (s : Str) : Option Str :=
  match lstrip s with
  | ',' :: r1 =>
    match lstrip r1 with
    | o :: n :: l :: y :: r2 =>
      if lower [o, n, l, y] = ['o', 'n', 'l', 'y'] then
        match lstrip r2 with
        | ':' :: r3 => onlyTail r3
        | _ => none
      else none
    | _ => none
  | _ => none

/-- `(\w+)\s*=>\s*(\w+)` anchored at the head of `s` -/
def renameAt (s : Str) : Option (Str × Str) :=
  let (w1, r) := spanWord s
  if w1 = [] then none
  else match lstrip r with
    | '=' :: '>' :: r2 =>
      let (w2, _) := spanWord (lstrip r2)
      if w2 = [] then none else some (w1, w2)
    | _ => none

/-- `RENAME_RE.search(s)` : leftmost match -/
def renameSearch : Str → Option (Str × Str)
  | [] => none
  | c :: cs =>
    match renameAt (c :: cs) with
    | some x => some x
    | none => renameSearch cs

def splitCommaAux : Str → Str → List Str
  | [], cur => [cur.reverse]
  | c :: cs, cur => if c == ',' then cur.reverse :: splitCommaAux cs [] else splitCommaAux cs (c :: cur)

/-- `s.split(",")` -/
def splitComma (s : Str) : List Str := splitCommaAux s []

def parseItem (it : Str) : UItem :=
  let it := strip it
  match renameSearch it with
  | some (l, r) => .ren (lower l) (lower r)
  | none => .plain (lower it)

/-- front half of `get_used_entities(use_specs)` : (only, items) -/
def parseRest (rest : Str) : Bool × List UItem :=
  if strip rest = [] then (false, [])
  else
    match onlyMatch rest with
    | some t => (true, (splitComma t).map parseItem)
    | none => (false, (splitComma rest).map parseItem)

def mkUse (mod rest : Str) (fixed : Bool := false) : UseA :=
  let p := parseRest rest
  { mod := lower mod, only := p.1, items := p.2, renAll := fixed }

/-- `^use(?:\s*(?:,\s*(?:non_)?intrinsic\s*)?::\s*|\s+)(\w+)\s*($|,.*)` (re.match,
    IGNORECASE) on a statement without newline: (module name, rest). -/
def useTail (s : Str) : Option (Str × Str) :=
  let (w, r) := spanWord s
  if w = [] then none
  else match lstrip r with
    | [] => some (w, [])
    | ',' :: r2 => some (w, ',' :: r2)
    | _ => none

def dropPrefixCI (p : Str) (s : Str) : Option Str :=
  if lower (s.take p.length) = p ∧ p.length ≤ s.length then some (s.drop p.length) else none

/-- after `use`: first alternative `\s*(?:,\s*(?:non_)?intrinsic\s*)?::\s*` -/
def useAlt1 (s : Str) : Option (Str × Str) :=
  let s1 := lstrip s
  let afterAttr : Option Str :=
    match s1 with
    | ',' :: r =>
      let r := lstrip r
      let r' := match dropPrefixCI "non_".toList r with | some x => x | none => r
      match dropPrefixCI "intrinsic".toList r' with
      | some x => some (lstrip x)
      | none => none
    | _ => some s1
  match afterAttr with
  | some (':' :: ':' :: r) => useTail (lstrip r)
  | _ => none

def parseUseStmt (line : Str) : Option (Str × Str) :=
  match dropPrefixCI "use".toList line with
  | none => none
  | some s =>
    match useAlt1 s with
    | some x => some x
    | none =>
      -- second alternative `\s+`
      match s with
      | c :: _ => if isSpace c then useTail (lstrip s) else none
      | [] => none

end Ford.Use
