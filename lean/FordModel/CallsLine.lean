/-
  C08, the `;` clause: from a completed logical line to the statements the cascade sees
  (ford/reader.py, end of `FortranReader.__next__`: `quote_split(";", linebuffer)`, empty
  fragments dropped, every fragment stripped), composed with the call-recording model.
  `quoteSplit` itself is the mirror of `ford.utils.quote_split` in Basic/Split.lean.
-/
import FordModel.Basic.Split
import FordModel.CallsTable
namespace Ford.Calls
open Ford

/-- `[s.strip() for s in quote_split(";", linebuffer) if len(s) > 0]` -/
def lineStatements (J : Str) : List Str :=
  ((quoteSplit ';' J).filter (fun f => !f.isEmpty)).map strip

/-- the statements of a unit body given as completed logical lines (continuations joined) -/
def unitStatements (logical : List Str) : List Str := logical.flatMap lineStatements

/-- the recorded call chains of a unit whose body consists of the logical lines `logical` -/
def recordedLines (logical : List Str) : List Chain := recorded (unitStatements logical)

def recordedOfLines (lines : List String) : List (List String) :=
  (recordedLines (lines.map String.toList)).map (fun c => c.map String.ofList)

end Ford.Calls
