/-
  C08, the `;` clause: from a completed logical line to the statements the cascade sees
  (ford/reader.py, end of `FortranReader.__next__`: `quote_split(";", linebuffer)`, empty
  fragments dropped, every fragment stripped), composed with the call-recording model.
  `quoteSplit` itself is the mirror of `ford.utils.quote_split` in Basic/Split.lean.
-/
import FordModel.Basic.Split
import FordModel.Reader
import FordModel.Fixed
import FordModel.CallsTable
namespace Ford.Calls
open Ford

/-- `[s.strip() for s in quote_split(";", linebuffer) if len(s) > 0]` -/
def lineStatements (J : Str) : List Str :=
  ((quoteSplit ';' J).filter (fun f => !f.isEmpty)).map strip

/-- the statements of a unit body given as completed logical lines (continuations joined) -/
def unitStatements (logical : List Str) : List Str := logical.flatMap lineStatements

/-- the recorded call chains of a unit whose body consists of the logical lines `logical` -/
def recordedLines (logical : List Str) : List Chain := recorded (unitStatements logical)

def recordedOfLines (lines : List String) : List (List String) :=
  (recordedLines (lines.map String.toList)).map (fun c => c.map String.ofList)

/-! ### continued lines (round 5)

  From the *physical* lines of a unit body to its statements: the reader of ford/reader.py
  (`FortranReader.__next__`: comment removal, `&` continuation - a leading `&` on the next line
  resumes the statement right behind it, its absence joins with one blank; the text in front of a
  trailing `&`, blanks included, belongs to the statement - then `quote_split(";", .)`).  The
  model is `Ford.readAll` of `Reader.lean` (shared with C02) with the default doc marks; doc
  comments (`!!...`, delivered by the reader as items of their own) are not statements. -/

/-- the statements the reader delivers for the physical lines `phys` (doc-comment items dropped);
    `[]` when the reader raises -/
def physStatements (phys : List Str) : List Str :=
  match readAll Marks.default phys with
  | .ok items => items.filter (fun s => s.head? != some '!')
  | .error _ => []

/-- the recorded call chains of a unit whose body consists of the physical lines `phys` -/
def recordedPhysical (phys : List Str) : List Chain := recorded (physStatements phys)

def recordedOfPhysical (lines : List String) : List (List String) :=
  (recordedPhysical (lines.map String.toList)).map (fun c => c.map String.ofList)

/-! ### fixed-form source (round 6)

  A fixed-form file (`.f`, `.for`, ...) reaches the reader through `ford/fixed2free2.py`
  (`convertToFree`, model `Ford.Fixed.convertToFree` of Fixed.lean, shared with C14): the label
  field is put in front of the statement field, a card that is continued gets ` &`, and - with
  `fixed_length_limit` on - what stands in columns 73+ of a card goes behind a `!` that is placed
  in column 73 or later.  The statements of a unit body written as cards are what the reader
  delivers for the converted lines. -/

/-- the statements the reader delivers for the fixed-form cards `cards` (each with its line
    terminator) under converter variant `v` and length limit `lim` -/
def fixedStatements (v : Fixed.Variant) (lim : Bool) (cards : List Str) : List Str :=
  physStatements ((Fixed.convertToFree v lim cards).map Fixed.dropNL)

/-- the recorded call chains of a unit whose body consists of the fixed-form cards `cards` -/
def recordedFixed (v : Fixed.Variant) (lim : Bool) (cards : List Str) : List Chain :=
  recorded (fixedStatements v lim cards)

/-- cards given without line terminator, code as it is after the C14 repair, limit on -/
def recordedOfFixed (cards : List String) : List (List String) :=
  (recordedFixed Fixed.Variant.repaired true (cards.map (fun c => c.toList ++ ['\n']))).map
    (fun c => c.map String.ofList)

end Ford.Calls
