/-
  C18 - `ford/sourceform.py: line_to_variables` as a whole: the statement with its literals cut out
  (`Show.prepLine`) goes through `parse_type` (`TypeSpec.parseType`: type, kind, length, and the *rest* of the
  line), the rest is split into the attribute list and the entity list (`ATTRIBSPLIT_RE`, or `ATTRIBSPLIT2_RE` for a
  declaration without attributes - with or without `::`), every attribute is either turned into a field of its own
  (visibility, `optional`, `parameter`, `intent`) by the if-chain of the loop - regenerated as
  `Generated.C18.declAttrRules` - or kept as written, and each entity becomes a variable (`Show.decAll`).
  Mirrors the code *as it is*.
-/
import FordModel.Show
import FordModel.TypeSpec
namespace Ford.DeclLine
open Ford Ford.Show

/-- what a branch of the if-chain does with the attribute it recognises -/
inductive AttrAction where
  | permission            -- `permission = tmp_attrib_lower`
  | optional              -- `optional = True`
  | parameter             -- `parameter = True`
  | intent (v : Str)      -- `intent = "<v>"`
  deriving DecidableEq, Repr

abbrev Rules := List (Str × AttrAction)

structure DeclAttrs where
  attribs : List Str
  intent : Str
  optional : Bool
  permission : Str
  parameter : Bool
  deriving DecidableEq, Repr

def DeclAttrs.init (perm : Str) : DeclAttrs := ⟨[], [], false, perm, false⟩

/-- `tmp_attrib.lower().replace(" ", "")` -/
def normAttr (a : Str) : Str := (lower a).filter (· != ' ')

def lookupRule : Rules → Str → Option AttrAction
  | [], _ => none
  | (k, act) :: r, t => if k == t then some act else lookupRule r t

/-- one turn of the loop `for tmp_attrib in tmp_attribs` -/
def classifyOne (rules : Rules) (st : DeclAttrs) (a : Str) : DeclAttrs :=
  match lookupRule rules (normAttr a) with
  | some .permission => { st with permission := normAttr a }
  | some .optional => { st with optional := true }
  | some .parameter => { st with parameter := true }
  | some (.intent v) => { st with intent := v }
  | none => { st with attribs := st.attribs ++ [a] }

def classify (rules : Rules) (perm : Str) (as : List Str) : DeclAttrs :=
  as.foldl (classifyOne rules) (DeclAttrs.init perm)

/-! specification side: what the if-chain makes of an attribute as written -/
def isPlain (rules : Rules) (a : Str) : Bool := (lookupRule rules (normAttr a)).isNone

def isOptRule (rules : Rules) (a : Str) : Bool :=
  match lookupRule rules (normAttr a) with
  | some .optional => true
  | _ => false

def isParamRule (rules : Rules) (a : Str) : Bool :=
  match lookupRule rules (normAttr a) with
  | some .parameter => true
  | _ => false

def isIntentRule (rules : Rules) (a : Str) : Bool :=
  match lookupRule rules (normAttr a) with
  | some (.intent _) => true
  | _ => false

def isPermRule (rules : Rules) (a : Str) : Bool :=
  match lookupRule rules (normAttr a) with
  | some .permission => true
  | _ => false

/-- split at the first `::` -/
def splitColons : Str → Option (Str × Str)
  | [] => none
  | [_] => none
  | c :: d :: r =>
    if c == ':' && d == ':' then some ([], r)
    else
      match splitColons (d :: r) with
      | some (b, a) => some (c :: b, a)
      | none => none

/-- `ATTRIBSPLIT_RE.match(rest)` with ATTRIBSPLIT_RE = `,\s*(\w.*?)::\s*(.*)\s*`: the two groups, stripped as the
    code strips them (no line feed in `rest`) -/
def attribSplit (rest : Str) : Option (Str × Str) :=
  match rest with
  | ',' :: r =>
    match TypeSpec.skipWs r with
    | c :: cs =>
      if isWord c then
        match splitColons cs with
        | some (b, a) => some (strip (c :: b), strip a)
        | none => none
      else none
    | [] => none
  | _ => none

/-- `ATTRIBSPLIT2_RE.match(rest).group(2)` with ATTRIBSPLIT2_RE = `\s*(::)?\s*(.*)\s*` -/
def attribSplit2 (rest : Str) : Str :=
  match TypeSpec.skipWs rest with
  | ':' :: ':' :: t => TypeSpec.skipWs t
  | r => r

structure VarFull where
  name : Str
  dimension : Str
  points : Bool
  initial : Option Str
  attrs : DeclAttrs
  vartype : Str
  kind : Option Str
  strlen : Option Str
  proto : Option (Str × Str)
  deriving DecidableEq, Repr

inductive LErr where
  | type (e : TypeSpec.TErr)
  | ent (e : RErr)
  deriving DecidableEq, Repr

/-- attribute list and entity list of the rest of the line -/
def splitRest (rules : Rules) (perm : Str) (rest : Str) : DeclAttrs × Str :=
  match attribSplit rest with
  | some (a, d) => (classify rules perm ((parenSplit ',' a).map strip), d)
  | none => (DeclAttrs.init perm, attribSplit2 rest)

/-- `line_to_variables(source, line, inherit_permission, parent)` for a statement as the reader delivers it
    (`lowerOpt`: the project option `lower`; `eqJoin`: see `Show.initParts`) -/
def lineVars (rules : Rules) (lowerOpt eqJoin : Bool) (perm : Str) (line : Str) : Except LErr (List VarFull) :=
  let p := prepLine lowerOpt line
  match TypeSpec.parseType p.masked with
  | .error e => .error (.type e)
  | .ok pt =>
    let sr := splitRest rules perm pt.rest
    match decAll p.strings (parenSplit ',' sr.2) eqJoin with
    | .error e => .error (.ent e)
    | .ok vs =>
      .ok (vs.map fun v => ⟨v.name, v.dimension, v.points, v.initial, sr.1, pt.vartype, pt.kind, pt.strlen, pt.proto⟩)

/-- specification side: the rules a declaration's attribute list is read by (Fortran 2018 R802 as far as FORD gives
    the attribute a field of its own) -/
def rulesSpec : Rules :=
  [(['p','u','b','l','i','c'], .permission), (['p','r','i','v','a','t','e'], .permission),
   (['p','r','o','t','e','c','t','e','d'], .permission), (['o','p','t','i','o','n','a','l'], .optional),
   (['p','a','r','a','m','e','t','e','r'], .parameter),
   (['i','n','t','e','n','t','(','i','n',')'], .intent ['i','n']),
   (['i','n','t','e','n','t','(','o','u','t',')'], .intent ['o','u','t']),
   (['i','n','t','e','n','t','(','i','n','o','u','t',')'], .intent ['i','n','o','u','t'])]

end Ford.DeclLine
