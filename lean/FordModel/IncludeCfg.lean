/-
  The configuration of the include queue (FordModel/Include.lean) as regenerated from
  ford/reader.py by translate/c02.py.
-/
import FordModel.Include
import FordModel.Generated.C02
namespace Ford.Include

/-- where `FortranReader.__next__` calls `self.include()` and which variant of the pops the tree has -/
def readerCfg : Cfg :=
  { incPrologue := Generated.C02.incPrologue, incEpilogue := Generated.C02.incEpilogue,
    guarded := Generated.C02.popsGuarded, kwLoose := Generated.C02.includeKwLoose }

end Ford.Include
