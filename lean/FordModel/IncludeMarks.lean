/-
  C03's part of `include` expansion: with which markers the nested reader that reads an included file is
  constructed.  `FortranReader.include()` builds `FortranReader(name, <docmark>, <predocmark>, <docmark_alt>,
  <predocmark_alt>, ...)`; where each of the four arguments comes from is regenerated from the code on every run
  (`Gen.includeMarkSrc`, translate/c03.py: probed with a spy on the constructor).  The queue mechanics of
  `include()` itself (`drain`, `feedI`, `readFromI`, the configuration `Include.readerCfg`) are C02's model
  (FordModel/Include.lean) and are reused, not copied; only the recursion over the file system is restated here
  with the marker hand-over made explicit.
-/
import FordModel.Include
import FordModel.IncludeCfg
import FordModel.Generated.C03
namespace Ford.IncMarks
open Ford Ford.Include

/-- marker number `i` of a configuration (the order of the constructor's parameters) -/
def markAt (m : Marks) : Nat → Str
  | 0 => m.doc
  | 1 => m.pre
  | 2 => m.alt
  | 3 => m.preAlt
  | _ => []

/-- one constructor argument of the nested reader -/
def pick (m : Marks) : Sum Nat Str → Str
  | .inl i => markAt m i
  | .inr s => s

/-- the marker configuration of the reader that reads an included file, given the enclosing reader's -/
def nestedMarks (tbl : List (Sum Nat Str)) (m : Marks) : Marks :=
  { doc := pick m (tbl.getD 0 (.inr [])), pre := pick m (tbl.getD 1 (.inr [])),
    alt := pick m (tbl.getD 2 (.inr [])), preAlt := pick m (tbl.getD 3 (.inr [])) }

/-- `list(FortranReader(file, *m))` for a file with physical lines `lines` whose include statements are looked
    up in `fs`; an included file is read by a nested reader constructed with `nestedMarks tbl m` (and that
    reader's own includes with `nestedMarks tbl (nestedMarks tbl m)`, ...).  `depth` bounds the nesting. -/
def readFSM (tbl : List (Sum Nat Str)) (c : Cfg) (fs : FS) : Nat → Marks → List Str → Except IErr (List Str)
  | 0, _, _ => .error .depth
  | d + 1, m, lines =>
    readFromI c (fun name =>
      match lookupFS fs name with
      | none => if endsWithH name then .missingH else .failed .notFound
      | some ls =>
        match readFSM tbl c fs d (nestedMarks tbl m) ls with
        | .ok l => .items l
        | .error e => .failed e) m {} lines

end Ford.IncMarks
