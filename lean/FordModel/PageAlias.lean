/-
  C17 - model of the TEXT level of FORD's alias substitution, as the code is:
    ford/_markdown.py  AliasPreprocessor.ALIAS_RE, ._lookup, .run
  (`PageTree.linkHref` is the same mechanism seen from one link; this file is what happens to the
  lines of a page before Python-Markdown reads them.)

  `ALIAS_RE = (?<!\\)\|([^ ].*?[^ ]?)\|` is executed the way Python's backtracking matcher does:
  after the opening pipe and one non-blank character the lazy `.*?` is extended one character at a
  time, and at every length the optional `[^ ]?` is tried with one character first, then empty.
  `re.sub` scans from the left, replaces non-overlapping matches and continues behind each match.
  The second substitution of `run` (`\\(\|([^ ].*?[^ ]?)\|)` -> group 1) removes the escaping backslash.
  Nothing in `run` looks at anything but the single line: no state, no indentation, no block structure.
-/
import FordModel.Basic.Chars
namespace Ford.PA
open Ford

/-- `.*?[^ ]?\|` on the text that follows the first character of an alias:
    (the rest of group 1, number of characters consumed including the closing pipe) -/
def closeTail : Str → Option (Str × Nat)
  | [] => none
  | [x] => if x == '|' then some ([], 1) else none
  | x :: y :: r =>
    if x != ' ' && y == '|' then some ([x], 2)
    else if x == '|' then some ([], 1)
    else match closeTail (y :: r) with
      | some (g, n) => some (x :: g, n + 1)
      | none => none

/-- `([^ ].*?[^ ]?)\|` on the text that follows an opening pipe: (group 1, characters consumed) -/
def aliasAt : Str → Option (Str × Nat)
  | [] => none
  | c :: t =>
    if c == ' ' then none
    else match closeTail t with
      | some (g, n) => some (c :: g, n + 1)
      | none => none

/-- `AliasPreprocessor._lookup`: `self.aliases.get(m.group(1), f"|{m.group(1)}|")` -/
def lookupAlias (al : List (Str × Str)) (name : Str) : Str :=
  match al.lookup name with
  | some v => v
  | none => '|' :: name ++ ['|']

/-- `ALIAS_RE.sub(self._lookup, line)`.  `skip` = characters of the match being replaced that are
    still to be passed over, `bs` = the previous character is a backslash (the look-behind). -/
def subGo (al : List (Str × Str)) : Nat → Bool → Str → Str
  | _, _, [] => []
  | k + 1, _, _ :: t => subGo al k false t
  | 0, bs, c :: t =>
    if c == '|' && !bs then
      match aliasAt t with
      | some (name, n) => lookupAlias al name ++ subGo al n false t
      | none => c :: subGo al 0 false t
    else c :: subGo al 0 (c == '\\') t

/-- `re.sub(r"\\(\|([^ ].*?[^ ]?)\|)", r"\g<1>", line)`: the backslash of an escaped alias is
    dropped, the alias itself (`copy` characters) is copied verbatim. -/
def unescGo : Nat → Str → Str
  | _, [] => []
  | k + 1, c :: t => c :: unescGo k t
  | 0, c :: t =>
    if c == '\\' then
      match t with
      | '|' :: t1 =>
        (match aliasAt t1 with
         | some (_, n) => unescGo (n + 1) t
         | none => c :: unescGo 0 t)
      | _ => c :: unescGo 0 t
    else c :: unescGo 0 t

/-- the body of the loop of `AliasPreprocessor.run` for one line -/
def aliasLine (al : List (Str × Str)) (s : Str) : Str := unescGo 0 (subGo al 0 false s)

/-- `for line_num, line in enumerate(lines): ...; lines[line_num] = line` - `i` = `line_num`,
    second argument = what `enumerate` still has to deliver, third = the list being updated -/
def runGo (al : List (Str × Str)) : Nat → List Str → List Str → List Str
  | _, [], acc => acc
  | i, l :: rest, acc => runGo al (i + 1) rest (acc.set i (aliasLine al l))

/-- `AliasPreprocessor.run(lines)` -/
def aliasRun (al : List (Str × Str)) (lines : List Str) : List Str := runGo al 0 lines lines

/-- the previous-character state of `subGo` after it has copied `pre` -/
def bsAfter (b : Bool) (pre : Str) : Bool :=
  match pre.getLast? with
  | some c => c == '\\'
  | none => b

end Ford.PA
