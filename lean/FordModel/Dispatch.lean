/-
  Request dispatch for the driver (kept in the library so it is type-checked
  with the models).
-/
import FordModel.Proto
import FordModel.Reader
namespace Ford
open Proto

def rerrName : RErr → Str
  | .predocInline => "predoc-inline".toList
  | .predocAltInline => "predoc-alt-inline".toList
  | .altInline => "alt-inline".toList
  | .ampStart => "amp-start".toList
  | .internal => "internal".toList

def dispatchFields : List Str → List Str
  | cmd :: args =>
    if cmd == "read".toList then
      -- reader: read <doc> <pre> <alt> <preAlt> line*
      match args with
      | d :: p :: a :: pa :: lines =>
        match readAll { doc := d, pre := p, alt := a, preAlt := pa } lines with
        | .ok items => "ok".toList :: items
        | .error e => ["err".toList, rerrName e]
      | _ => ["bad-request".toList]
    else if cmd == "qsplit".toList then
      match args with
      | [sep, s] => "ok".toList :: quoteSplit (sep.headD ';') s
      | _ => ["bad-request".toList]
    else if cmd == "unterm".toList then
      match args with
      | [s] => ["ok".toList, if unterminated s then ['1'] else ['0']]
      | _ => ["bad-request".toList]
    else if cmd == "comscan".toList then
      match args with
      | [mark, s] => ["ok".toList, match comScan mark s with | some i => showNat i | none => "none".toList]
      | _ => ["bad-request".toList]
    else ["bad-request".toList]
  | [] => ["bad-request".toList]

def dispatch (line : String) : String := out (dispatchFields (fields line))

end Ford
