/-
  Statement-kind level model of `FortranContainer.__init__` (ford/sourceform.py):
  the `if/elif` cascade with its guards (`incontains`, `blocklevel`,
  `hasattr(self, "<list>")`, `isinstance` tests), the recursive descent into child
  containers and the END handling.  The recursion of the Python (a child
  constructor consumes the shared reader until its END) is expressed as an
  explicit stack of open containers, so the whole parser is a fold over the
  statement stream (`run`), i.e. structurally total.

  A statement is abstracted to the cascade branch whose regex accepts it
  (`Item`); which concrete statements map to which `Item` is established by
  the cascade table regenerated from the source (Generated/C01.lean) and by
  differential execution (harness/c01.py, stream `struct`).
-/
namespace Ford.Parse

/-- container classes -/
inductive CK
  | file | module | submodule | program | subroutine | function | modprocImpl
  | type | interface | enum | blockdata
  deriving DecidableEq, Repr, Inhabited

/-- classified statements (cascade branches; `other` = no branch fires) -/
inductive Item
  | doc | contains | access | sequence | format
  | attrib (isData : Bool)
  | endBlock | endAssoc | endUnit
  | modproc (hasModule : Bool) (id : Nat)
  | blockData (id : Nat) | block | associate
  | module (id : Nat) | submodule (id : Nat) | program (id : Nat)
  | subroutine (id : Nat) | namelist (id : Nat) | function (id : Nat)
  | typeDef (id : Nat) | interface (generic abstract : Bool) (id : Nat) | enum (id : Nat)
  | boundproc (id : Nat) | common (id : Nat) | final (id : Nat) | variable (id : Nat)
  | use (id : Nat) | arithGoto | call | subcall | other
  deriving DecidableEq, Repr

inductive LeafK | variable | boundproc | final | use | common | namelist | modprocRef
  deriving DecidableEq, Repr

/-- parsed entity tree -/
inductive Node
  | mk (kind : CK) (id : Nat) (generic abstract : Bool) (events : List (Sum Node (LeafK × Nat)))
  deriving Repr

abbrev Ev := Sum Node (LeafK × Nat)

/-- diagnostics printed by `print_error` (parsing continues, `dbg` default) -/
inductive Err
  | multipleContains | unexpectedContains | unexpectedAttrib | endOutside
  | unexpectedModproc | unexpectedBlockData | unexpectedModule | unexpectedSubmodule
  | unexpectedProgram | multiplePrograms | unexpectedSubroutine | unexpectedNamelist
  | unexpectedFunction | unexpectedType | unexpectedInterface | unexpectedEnum
  | unexpectedBoundproc | unexpectedCommon | unexpectedFinal | unexpectedVariable
  | unexpectedUse | unexpectedCall
  deriving DecidableEq, Repr

/-- exceptions that abort the file -/
inductive Exc
  | notImplemented        -- END at file level: FortranSourceFile has no `_cleanup`
  | attributeError        -- `len(self.programs)` on a container without `programs`
  | genericAbstract       -- `abstract interface name`
  | cannotAddCalls        -- ASSOCIATE in a container without `calls`
  | noBatches             -- END ASSOCIATE without ASSOCIATE
  | stillNested           -- "File ended while still nested."
  deriving DecidableEq, Repr

structure Frame where
  kind : CK
  id : Nat
  generic : Bool := false
  abstract : Bool := false
  incontains : Bool := false
  blocklevel : Int := 0
  assoc : Nat := 0
  programs : Nat := 0
  events : List Ev := []      -- reversed
  deriving Repr

def isCodeUnit : CK → Bool
  | .module | .submodule | .program | .subroutine | .function | .modprocImpl => true
  | _ => false

def isModuleLike : CK → Bool
  | .module | .submodule => true
  | _ => false

def canHaveContains : CK → Bool
  | .module | .submodule | .program | .subroutine | .function | .modprocImpl | .type => true
  | _ => false

/-- `hasattr(self, "calls")` -/
def hasCalls : CK → Bool
  | .program | .subroutine | .function | .modprocImpl => true
  | _ => false

/-- `hasattr(self, "attr_dict")` -/
def hasAttrDict (k : CK) : Bool := isCodeUnit k || k == .blockdata
/-- `hasattr(self, "subroutines")` / `"functions"` -/
def hasProcLists (k : CK) : Bool := isCodeUnit k || k == .file || k == .interface
/-- `hasattr(self, "types")` -/
def hasTypes (k : CK) : Bool := isCodeUnit k || k == .blockdata
/-- `hasattr(self, "interfaces")`, `"enums"`, `"namelists"` -/
def hasCodeUnitLists (k : CK) : Bool := isCodeUnit k
/-- `hasattr(self, "variables")` -/
def hasVariables (k : CK) : Bool :=
  isCodeUnit k || k == .type || k == .interface || k == .enum || k == .blockdata
/-- `hasattr(self, "uses")`, `"common"` -/
def hasUses (k : CK) : Bool := isCodeUnit k || k == .blockdata

structure St where
  stack : List Frame          -- innermost first; the last element is the file
  errs : List Err := []       -- reversed
  deriving Repr

def Frame.close (f : Frame) : Node := .mk f.kind f.id f.generic f.abstract f.events.reverse

def pushEv (e : Ev) : List Frame → List Frame
  | [] => []
  | f :: fs => { f with events := e :: f.events } :: fs

/-- open a child container -/
def openChild (s : St) (k : CK) (id : Nat) (g a : Bool := false) : St :=
  { s with stack := { kind := k, id := id, generic := g, abstract := a } :: s.stack }

def err (s : St) (e : Err) : St := { s with errs := e :: s.errs }

def leaf (s : St) (k : LeafK) (id : Nat) : St := { s with stack := pushEv (.inr (k, id)) s.stack }

def setTop (s : St) (f : Frame) : St :=
  match s.stack with
  | [] => s
  | _ :: fs => { s with stack := f :: fs }

/-- one statement; mirrors the cascade top to bottom -/
def step (s : St) (it : Item) : Except Exc St :=
  match s.stack with
  | [] => .ok s
  | f :: rest =>
  let k := f.kind
  -- the branches below `VARIABLE_RE` that a guarded branch falls through to
  let asVariable (id : Nat) : Except Exc St :=
    if f.blocklevel == 0 then
      if hasVariables k then .ok (leaf s .variable id) else .ok (err s .unexpectedVariable)
    else .ok s
  match it with
  | .doc => .ok s
  | .contains =>
    if !f.incontains && canHaveContains k then .ok (setTop s { f with incontains := true })
    else if f.incontains then .ok (err s .multipleContains)
    else .ok (err s .unexpectedContains)
  | .access => .ok s
  | .sequence => .ok s
  | .format => .ok s
  | .attrib isData =>
    if f.blocklevel == 0 then
      if hasAttrDict k then .ok s
      else if isData && k == .file then .ok s
      else .ok (err s .unexpectedAttrib)
    else .ok s            -- falls through every later branch (keyword statements match none)
  | .endBlock =>
    let s := if k == .file then err s .endOutside else s
    .ok (setTop s { f with blocklevel := f.blocklevel - 1 })
  | .endAssoc =>
    let s := if k == .file then err s .endOutside else s
    if f.assoc == 0 then .error .noBatches else .ok (setTop s { f with assoc := f.assoc - 1 })
  | .endUnit =>
    if k == .file then
      -- "END statement outside of any nesting", then `self._cleanup()` of the source file
      if f.blocklevel == 0 then .error .notImplemented else .ok (err s .endOutside)
    else if f.blocklevel == 0 then
      .ok { s with stack := pushEv (.inl f.close) rest }
    else .ok s
  | .modproc hasModule id =>
    if hasModule || k == .interface then
      if k == .interface then .ok (leaf s .modprocRef id)
      else if isModuleLike k then .ok (openChild s .modprocImpl id)
      else .ok (err s .unexpectedModproc)
    else
      -- `procedure name` : BOUNDPROC_RE when `incontains`, else VARIABLE_RE
      if f.incontains then
        if k == .type then .ok (leaf s .boundproc id) else .ok (err s .unexpectedBoundproc)
      else asVariable id
  | .blockData id =>
    if k == .file then .ok (openChild s .blockdata id) else .ok (err s .unexpectedBlockData)
  | .block => .ok (setTop s { f with blocklevel := f.blocklevel + 1 })
  | .associate =>
    if hasCalls k then .ok (setTop s { f with assoc := f.assoc + 1 }) else .error .cannotAddCalls
  | .module id =>
    if k == .file then .ok (openChild s .module id) else .ok (err s .unexpectedModule)
  | .submodule id =>
    if k == .file then .ok (openChild s .submodule id) else .ok (err s .unexpectedSubmodule)
  | .program id =>
    if k == .file then
      let s' := openChild (setTop s { f with programs := f.programs + 1 }) .program id
      -- the "Multiple PROGRAM units" test runs after the child constructor returned;
      -- it is recorded when the child closes (see `closeProgramCheck`)
      .ok s'
    else .error .attributeError     -- "Unexpected PROGRAM" is printed, then `len(self.programs)` fails
  | .subroutine id =>
    if isCodeUnit k && !f.incontains then .ok (err s .unexpectedSubroutine)
    else if hasProcLists k then .ok (openChild s .subroutine id)
    else .ok (err s .unexpectedSubroutine)
  | .namelist id =>
    if hasCodeUnitLists k then .ok (leaf s .namelist id) else .ok (err s .unexpectedNamelist)
  | .function id =>
    if isCodeUnit k && !f.incontains then .ok (err s .unexpectedFunction)
    else if hasProcLists k then .ok (openChild s .function id)
    else .ok (err s .unexpectedFunction)
  | .typeDef id =>
    if f.blocklevel == 0 then
      if hasTypes k then .ok (openChild s .type id) else .ok (err s .unexpectedType)
    else .ok s            -- `type :: t` matches VARIABLE_RE too, whose guard is the same
  | .interface g a id =>
    if f.blocklevel == 0 then
      if hasCodeUnitLists k then
        if g && a then .error .genericAbstract else .ok (openChild s .interface id g a)
      else .ok (err s .unexpectedInterface)
    else .ok s
  | .enum id =>
    if f.blocklevel == 0 then
      if hasCodeUnitLists k then .ok (openChild s .enum id) else .ok (err s .unexpectedEnum)
    else .ok s
  | .boundproc id =>
    if f.incontains then
      if k == .type then .ok (leaf s .boundproc id) else .ok (err s .unexpectedBoundproc)
    else asVariable id       -- `procedure :: x` is a VARIABLE_RE match
  | .common id =>
    if hasUses k then .ok (leaf s .common id) else .ok (err s .unexpectedCommon)
  | .final id =>
    if f.incontains then
      if k == .type then .ok (leaf s .final id) else .ok (err s .unexpectedFinal)
    else .ok s
  | .variable id => asVariable id
  | .use id =>
    if hasUses k then .ok (leaf s .use id) else .ok (err s .unexpectedUse)
  | .arithGoto => .ok s
  | .call => .ok s
  | .subcall => if hasCalls k then .ok s else .ok (err s .unexpectedCall)
  | .other => .ok s

/-- After a PROGRAM child has closed, the parent tests `len(self.programs) > 1`. -/
def afterClose (before : St) (it : Item) (after : St) : St :=
  match it, before.stack, after.stack with
  | .endUnit, f :: _ :: _, p :: _ =>
    if f.kind == .program && f.blocklevel == 0 && p.programs > 1 then err after .multiplePrograms else after
  | _, _, _ => after

def run : St → List Item → Except Exc St
  | s, [] => .ok s
  | s, it :: its =>
    match step s it with
    | .error e => .error e
    | .ok s' => run (afterClose s it s') its

def initSt : St := { stack := [{ kind := .file, id := 0 }] }

/-- Parse a whole file: the tree of the file node, the diagnostics, or the exception. -/
def parseFile (items : List Item) : Except Exc (Node × List Err) :=
  match run initSt items with
  | .error e => .error e
  | .ok s =>
    match s.stack with
    | [f] => .ok (f.close, s.errs.reverse)
    | _ => .error .stillNested

end Ford.Parse
