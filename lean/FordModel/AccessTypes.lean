/-
  C04 - vocabulary shared by the generated tables (Generated/C04.lean), the
  model (Access.lean) and the specification (AccessSpec.lean).
-/
import FordModel.Basic.Chars
namespace Ford.Access

/-- The three values FORD's `permission` attribute takes. -/
inductive Perm | pub | priv | prot
  deriving DecidableEq, Repr

/-- One attribute word of a declaration or of an attribute statement as the
    code sees it: an access word, or anything else (`save`, `deferred`, ...). -/
inductive Attr | acc (p : Perm) | other
  deriving DecidableEq, Repr

/-- The entity lists of a code unit that `process_attribs` walks. -/
inductive Cat | func | sub | type | iface | absIface | var
  deriving DecidableEq, Repr

/-- Which of the two permissions of a container is handed to a child constructor. -/
inductive Src | self | child
  deriving DecidableEq, Repr

end Ford.Access
