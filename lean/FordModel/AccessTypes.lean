/-
  C04 - vocabulary shared by the generated tables (Generated/C04.lean), the
  model (Access.lean) and the specification (AccessSpec.lean).
-/
import FordModel.Basic.Chars
namespace Ford.Access

/-- The three values FORD's `permission` attribute takes. -/
inductive Perm | pub | priv | prot
  deriving DecidableEq, Repr

/-- One attribute word of a declaration or of an attribute statement as the
    code sees it: an access word, or anything else (`save`, `deferred`, ...). -/
inductive Attr | acc (p : Perm) | other
  deriving DecidableEq, Repr

/-- The entity lists of a code unit that `process_attribs` walks. -/
inductive Cat | func | sub | type | iface | absIface | var
  deriving DecidableEq, Repr

/-- Which of the two permissions of a container is handed to a child constructor. -/
inductive Src | self | child
  deriving DecidableEq, Repr

/-- The places of a module page (`mod_page.html` with the macros of `macros.html`) where a visibility word is
    printed: a row of the *Variables* table, the heading of a derived type, a row of its *Components* / *Type-Bound
    Procedures* tables, the heading of a generic interface, a procedure listed under a generic interface (declared by
    an interface body - `member` - or referenced by `module procedure` - `ref`), the procedure of a non-generic /
    abstract interface entry, the heading of a function / subroutine, the heading of a `module procedure` body. -/
inductive PKind | var | type | comp | bind | generic | member | ref | wrapper | absIface | func | sub | mproc
  deriving DecidableEq, Repr

/-- Whose `permission` the template prints at such a place: the entity's own, that of the object it is listed
    under (module, type, generic interface), or nothing. -/
inductive PSrc | own | owner | none
  deriving DecidableEq, Repr

end Ford.Access
