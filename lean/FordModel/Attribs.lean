/-
  Attribute bookkeeping of one specification part (ford/sourceform.py), statement level.

  Three cooperating pieces of the code decide which attributes a documented variable carries:

  * `line_to_variables` - the attribute list of a type declaration statement is classified once
    (`public/private/protected`, `optional`, `parameter`, `intent(..)` become fields, everything else is
    collected in `attribs`) and EVERY entity of the statement gets its own copy of that list
    (`FortranVariable(..., copy.copy(attribs), ...)`, `self.attribs = copy.copy(attribs)`);
  * the `ATTRIB_RE` branch of `FortranContainer.__init__` - a separate attribute statement
    (`target :: u`, `dimension v(3)`, `parameter (n = 3)`, `intent(in) x`, ...) is filed in
    `attr_dict[name]` (a `defaultdict(list)`), PARAMETER values in `param_dict`;
  * `process_attribs` (`FortranCodeUnit` and `FortranBlockData`) - at the end of the unit every variable
    takes the entries filed under its lower-cased name (a code unit deletes the key afterwards, block data
    does not), and `FortranCodeUnit._cleanup` drops the variables that carry `external`.

  The model keeps Python's value semantics explicit: a variable owns its attribute list (that is what the
  two `copy.copy` calls establish); `attr_dict` is a function `Str -> List Str` (a `defaultdict(list)`
  answers `[]` for a key that was never filed).  A statement is given as the regular expressions of the
  cascade deliver it: the attribute texts and entities of a declaration, group 1 / group 2 of `ATTRIB_RE`.
-/
import FordModel.Basic.Chars
import FordModel.Basic.Split
import FordModel.TypeSpec
namespace Ford.Attribs

/-- a `FortranVariable`, as far as the attribute machinery reads or writes it -/
structure Var where
  name : Str
  attribs : List Str
  dimension : Str
  intent : Str
  optional : Bool
  permission : Str
  parameter : Bool
  initial : Option Str
  deriving DecidableEq, Repr

/-- one entity of a declaration: name, array specification written on the name (`""` or `(..)`), initial value -/
structure Ent where
  name : Str
  dims : Str
  init : Option Str
  deriving DecidableEq, Repr

inductive Stmt where
  /-- type declaration statement: the attribute texts between the commas (stripped), the entities -/
  | decl (attrs : List Str) (ents : List Ent)
  /-- attribute statement: `ATTRIB_RE` group 1 (keyword as written) and group 2 (the rest) -/
  | attr (kw rest : Str)
  deriving DecidableEq, Repr

/-- which variant of four places the working tree has (decided by the harness from the behaviour of the
    real code; every theorem holds for all sixteen combinations) -/
structure Cfg where
  /-- `var_name = name[:open_parenthesis].strip()` (repair of C01-attr-stmt-blank-before-paren); as found:
      no `.strip()`, so `dimension a (3)` is filed under `"a "` -/
  stripName : Bool
  /-- `target` is one of the keywords that take an array specification (repair of C01-target-stmt-array-spec) -/
  targetDims : Bool
  /-- the `external` filter of `_cleanup` ignores letter case (repair of C01-external-keyword-case) -/
  extAnyCase : Bool
  /-- `param_dict[name] = "=".join(split[1:])` (repair of C01-parameter-stmt-relational); as found: `split[1]`,
      so `parameter (flag = n == 3)` records ` n `, and an item without `=` raises IndexError (repaired:
      empty value) -/
  paramJoin : Bool
  deriving DecidableEq, Repr

inductive Err where
  | indexError    -- `split[1]` of a PARAMETER item without `=`
  deriving DecidableEq, Repr

def noBlank (s : Str) : Str := s.filter (· != ' ')

/-! ## `line_to_variables`: the attribute list of a declaration -/

/-- the local variables `attribs, intent, optional, permission, parameter` of `line_to_variables` -/
structure Hdr where
  attribs : List Str
  intent : Str
  optional : Bool
  permission : Str
  parameter : Bool
  deriving DecidableEq, Repr

def isAccess (l : Str) : Bool :=
  l == (chars! "public") || l == (chars! "private") || l == (chars! "protected")

/-- one round of `for tmp_attrib in tmp_attribs:` -/
def hdrStep (h : Hdr) (a : Str) : Hdr :=
  let l := noBlank (lower a)
  if isAccess l then { h with permission := l }
  else if l == (chars! "optional") then { h with optional := true }
  else if l == (chars! "parameter") then { h with parameter := true }
  else if l == (chars! "intent(in)") then { h with intent := (chars! "in") }
  else if l == (chars! "intent(out)") then { h with intent := (chars! "out") }
  else if l == (chars! "intent(inout)") then { h with intent := (chars! "inout") }
  else { h with attribs := h.attribs ++ [a] }

def hdrOf (inherit : Str) (attrs : List Str) : Hdr :=
  attrs.foldl hdrStep ⟨[], [], false, inherit, false⟩

/-- `FortranVariable(name, .., copy.copy(attribs), intent, optional, permission, parameter, .., initial)`:
    the variable owns its list -/
def mkVar (h : Hdr) (e : Ent) : Var :=
  ⟨e.name, h.attribs, e.dims, h.intent, h.optional, h.permission, h.parameter, e.init⟩

/-- the variables one statement declares by itself -/
def declVars (inherit : Str) : Stmt → List Var
  | .decl attrs ents => ents.map (mkVar (hdrOf inherit attrs))
  | .attr _ _ => []

/-- all variables of the specification part as their own declarations describe them, in source order -/
def declared (inherit : Str) (stmts : List Stmt) : List Var := stmts.flatMap (declVars inherit)

/-! ## the `ATTRIB_RE` branch -/

/-- `str.replace(",", ", ")` -/
def commaBlank : Str → Str
  | [] => []
  | c :: cs => if c == ',' then ',' :: ' ' :: commaBlank cs else c :: commaBlank cs

/-- `attr = match.group(1).lower().replace(" ", "")`, and for `bind(..)`: `attr.replace(",", ", ")` -/
def attrNorm (kw : Str) : Str :=
  let a := noBlank (lower kw)
  if startsWith a (chars! "bind") then commaBlank a else a

/-- position of the first `(` (`str.index`), `none` = ValueError -/
def parenIdx : Str → Option Nat
  | [] => none
  | c :: cs => if c == '(' then some 0 else (parenIdx cs).map (· + 1)

/-- `name[:open_parenthesis]`, `name[open_parenthesis:]` (or the whole name and `""`) -/
def splitDims (n : Str) : Str × Str :=
  match parenIdx n with
  | some i => (n.take i, n.drop i)
  | none => (n, [])

def isDimKw (cfg : Cfg) (a : Str) : Bool :=
  a == (chars! "dimension") || a == (chars! "allocatable") || a == (chars! "pointer")
  || (cfg.targetDims && a == (chars! "target"))

def varKey (cfg : Cfg) (s : Str) : Str := if cfg.stripName then strip s else s

/-- `_attr_key` (repair cbe48be): the key of an item of an access / SAVE / OPTIONAL ... statement. A generic-spec
    is the same identifier however its tokens are spaced; a plain name is filed as before. -/
def attrKey (it : Str) : Str :=
  let t := lower (strip it)
  if t.contains '(' then t.filter (fun c => !isSpace c) else t

/-- what one attribute statement files under the key `n`: the texts appended to `attr_dict[n]`, in order.
    (`data` files nothing; `dimension/allocatable/pointer` file keyword + array specification under the
    name in front of the parenthesis; a PARAMETER item is filed under the name in front of its `=`;
    every other keyword is filed under the whole item.) -/
def contrib (cfg : Cfg) (n : Str) : Stmt → List Str
  | .decl _ _ => []
  | .attr kw rest =>
    let a := attrNorm kw
    if a == (chars! "data") then []
    else if isDimKw cfg a then
      (parenSplit ',' rest).filterMap fun it =>
        let nd := splitDims (lower (strip it))
        if varKey cfg nd.1 = n then some (a ++ nd.2) else none
    else if a == (chars! "parameter") then
      (parenSplit ',' (strip ((rest.drop 1).dropLast))).filterMap fun it =>
        if lower (strip ((parenSplit '=' it).headD [])) = n then some a else none
    else
      (parenSplit ',' rest).filterMap fun it => if lower (strip it) = n then some a else none

/-- everything the attribute statements of the specification part file under `n`, in source order -/
def named (cfg : Cfg) (stmts : List Stmt) (n : Str) : List Str := stmts.flatMap (contrib cfg n)

/-- the items of a PARAMETER statement (`paren_split(",", stmnt[1:-1].strip())`), `[]` for any other statement -/
def paramItems : Stmt → List Str
  | .decl _ _ => []
  | .attr kw rest =>
    if attrNorm kw == (chars! "parameter") then parenSplit ',' (strip ((rest.drop 1).dropLast)) else []

/-- `split[1]` exists (the repaired variant takes the slice `split[1:]`, which always exists) -/
def itemOk (cfg : Cfg) (it : Str) : Bool :=
  cfg.paramJoin ||
  match parenSplit '=' it with
  | _ :: _ :: _ => true
  | _ => false

/-- no PARAMETER item without `=` (otherwise `split[1]` raises IndexError and the file is rejected) -/
def paramsOk (cfg : Cfg) (stmts : List Stmt) : Bool := stmts.all fun s => (paramItems s).all (itemOk cfg)

/-- the writes `param_dict[name] = split[1]` of one statement, in order -/
def paramPairs (cfg : Cfg) (s : Stmt) : List (Str × Str) :=
  (paramItems s).filterMap fun it =>
    match parenSplit '=' it with
    | a :: b :: more => some (lower (strip a), if cfg.paramJoin then joinSep '=' (b :: more) else b)
    | [a] => if cfg.paramJoin then some (lower (strip a), []) else none
    | [] => none

/-- all writes to `param_dict` of the specification part, in order -/
def params (cfg : Cfg) (stmts : List Stmt) : List (Str × Str) := stmts.flatMap (paramPairs cfg)

/-- `param_dict[k]`: the last write wins -/
def lookupLast (k : Str) : List (Str × Str) → Option Str
  | [] => none
  | (a, b) :: r =>
    match lookupLast k r with
    | some v => some v
    | none => if a = k then some b else none

/-! ## `process_attribs` -/

def hasSub (p : Str) : Str → Bool
  | [] => p.isEmpty
  | c :: cs => startsWith (c :: cs) p || hasSub p cs

/-- `DIM_RE = ^\w+\s*(\(.*\))\s*$` (no line feed in an attribute text) -/
def dimRe (a : Str) : Bool :=
  let w := a.takeWhile isWord
  let r := lstrip (a.dropWhile isWord)
  !w.isEmpty && r.head? == some '(' && (rstrip (r.drop 1)).getLast? == some ')'

/-- one round of `for attr in self.attr_dict[var.name.lower()]:` -/
def dimOwner (cfg : Cfg) (a : Str) : Bool :=
  hasSub (chars! "pointer") a || hasSub (chars! "allocatable") a || (cfg.targetDims && hasSub (chars! "target") a)

def applyAttr (cfg : Cfg) (params : List (Str × Str)) (v : Var) (a : Str) : Var :=
  if isAccess a then { v with permission := a }
  else if a.take 6 == (chars! "intent") then { v with intent := (a.drop 7).dropLast }
  else if dimRe a && dimOwner cfg a then
    let i := (parenIdx a).getD 0
    { v with attribs := v.attribs ++ [a.take i], dimension := a.drop i }
  else if a == (chars! "parameter") then
    { v with attribs := v.attribs ++ [a], initial := lookupLast (lower v.name) params }
  else { v with attribs := v.attribs ++ [a] }

def applyAll (cfg : Cfg) (params : List (Str × Str)) (v : Var) (as : List Str) : Var :=
  as.foldl (applyAttr cfg params) v

abbrev Dict := Str → List Str

def Dict.erase (d : Dict) (k : Str) : Dict := fun x => if x = k then [] else d x

/-- `for var in self.variables: for attr in self.attr_dict[var.name.lower()]: ...` followed, in a code unit,
    by `del self.attr_dict[var.name.lower()]` -/
def processVars (cfg : Cfg) (blockData : Bool) (params : List (Str × Str)) : List Var → Dict → List Var
  | [], _ => []
  | v :: vs, d =>
    applyAll cfg params v (d (lower v.name))
      :: processVars cfg blockData params vs (if blockData then d else d.erase (lower v.name))

/-- `self.variables = [v for v in self.variables if "external" not in v.attribs]` (code units only) -/
def isExternal (cfg : Cfg) (v : Var) : Bool :=
  if cfg.extAnyCase then (v.attribs.map lower).contains (chars! "external") else v.attribs.contains (chars! "external")

def dropExternal (cfg : Cfg) (blockData : Bool) (vs : List Var) : List Var :=
  if blockData then vs else vs.filter fun v => !isExternal cfg v

/-- the variables of a unit after `_cleanup`, before the argument / result matching -/
def run (cfg : Cfg) (blockData : Bool) (inherit : Str) (stmts : List Stmt) : Except Err (List Var) :=
  if paramsOk cfg stmts then
    .ok (dropExternal cfg blockData
          (processVars cfg blockData (params cfg stmts) (declared inherit stmts) (named cfg stmts)))
  else .error .indexError

/-- an attribute keyword that is simply recorded, whether it stands on the declaration or in its own
    statement: written in lower case without blanks, not an access / optional / parameter / intent keyword,
    not `data`, no parenthesised part that would be read as an array specification.
    (`save`, `target`, `volatile`, `asynchronous`, `value`, `external`, `allocatable`, `pointer`, `bind(c)`, ...) -/
def isPlain (cfg : Cfg) (k : Str) : Bool :=
  attrNorm k == k && noBlank (lower k) == k && !isAccess k && k != (chars! "optional") && k != (chars! "parameter")
  && k != (chars! "intent(in)") && k != (chars! "intent(out)") && k != (chars! "intent(inout)")
  && k != (chars! "data") && !(k.take 6 == (chars! "intent")) && !(dimRe k && dimOwner cfg k)

end Ford.Attribs
