/-
  C09 — the files that are *not* pages but that pages link to.

  (1) Assets.  Every page template writes `{{ project_url }}/<path>` URLs that are neither list pages
      nor entity pages: the icon, the style sheets and scripts shipped with FORD, the user's style
      sheet, the MathJax configuration, the search index and its loader, `index.html`, `search.html`.
      Each of them exists only because `Documentation.writeout` puts a file at exactly that path
      (`shutil.copy(.., out_dir / "favicon.png")`, `copytree(loc / "css", out_dir / "css")`, …,
      the `writeout()` of the index and search page; the user's `media_dir` and `page_dir` trees go below
      the directories the `|media|` / `|page|` aliases expand to).  Both sides are regenerated from the source
      (Generated/C09.lean: `assetTables`): the links with the conjunction of the enclosing
      `{% if %}` tests, the writes with their destination expression, their kind and the enclosing
      Python `if`s.  A path is a list of pieces: literal text, or the value of an expression
      (`basename(mathjax_config)`) that both sides name by the same key.

  (2) Copies next to static pages.  `PagetreePage.writeout` copies, for *every* page, the directories
      named by the page's `copy_subdir` and the page's `files` next to the page; a relative link
      `<dir>/<file>` written on that page resolves only because of that copy.  The guard under which
      the two loops run is regenerated (`pageTables`).

  Import-free (driver).
-/
import FordModel.Path
import FordModel.Nav
import FordModel.PageName
namespace Ford.Assets
open Ford.Path Ford.Nav

/-! ## (1) asset links versus asset writes -/

/-- one piece of a path expression -/
inductive Piece where
  | lit (s : Str)     -- literal text (may contain `/`)
  | dyn (key : Str)   -- the value of an expression, named by a key both sides agree on
  deriving Repr, DecidableEq

/-- a token of the flattened path: one literal character, or a dynamic value -/
inductive Tok where
  | ch (c : Char)
  | val (key : Str)
  deriving Repr, DecidableEq

/-- literals spelt out character by character: `css` `/` `user.css` and `css/user.css` are the same path -/
def flat : List Piece → List Tok
  | [] => []
  | .lit s :: ps => s.map Tok.ch ++ flat ps
  | .dyn k :: ps => Tok.val k :: flat ps

def tokStr (ρ : Str → Str) : Tok → Str
  | .ch c => [c]
  | .val k => ρ k

/-- the text of a path for given values of the dynamic pieces -/
def inst (ρ : Str → Str) (p : List Piece) : Str := (flat p).flatMap (tokStr ρ)

/-- a URL below the root that a template writes: `<tag … attr="{{ project_url }}/<path>">` -/
structure Link where
  tpl : Str
  tag : Str
  attr : Str
  path : List Piece
  cond : Cond
  deriving Repr, DecidableEq

/-- what puts files below the destination -/
inductive Src where
  | file                        -- `shutil.copy(x, dest)`: exactly the file `dest`
  | page                        -- `writeout()` of a page whose `outfile` is `dest`
  | shipped (files : List Str)  -- `copytree(loc / d, dest)`: the files of FORD's own directory `d`
  | user                        -- `copytree(<user directory>, dest)`: whatever the user put there
  deriving Repr, DecidableEq

/-- one write of `Documentation.writeout`, destination relative to the output directory -/
structure Write where
  dest : List Piece
  src : Src
  cond : Cond
  deriving Repr, DecidableEq

structure Tables where
  links : List Link
  writes : List Write
  /-- the built-in Markdown aliases (`|url|`, `|media|`, `|page|`): name, path below `project_url` -/
  aliases : List (Str × List Piece)

/-- the files one write creates (paths below the output directory) -/
def writeFiles (ρ : Str → Str) (w : Write) : List Str :=
  match w.src with
  | .file => [inst ρ w.dest]
  | .page => [inst ρ w.dest]
  | .shipped fs => fs.map fun f => inst ρ w.dest ++ '/' :: f
  | .user => []

/-- all asset files written for a project of shape / option values `sh` -/
def written (T : Tables) (sh : Shape) (ρ : Str → Str) : List Str :=
  T.writes.flatMap fun w => if eval sh w.cond then writeFiles ρ w else []

/-- the asset links a template emits -/
def emitted (T : Tables) (sh : Shape) (tpl : Str) : List Link :=
  T.links.filter fun l => decide (l.tpl = tpl) && eval sh l.cond

/-- does the write create the file the link names, whatever the dynamic values are? -/
def covers (w : Write) (l : Link) : Bool :=
  match w.src with
  | .file => decide (flat w.dest = flat l.path)
  | .page => decide (flat w.dest = flat l.path)
  | .shipped fs => fs.any fun f => decide (flat l.path = flat w.dest ++ (('/' :: f).map Tok.ch))
  | .user => false

/-- the obligation for one link: some write creates its file, under a condition the link's condition implies -/
def linkOk (T : Tables) (l : Link) : Bool :=
  T.writes.any fun w => covers w l && valid (imp l.cond w.cond)

/-- the obligation for one built-in alias: it expands to the output root itself, or to the very directory
    below which a copy of a user directory is made (`media_dir` -> `media`, `page_dir` -> `page`) -/
def aliasOk (T : Tables) (a : Str × List Piece) : Bool :=
  decide (flat a.2 = []) || T.writes.any fun w => decide (w.src = .user) && decide (flat w.dest = flat a.2)

/-! ## (2) copies next to static pages -/

/-- the guard of a loop of `PagetreePage.writeout`, as a function of "is this the index page of its directory" -/
inductive CopyGuard where
  | always
  | indexOnly
  | nonIndexOnly
  | never
  deriving Repr, DecidableEq

def CopyGuard.runs : CopyGuard → Bool → Bool
  | .always, _ => true
  | .indexOnly, i => i
  | .nonIndexOnly, i => !i
  | .never, _ => false

structure PageTables where
  /-- guard of `for item in self.obj.copy_subdir: copytree(..)` -/
  copyGuard : CopyGuard
  /-- guard of `for item in self.obj.files: shutil.copy(..)` -/
  filesGuard : CopyGuard
  /-- round 6: how `PageNode.url`, `PagetreePage.outfile` and `PagetreePage.loc` name the page's HTML file
      (`PageName.lean`) -/
  names : PageName.NameTables
  deriving Repr, DecidableEq

abbrev pageSeg : Seg := PageName.pageSeg
def indexStem : Seg := ['i', 'n', 'd', 'e', 'x']
abbrev htmlExt : Str := PageName.htmlExt

/-- a `PageNode` as `PagetreePage.writeout` sees it: `copySubdir` pairs every item that is a directory
    next to the page source with the files below it; `files` are the other files of the page's directory
    (only the node of `index.md` carries them). -/
structure PageNode where
  loc : List Seg
  stem : Seg
  copySubdir : List (Seg × List (List Seg))
  files : List Seg

def PageNode.isIndex (p : PageNode) : Bool := p.stem == indexStem

/-- the files `PagetreePage.writeout` creates for one page, below the output directory -/
def pageWrites (T : PageTables) (p : PageNode) : List (List Seg) :=
  PageName.outPath T.names p.loc p.stem ::
    ((if T.copyGuard.runs p.isIndex then
        p.copySubdir.flatMap fun it => it.2.map fun f => pageSeg :: p.loc ++ it.1 :: f
      else []) ++
     (if T.filesGuard.runs p.isIndex then p.files.map fun f => pageSeg :: p.loc ++ [f] else []))

/-- the directory of the page's HTML file below the output directory -/
def pageDirOf (p : PageNode) : List Seg := pageSeg :: p.loc

end Ford.Assets
