/-
  Model of the step that decides WHICH module a USE statement refers to (property C06):

  * `Project.correlate`:  `extModules.extend(ExternalModule(name, url) for name, url in
    settings.extra_mods.items())` - one stub with EMPTY `pub_*` tables per entry of
    `extra_mods` (pre-populated with iso_fortran_env, iso_c_binding, ieee_*, openacc, omp_lib, mpi,
    mpi_f08; a project may add its own)                                   -> `ExtMod`
  * `find_used_modules`:  `for candidate in chain(modules, external_modules): if
    dependency_name == candidate.name.lower(): dependency[0] = candidate; break`
                                                                          -> `bindName`
  * what `FortranCodeUnit.correlate` then does with the bound object: a project module is
    imported from (`get_used_entities`), an external stub yields four empty dicts (`update`
    with nothing), a name that stayed a string is skipped                -> `bindUses`

  `bindG g exts` is the project after `find_used_modules`: every USE statement that was bound to
  a module of the project names that module by its declared name (so `Use.findMod`, an exact
  comparison, finds it whatever the case of the two spellings), the others are gone.  The
  tables FORD computes are `Use.runN k (bindG g exts) (bindNs g exts ns) order`.

  As the code is: the module nature of the statement (`use, intrinsic :: m`) is dropped by USE_RE
  before this step, so an INTRINSIC reference is bound like any other (finding
  C06-intrinsic-nature-binds-project-module).
-/
import FordModel.Use
namespace Ford.Use
open Ford

/-- `ExternalModule(name, url)` built from one entry of `settings.extra_mods` -/
structure ExtMod where
  name : Str
  deriving DecidableEq, Repr

/-- one element of `chain(modules, external_modules)` -/
inductive Cand
  | proj (m : Scope)
  | ext (e : ExtMod)
  deriving Repr

def Cand.name : Cand → Str
  | .proj m => m.name
  | .ext e => e.name

/-- the two arguments of `chain(...)` in `find_used_modules`, in source order (pinned to the
    working tree by `Generated.C06.bindingChain`) -/
def chainOrder : List Str :=
  [['m', 'o', 'd', 'u', 'l', 'e', 's'],
   ['e', 'x', 't', 'e', 'r', 'n', 'a', 'l', '_', 'm', 'o', 'd', 'u', 'l', 'e', 's']]

/-- `chain(modules, external_modules)`: the project's own modules first -/
def chainCands (g : List Scope) (exts : List ExtMod) : List Cand :=
  (g.filter (·.isMod)).map .proj ++ exts.map .ext

/-- `dependency[0]` after `find_used_modules` -/
inductive Bound
  | project (m : Scope)
  | external (e : ExtMod)
  | unbound
  deriving Repr

/-- printable form: `p:<declared name>` / `e:<name of the entry>` / `u` -/
def Bound.tag : Bound → Str
  | .project m => 'p' :: ':' :: m.name
  | .external e => 'e' :: ':' :: e.name
  | .unbound => ['u']

/-- the scan with `break`: the FIRST candidate whose lower-cased name equals the lower-cased
    name in the statement -/
def bindName (g : List Scope) (exts : List ExtMod) (n : Str) : Bound :=
  match (chainCands g exts).find? (fun c => lower c.name == lower n) with
  | some (.proj m) => .project m
  | some (.ext e) => .external e
  | none => .unbound

/-- one USE statement after binding, as `correlate` will treat it: `some` = import from that
    module of the project; `none` = nothing to import (empty stub / unresolved string) -/
def bindUse (g : List Scope) (exts : List ExtMod) (u : UseA) : Option UseA :=
  match bindName g exts u.mod with
  | .project m => some { u with mod := m.name }
  | .external _ => none
  | .unbound => none

def bindUses (g : List Scope) (exts : List ExtMod) (us : List UseA) : List UseA :=
  us.filterMap (bindUse g exts)

def bindScope (g : List Scope) (exts : List ExtMod) (s : Scope) : Scope :=
  { s with uses := bindUses g exts s.uses }

/-- the project after `find_used_modules` ran over every entity -/
def bindG (g : List Scope) (exts : List ExtMod) : List Scope := g.map (bindScope g exts)

/-- ... including the recursion `for procedure in entity.routines: find_used_modules(procedure, ...)` -/
def bindNs (g : List Scope) (exts : List ExtMod) (ns : List Nested) : List Nested :=
  ns.map (fun x => { x with scope := bindScope g exts x.scope })

/-- The tree as it is: `find_used_modules` recurses into `entity.routines` and into the bodies of
    `entity.interfaces`, but never into `entity.absinterfaces`; the USE statements of an abstract
    interface body therefore stay strings and `correlate` skips them (finding
    C06-abstract-interface-body-use-unbound).  `unreached` names those scopes; the harness passes
    the abstract interface bodies when a probe shows that the working tree does not bind them, and
    nothing once it does (fixes/C06-interface-body-uses.diff). -/
def bindNsU (g : List Scope) (exts : List ExtMod) (unreached : List Str) (ns : List Nested) : List Nested :=
  ns.map (fun x =>
    if unreached.contains x.scope.name then { x with scope := { x.scope with uses := [] } }
    else { x with scope := bindScope g exts x.scope })

end Ford.Use
