/-
  Model of `include` expansion in ford/reader.py: the `pending` queue of `FortranReader`
  (the `;`-separated statements of the logical line just read), the method `include()` that looks
  at the head of that queue, and the two places of `__next__` that pop it:

    prologue  (top of `__next__`)     `if len(self.pending) != 0: [self.include()] ... return self.pending.pop(0)`
    epilogue  (bottom of `__next__`)  `if len(self.pending) > 0:  [self.include()] ... return self.pending.pop(0)`

  Which of the two calls `self.include()`, whether the code re-tests the queue after the call
  (`guarded`, the repaired variant, fixes/C02-include-without-statements.diff) and how an include
  statement is recognised (`kwLoose`, fixes/C02-include-keyword-separator.diff) is *regenerated from
  the source* on every run (`Generated.C02.incPrologue` ..., collected in `Include.readerCfg`,
  translate/c02.py).

  The file system is a flat finite map `name -> physical lines`; an included file is read by a
  nested reader (`readFS`, recursion on the nesting depth - Python's recursion limit plays that role).
  What is not modelled: directories (`dirname(self.name)`, `inc_dirs`: the harness keeps every name
  unique and reachable, so the search order is immaterial), `~` expansion, the preprocessor, decoding.
  Items spliced in by `include()` are looked at again by the next prologue call; in a flat file
  system that second look finds what the nested reader found (an include statement is left in the
  nested reader's output only for a missing `.h` file, which is missing for the outer reader too), so
  the model emits them as they are.
-/
import FordModel.Reader
import FordModel.TypeSpec
namespace Ford.Include
open Ford TypeSpec

/-- where `__next__` calls `self.include()`, and the variant of the pops -/
structure Cfg where
  /-- the pop at the top of `__next__` (statements queued by an earlier call) is preceded by `self.include()` -/
  incPrologue : Bool
  /-- the pop at the bottom of `__next__` (first statement of the line just read) is preceded by `self.include()` -/
  incEpilogue : Bool
  /-- repaired variant: the queue is tested again after `include()`, `include()` goes on to the next
      statement when the included file gave nothing, and a logical line that leaves nothing to return
      reads on -/
  guarded : Bool
  /-- repaired variant of the recognition of an include statement: `INCLUDE_RE = include\s*(?=['"])`
      (IGNORECASE) matched at the start of the statement and the name taken from `[7:]`, where the code
      as it stands asks for `.lower().startswith("include ")` and takes the name from `[8:]` -/
  kwLoose : Bool
  deriving DecidableEq, Repr

inductive IErr
  | reader (e : RErr)
  | notFound      -- FileNotFoundError 'Can not find include file'
  | popEmpty      -- IndexError 'pop from empty list'
  | depth         -- nesting deeper than the model was asked to follow (RecursionError)
  deriving DecidableEq, Repr

/-- what looking up and reading the named file gives -/
inductive Res
  | items (l : List Str)    -- `list(FortranReader(name, ...))`
  | missingH                -- not found, name ends in `.h`: warning, the statement is kept
  | failed (e : IErr)       -- not found (other names), or the nested reader raised

/-- first character of `s` after any white space is a quote character: `\s*(?=['"])` -/
def quoteNext (s : Str) : Bool :=
  match lstrip s with
  | c :: _ => isQuote c
  | [] => false

/-- `self.pending[0].lower().startswith("include ")`; repaired: `self.INCLUDE_RE.match(self.pending[0])` -/
def isIncludeStmt (loose : Bool) (s : Str) : Bool :=
  if loose then startsWith (lower s) (chars! "include") && quoteNext (s.drop 7)
  else startsWith (lower s) (chars! "include ")

/-- `curpending[8:].strip()[1:-1]`; repaired: `curpending[7:].strip()[1:-1]` -/
def includeName (loose : Bool) (s : Str) : Str :=
  ((strip (s.drop (if loose then 7 else 8))).drop 1).dropLast

/-- one call of `include()` seen from the head of the queue -/
inductive Look
  | keep                    -- not an include statement, or a missing `.h` file
  | splice (l : List Str)   -- the statement is replaced by the items of the file
  | fail (e : IErr)

def look (loose : Bool) (resolve : Str → Res) (p : Str) : Look :=
  if !isIncludeStmt loose p then .keep else
  match resolve (includeName loose p) with
  | .items l => .splice l
  | .missingH => .keep
  | .failed e => .fail e

/-- which `pop(0)` returns the next item: the one at the bottom of `__next__` (first statement of
    a line), the one at its top (queued statements), or - as the code stands - the `pop(0)` that
    follows an `include()` which spliced in an empty list: it returns the *next* queued statement
    unexamined, or raises when there is none -/
inductive Pop | epilogue | prologue | blind
  deriving DecidableEq, Repr

/-- The items returned for the queue `pending` until it is empty. -/
def drain (c : Cfg) (resolve : Str → Res) : Pop → List Str → Except IErr (List Str)
  | .blind, [] => .error .popEmpty
  | _, [] => .ok []
  | .blind, p :: rest => (drain c resolve .prologue rest).map (p :: ·)
  | .epilogue, p :: rest =>
    if c.incEpilogue then
      match look c.kwLoose resolve p with
      | .keep => (drain c resolve .prologue rest).map (p :: ·)
      | .fail e => .error e
      | .splice [] => if c.guarded then drain c resolve .epilogue rest else drain c resolve .blind rest
      | .splice (x :: l) => (drain c resolve .prologue rest).map (fun r => x :: l ++ r)
    else (drain c resolve .prologue rest).map (p :: ·)
  | .prologue, p :: rest =>
    if c.incPrologue then
      match look c.kwLoose resolve p with
      | .keep => (drain c resolve .prologue rest).map (p :: ·)
      | .fail e => .error e
      | .splice [] => if c.guarded then drain c resolve .prologue rest else drain c resolve .blind rest
      | .splice (x :: l) => (drain c resolve .prologue rest).map (fun r => x :: l ++ r)
    else (drain c resolve .prologue rest).map (p :: ·)

/-- the end of a loop iteration, first half: the alt-block counters advance, the piece is appended to
    the buffer -/
def tailState (s : RS) (line : Str) : RS :=
  let s := if s.readingAlt > 0 then { s with readingAlt := s.readingAlt + 1 } else s
  let s := if s.readingPredocAlt > 0 then { s with readingPredocAlt := s.readingPredocAlt + 1 } else s
  { s with linebuffer := s.linebuffer ++ line }

/-- `done`: the logical line (or the preceding doc block) is complete -/
def tailDone (s : RS) : Bool :=
  (!s.docbuffer.isEmpty || !s.linebuffer.isEmpty) && !s.continued && !s.readingPredoc && s.readingPredocAlt == 0

/-- `[s.strip() for s in quote_split(";", linebuffer) if len(s) > 0]` -/
def splitPending (s : RS) : List Str :=
  ((quoteSplit ';' s.linebuffer).filter (fun f => !f.isEmpty)).map strip

/-- the state after a completed logical line whose items have all been returned -/
def afterLine (s : RS) (pd : Bool) : RS :=
  { docbuffer := [], prevdoc := pd, readingAlt := s.readingAlt, continued := false,
    readingPredoc := false, readingPredocAlt := 0, linebuffer := [] }

/-- `Reader.feedTail` with the queue drained through `include()`. -/
def feedTailI (c : Cfg) (resolve : Str → Res) (m : Marks) (s : RS) (line : Str) : Except IErr (RS × List Str) :=
  let s := tailState s line
  if !tailDone s then .ok (s, []) else
    let pending := splitPending s
    if pending.isEmpty && s.docbuffer.isEmpty then .error (.reader .internal) else
    match drain c resolve .epilogue pending with
    | .error e => .error e
    | .ok drained =>
      .ok (afterLine s (flush m drained s.docbuffer s.prevdoc).2, (flush m drained s.docbuffer s.prevdoc).1)

/-- one of the three doc-mark tests that only buffer (`predocmark`, `predocmark_alt`, `docmark_alt`):
    on a match the line's comment goes to `docbuffer` with the mark replaced by the docmark, the block
    flags are set by `upd`, and text in front of the comment is an error -/
def markStage (doc mark : Str) (err : RErr) (upd : RS → RS) (inQuote : Bool) (line0 : Str) (s : RS) : Except IErr RS :=
  match matchDocmark mark line0 inQuote with
  | some i =>
    let s' := { upd s with docbuffer := s.docbuffer ++ [substMark doc mark.length (line0.drop i)] }
    if !(isBlank (line0.take i)) then .error (.reader err) else .ok s'
  | none => .ok s

/-- the docmark test: the doc comment is buffered and cut off the line -/
def docStage (m : Marks) (inQuote : Bool) (line0 : Str) (s : RS) : RS × Str :=
  match matchDocmark m.doc line0 inQuote with
  | some i => ({ s with readingAlt := 0, readingPredocAlt := 0,
                        docbuffer := s.docbuffer ++ [line0.drop i] }, line0.take i)
  | none => (s, line0)

/-- anything but a comment line ends an alternate block -/
def blockStage (line : Str) (s : RS) : RS :=
  let fc := firstStripped line
  let s := if fc.isNone || fc != some '!' then { s with readingAlt := 0 } else s
  if fc.isSome && fc != some '!' then { s with readingPredocAlt := 0 } else s

/-- ordinary comments are cut off (inside an alternate block a whole-line comment is documentation) -/
def comStage (m : Marks) (inQuote : Bool) (line : Str) (s : RS) : RS × Str :=
  match matchCom line inQuote with
  | some i =>
    let s := if (s.readingPredocAlt > 1 || s.readingAlt > 1) && isBlank (line.take i)
             then { s with docbuffer := s.docbuffer ++ [('!' :: m.doc) ++ (line.drop i).drop 1] }
             else s
    (s, line.take i)
  | none => (s, line)

/-- the loop body of `__next__` on one physical line, up to the if/else on the stripped line (the
    text of `Reader.feed`, in stages): `none` = a `#` line (`continue`), otherwise the state and the
    stripped line without its comment / documentation -/
def feedFront (m : Marks) (s : RS) (line0 : Str) : Except IErr (Option (RS × Str)) :=
  let inQuote := unterminated s.linebuffer
  if firstStripped line0 == some '#' then .ok none else
  match markStage m.doc m.pre .predocInline
      (fun s => { s with readingPredoc := true, readingAlt := 0, readingPredocAlt := 0 }) inQuote line0 s with
  | .error e => .error e
  | .ok s =>
  match markStage m.doc m.preAlt .predocAltInline
      (fun s => { s with readingPredocAlt := 1, readingAlt := 0, readingPredoc := false }) inQuote line0 s with
  | .error e => .error e
  | .ok s =>
  match markStage m.doc m.alt .altInline
      (fun s => { s with readingAlt := 1, readingPredoc := false, readingPredocAlt := 0 }) inQuote line0 s with
  | .error e => .error e
  | .ok s =>
  let sl := docStage m inQuote line0 s
  let sl2 := comStage m inQuote sl.2 (blockStage sl.2 sl.1)
  .ok (some (sl2.1, strip sl2.2))

/-- how the if/else on the stripped line ends: an exception, a `continue`, or on to the end of the
    loop body with this state and this piece of the logical line -/
inductive Back
  | err (e : IErr)
  | skip (s : RS)
  | tail (s : RS) (line : Str)

/-- the if/else on the stripped line: empty line (a doc line of nothing after documentation), leading
    `&`, trailing `&` -/
def feedBack (m : Marks) (s : RS) (line : Str) : Back :=
  match line with
  | [] =>
    let s := if s.prevdoc && s.docbuffer.isEmpty then { s with docbuffer := ['!' :: m.doc] } else s
    .tail s []
  | ch :: rest =>
    let s := { s with readingPredoc := false, readingPredocAlt := 0, readingAlt := 0 }
    if ch == '&' then
      if s.continued then
        if isBlank rest then .skip s
        else
          let (s, line) := if rest.getLast? == some '&' then ({ s with continued := true }, rest.dropLast)
                           else ({ s with continued := false }, rest)
          .tail s line
      else if rest.isEmpty then .skip s
      else .err (.reader .ampStart)
    else
      let s := { s with linebuffer := strip s.linebuffer ++ [' '] }
      let line := ch :: rest
      let (s, line) := if line.getLast? == some '&' then ({ s with continued := true }, line.dropLast)
                       else ({ s with continued := false }, line)
      .tail s line

/-- One iteration of the `while not done` loop on one physical line, with the end of the loop body
    (`tail`) and the value of a `continue` (`skip`) as parameters: the batch reader plugs in
    `feedTailI`, the call-by-call reader (`PassBack.lean`) its raw tail. -/
def feedG {β : Type} (skip : β) (tail : RS → Str → Except IErr (RS × β)) (m : Marks) (s : RS) (line0 : Str) :
    Except IErr (RS × β) :=
  match feedFront m s line0 with
  | .error e => .error e
  | .ok none => .ok (s, skip)
  | .ok (some (s1, line)) =>
    match feedBack m s1 line with
    | .err e => .error e
    | .skip s2 => .ok (s2, skip)
    | .tail s2 l2 => tail s2 l2

/-- `Reader.feed` (one physical line) with `feedTailI` in the place of `feedTail`. -/
def feedI (c : Cfg) (resolve : Str → Res) (m : Marks) (s : RS) (line0 : Str) : Except IErr (RS × List Str) :=
  feedG [] (feedTailI c resolve m) m s line0

def readFromI (c : Cfg) (resolve : Str → Res) (m : Marks) : RS → List Str → Except IErr (List Str)
  | _, [] => .ok []
  | s, l :: ls =>
    match feedI c resolve m s l with
    | .error e => .error e
    | .ok (s', items) =>
      match readFromI c resolve m s' ls with
      | .error e => .error e
      | .ok more => .ok (items ++ more)

/-- a flat file system: name -> physical lines -/
abbrev FS := List (Str × List Str)

def lookupFS : FS → Str → Option (List Str)
  | [], _ => none
  | (n, ls) :: rest, name => if n == name then some ls else lookupFS rest name

/-- `name.endswith(".h")` -/
def endsWithH (name : Str) : Bool := startsWith name.reverse ['h', '.']

/-- `list(FortranReader(file))` for a file with physical lines `lines` whose include statements are
    looked up in `fs`; `depth` bounds the nesting of included files. -/
def readFS (c : Cfg) (m : Marks) (fs : FS) : Nat → List Str → Except IErr (List Str)
  | 0, _ => .error .depth
  | d + 1, lines =>
    readFromI c (fun name =>
      match lookupFS fs name with
      | none => if endsWithH name then .missingH else .failed .notFound
      | some ls =>
        match readFS c m fs d ls with
        | .ok l => .items l
        | .error e => .failed e) m {} lines

end Ford.Include
